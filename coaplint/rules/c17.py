"""C17 Site routing: exact match, longest prefix for nested sites, matching discovery."""

import ast
import itertools
import urllib.parse

from ..rulekit import *
from ..exc import EscapeAnalysis
from ._kit_c17 import *

R = Rules(
    "C17",
    explanation=(
        "Clauses of resource.Site, resource.WKCResource and Message.get_request_uri decided on the syntax trees of the package.  "
        "Clauses a, b, d, e, f, g, h, i are small-scope model checks: the checker's own evaluator (rules/_kit_c17.Interp, an interpreter for a "
        "subset of Python over the syntax trees of the analysed program; no repository code is imported or executed) evaluates the "
        "analysed functions on an enumerated family of small concrete configurations and compares the outcome with reference semantics "
        "written down in this module; collaborators (the request's option set, remote and code, registered resources, link descriptions) are "
        "symbolic objects supplied by the rule, while request.copy() is the program's own Message.copy / Message.__init__, evaluated like the "
        "rest.  All sites are built through the program's own Site.__init__/add_resource, so the "
        "clauses do not depend on how the tables are spelled or accessed.  Registered objects that are false in a boolean context (empty "
        "collections, __bool__) are part of the families of a, b, c, d and f: presence is decided by the tables' keys, never by the truth value "
        "of what is registered.  (a) for every request path of length 0..4 that is "
        "registered as a resource -- whatever else is registered as resource or sub-site at its prefixes, at () or at the path itself -- "
        "the lookup returns exactly that resource and a copy of the request with an empty Uri-Path; (b) for every request path of "
        "length 0..4 (with empty components at the end / in the middle) that is not registered as a resource and every subset of its "
        "prefixes registered as sub-sites, the lookup returns the sub-site at the longest non-empty proper prefix with the remaining "
        "components (a remainder of [\"\"] is handed on as []), raises KeyError if there is none, terminates, and modifies neither the "
        "tables nor the request; (c) each routed entry point of Site (render, render_to_pipe, needs_blockwise_assembly, add_observation), evaluated "
        "on registered and unregistered paths, answers an unknown path with error.NotFound (code 4.04) / its documented default without "
        "touching a child, otherwise calls the corresponding method of the child found with the path-stripped copy and returns its result, "
        "and lets a KeyError raised inside the child pass unchanged; the lookup itself lets only KeyError escape (exception-escape "
        "analysis); further callers of the lookup (wrappers) are checked on their CFG; (d) "
"the two tables are written only by __init__, add_resource and remove_resource (alias-aware "
        "writer scan over the package); two fresh sites do not share registrations; along a sequence of add_resource/remove_resource "
        "calls every following lookup and listing agrees with a reference model of the registrations (a change is visible to the next "
        "request); a str path is rejected or registered, never dropped; removing an unknown path raises KeyError; lookup and listing "
        "read no per-site state other than the two tables; (e) the message handed to the child is a copy of the request in which only "
        "uri_path is replaced, and Message.get_request_uri evaluated on that copy -- after the exact-match arm, after the prefix arm, "
        "and after two levels of nested sites -- reconstructs the path of the original request, while a message that was never "
        "stripped yields its own Uri-Path; a request that names its path by Uri-Path-Abbrev, entering through Site.render_to_pipe, reaches the "
        "resource registered at the expanded path (directly or in a nested site) with an empty Uri-Path, and get_request_uri on what that "
        "resource receives yields the expanded path -- the invariant kept jointly by the expansion, Message.copy, the lookup's default for the "
        "inherited original path and get_request_uri's test for a stored one; (f) the listing names exactly the registered resources whose description is not None under "
        "'/' + '/'.join(path) with their description, the links of nested sites prefixed with the nested site's path, skips sub-sites "
        "without a listing, and reflects later changes in this site and in nested sites; (g) the RFC 6690 filter, evaluated on a link "
        "set and one filter item (possibly accompanied by items without '='), keeps exactly the links selected by the reference "
        "filter: trailing '*' is a prefix match, anything else equality, rt/if/ct per space-separated token, href on the single "
        "value, other attributes on any value, the item is split at its first '=', items without '=' are ignored; (h) a request that begins a fetch (no Block2 option, or Block2 block number 0) is rendered afresh "
        "by Block2Cache.extract_or_insert -- through which every resource.Resource, the listing included, is served -- and answered with (a block of) "
        "that rendering, whatever an earlier block-wise fetch of the same client left in the cache, so that the listing fetched block-wise after "
        "add_resource/remove_resource shows the change (sequences of requests of one client evaluated with the rendering changing in between); (i) a request whose body arrives in one or several Block1 blocks, entering through Site.render_to_pipe and served by the program's own Resource.render_to_pipe / Block1 assembly / Block2 handling, reaches the handler's render() as a message with the stripped Uri-Path from which get_request_uri yields the original request path (resource registered directly, one and two nested sites deep) -- the invariant kept jointly by the lookup, Message.copy, the block-wise assembly and get_request_uri; (j) shared with C01.e: option values pass the value codecs unchanged, a String option (Uri-Path) is the UTF-8 of exactly its value in both directions without normalisation, so that the lookup keys on the components the client sent.  Not decided: paths "
        "longer than 4 components, behaviour with more than one filter item carrying '=', arbitrary interleavings at run time."
    ),
    rule_text="small-scope model checking with the checker's own evaluator against reference semantics (a, b, d, e, f, g, h, i; j with C01's evaluator); field ownership over the package with alias-aware writer scan (d); CFG dominance/must-pass and exception-escape analysis of the callers (c)",
)

SITE = "resource.Site."
SITE_QN = "aiocoap.resource.Site"
PC_QN = "aiocoap.resource.PathCapable"
MSG_QN = "aiocoap.message.Message"
WKC_QN = "aiocoap.resource.WKCResource"
FIND = SITE + "_find_child_and_pathstripped_message"
TABLES = ("_resources", "_subsites")
HOST = "host.example"
QUERY = ("k=v",)  # Uri-Query of every request the rule makes: part of what a stripped copy must keep and of the reconstructed URI


# ---------------------------------------------------------------------------
# the world the analysed functions are evaluated in


class RegistrationFailed(AnalysisError):
    """a registration the rule needs for its configuration is rejected by add_resource (a fact about the analysed program, reported by C17.d)"""


REPEATED_OPTIONS = ("uri_path", "uri_query", "location_path", "location_query", "etags", "if_match")
CODE_QN = "aiocoap.numbers.codes.Code"
_MISSING = object()


class _OptionValues(dict):
    """values of a symbolic option set.  Reference model of options.Options (trusted base, transcribed from its item views): a
    repeatable option is set from any iterable and reads back as a tuple; every other option reads back as it was set."""

    def __setitem__(self, name, v):
        if name in REPEATED_OPTIONS and not isinstance(v, Opaque):
            if isinstance(v, Iter):
                v = tuple(v.it)
            elif isinstance(v, (list, tuple)):
                v = tuple(v)
        dict.__setitem__(self, name, v)


def same_value(a, b):
    if a is b:
        return True
    if isinstance(a, (Opaque, Obj)) or isinstance(b, (Opaque, Obj)):
        return False
    return type(a) is type(b) and a == b


class World:
    """Evaluator plus factories for the symbolic collaborators.  A request is a symbolic message: its option set is a
    symbolic object (reference model: _OptionValues), its remote, code and transport tuning are open objects.  Everything a
    message *does* is the analysed program's own code: `request.copy(...)` is message.Message.copy evaluated on the syntax
    tree -- it constructs the copy through the program's Message.__init__ (the new message is a closed object: it has the
    attributes the program gives it and no others) --, so that what a copy carries over (options, remote, direction, and any
    attribute a Site stored on the original) is what the program says, not what the rule assumes.  The only stand-ins are for
    the option container: `Options()` makes an empty symbolic option set and `copy.deepcopy` of a symbolic option set is a
    symbolic option set with the same values."""

    def __init__(self, ctx, stubs=None):
        self.ctx = ctx
        self.prog = ctx.prog
        self.counter = itertools.count(1)
        all_stubs = {"aiocoap.options.Options": Builtin("Options", lambda it, a, k: self.options("Options()#%d" % next(self.counter), {})),
                     "copy.deepcopy": Builtin("deepcopy", self._deepcopy)}
        all_stubs.update(stubs or {})
        self.it = Interp(ctx.prog, stubs=all_stubs)
        self.site_cls = ctx.prog.cls("resource.Site")
        for name in ("__init__", "add_resource", "remove_resource", "_find_child_and_pathstripped_message", "get_resources_as_linkheader"):
            ctx.need(ctx.prog.lookup_method(SITE_QN, name) is not None, "Site.%s missing" % name)
        for name in ("__init__", "copy", "get_request_uri"):
            ctx.need(ctx.prog.lookup_method(MSG_QN, name) is not None, "Message.%s missing" % name)

    # -- symbolic collaborators
    def resource(self, label, description="absent", path_capable=False, falsy=None):
        """a registered object: plain resource (optionally with get_link_description) or a foreign PathCapable object.
        `falsy`: the object is false in a boolean context -- "len": it is a collection that is empty at the moment (a
        queue, a directory, a Site subclass with __len__), "bool": it defines __bool__.  Registration, routing and listing
        are defined by the tables' keys; the truth value of what is registered plays no part in them."""
        o = Obj(cls=PC_QN if path_capable else None, label=label + (" (falsy: %s)" % falsy if falsy else ""))
        if falsy == "len":
            o.methods["__len__"] = Builtin("__len__", lambda it, a, k: 0)
        elif falsy == "bool":
            o.methods["__bool__"] = Builtin("__bool__", lambda it, a, k: False)
        if description != "absent":
            o.methods["get_link_description"] = Builtin("get_link_description", lambda it, a, k, d=description: (dict(d) if d is not None else None))
        return o

    def options(self, label, values):
        o = Obj(label=label, open_=True)
        o.attrs = _OptionValues()
        for name, v in values.items():
            o.attrs[name] = v
        o.is_options = True
        o.methods.update(getattr(self, "option_methods", {}))  # (a clause may extend the reference model of the option set; copies get the same methods)
        return o

    def _deepcopy(self, it, a, k):
        v = a[0] if a else None
        if isinstance(v, Obj) and getattr(v, "is_options", False):
            return self.options("copy%d of %s" % (next(self.counter), v.label), v.attrs)
        if isinstance(v, (type(None), bool, int, float, str, bytes)):
            return v
        raise AnalysisError("evaluator: copy.deepcopy of %r is outside the evaluator's vocabulary" % (v,))

    def request(self, path, orig="absent", label="request", abbrev=None, response=False, more_options=None):
        it = self.it
        opt = self.options(label + ".opt", dict({"uri_path": tuple(path), "proxy_uri": None, "proxy_scheme": None, "uri_query": QUERY,
                                                 "uri_path_abbrev": abbrev, "uri_host": None, "uri_port": None}, **(more_options or {})))
        remote = Obj(label=label + ".remote", open_=True, attrs={"scheme": "coap", "hostinfo": HOST, "hostinfo_local": HOST, "is_multicast": False, "is_multicast_locally": False})
        code = Obj(cls=CODE_QN if CODE_QN in self.prog.classes else None, label=label + ".code", open_=True,
                   methods={"is_response": Builtin("is_response", lambda it_, a, k: bool(response)), "is_request": Builtin("is_request", lambda it_, a, k: not response)})
        tuning = Obj(label=label + ".transport_tuning", open_=True)
        attrs = {"opt": opt, "remote": remote, "code": code, "payload": b"", "token": b"\x17", "mid": 4711, "mtype": None, "transport_tuning": tuning, "version": 1}
        try:
            attrs["direction"] = it.ev(ast.parse("Direction.INCOMING", mode="eval").body, Env(None, self.prog.module("message")))
        except (Raised, AnalysisError):
            pass
        msg = Obj(cls=MSG_QN, label=label, open_=True, attrs=attrs, private_absent=True)
        if orig != "absent":
            msg.attrs["_original_request_path"] = orig
        return msg

    def derived(self, msg, req, rem=_MISSING):
        """None if `msg` is a message of its own that differs from the request `req` in nothing but its Uri-Path (which is `rem`,
        if given) -- the same code, remote, token, message id, type, payload and direction, and an option set of its own with the
        same value for every other option; else what is wrong.  Compared by content, not by how the message was made."""
        if not (isinstance(msg, Obj) and msg.cls is not None and self.prog.is_subclass(msg.cls, MSG_QN)):
            return "the message handed on is not a message (%r)" % (msg,)
        if msg is req:
            return "the request itself is handed on (not a copy of it)"
        mopt = msg.attrs.get("opt")
        if not isinstance(mopt, Obj) or mopt is req.attrs["opt"]:
            return "the message handed on has no option set of its own (%r)" % (mopt,)
        for n in ("code", "remote", "token", "mid", "mtype", "payload", "direction"):
            if n in req.attrs and not same_value(msg.attrs.get(n, _MISSING), req.attrs[n]):
                return "the message handed on differs from the request in its %s (%r instead of %r)" % (n, msg.attrs.get(n), req.attrs[n])
        # (an option of the request that was only ever read -- an unknown value -- was never set: nothing to compare)
        changed = sorted(n for n, v in req.attrs["opt"].attrs.items() if n != "uri_path" and not isinstance(v, Opaque) and not same_value(mopt.attrs.get(n, _MISSING), v))
        if changed:
            return "options other than uri_path are replaced in the message handed on: %s" % ", ".join(changed)
        if rem is not _MISSING and mopt.attrs.get("uri_path") != tuple(rem):
            return "expected remaining Uri-Path %r, got %r" % (tuple(rem), mopt.attrs.get("uri_path"))
        return None

    # -- the program's own API
    def method(self, site, name):
        return self.it.getattr_(site, name)

    def new_site(self, label=None):
        # a closed object (what is not set by the program's own code is absent), except for a logger, which reads as an unknown value
        site = Obj(cls=SITE_QN, label=label or "site%d" % next(self.counter), open_names=("log", "logger", "_log", "_logger"))
        out = self.it.run(self.method(site, "__init__"), [])
        self.ctx.need(out[0] == "return", "Site() cannot be constructed in the evaluator: %s" % (out,))
        return site

    def add(self, site, path, res):
        return self.it.run(self.method(site, "add_resource"), [path, res])

    def remove(self, site, path):
        return self.it.run(self.method(site, "remove_resource"), [path])

    def lookup(self, site, request):
        return self.it.run(self.method(site, "_find_child_and_pathstripped_message"), [request])

    def listing(self, site):
        return self.it.run(self.method(site, "get_resources_as_linkheader"), [])

    def build(self, resources, subsites):
        """a site with the given registrations, made through Site() and add_resource"""
        site = self.new_site()
        for p, r in list(resources.items()) + list(subsites.items()):
            out = self.add(site, p, r)
            if out != ("return", None):
                raise RegistrationFailed("add_resource(%r, %r) %s" % (p, r, show_outcome(out)))
        return site

    def build_into(self, site, model, entries):
        for p, obj in entries:
            out = self.add(site, p, obj)
            if out != ("return", None):
                raise RegistrationFailed("add_resource(%r, %r) %s" % (p, obj, show_outcome(out)))
            model.table(obj)[tuple(p)] = obj


def show_outcome(out):
    kind, v = out
    if kind == "raise":
        return "raises %s" % (v.cls or "?").split(".")[-1]
    if kind == "diverged":
        return "does not terminate"
    return "returns %r" % (v,)


# ---------------------------------------------------------------------------
# reference semantics


def spec_lookup(resources, subsites, path):
    """('hit', child, remaining components) | ('miss',)"""
    path = tuple(path)
    if path in resources:
        return ("hit", resources[path], ())
    for i in range(len(path) - 1, 0, -1):
        if path[:i] in subsites:
            rem = path[i:]
            if rem == ("",):
                rem = ()
            return ("hit", subsites[path[:i]], rem)
    return ("miss",)


def check_lookup(world, site, resources, subsites, path, orig="absent"):
    """evaluate one lookup; -> (failures {family: text}, outcome, request)"""
    req = world.request(path, orig)
    before = snapshot(site)
    out = world.lookup(site, req)
    want = spec_lookup(resources, subsites, path)
    fails = {}
    if out[0] == "diverged":
        fails["terminates"] = "does not terminate"
        return fails, out, req
    if want[0] == "miss":
        if not (out[0] == "raise" and world.prog.is_subclass(out[1].cls or "?", "KeyError")):
            fails["miss"] = "expected KeyError, %s" % show_outcome(out)
    else:
        _, child, rem = want
        if out[0] != "return" or not (isinstance(out[1], (tuple, list)) and len(out[1]) == 2):
            fails["child"] = "expected (%r, message with Uri-Path %r), %s" % (child, rem, show_outcome(out))
        else:
            got_child, msg = out[1]
            if got_child is not child:
                fails["child"] = "expected child %r, got %r" % (child, got_child)
            why = world.derived(msg, req)
            if why:
                fails["copy"] = why
            else:
                got = msg.attrs["opt"].attrs.get("uri_path")
                if got != rem:
                    fails["remainder"] = "expected remaining Uri-Path %r, got %r" % (rem, got)
    if snapshot(site) != before:
        fails["pure"] = "the lookup modifies the site's registrations"
    if req.attrs["opt"].attrs.get("uri_path") != tuple(path) or ("_original_request_path" in req.attrs) != (orig != "absent") or req.attrs.get("_original_request_path", None) is not (orig if orig != "absent" else None):
        fails["pure"] = "the lookup modifies the incoming request"
    return fails, out, req


def snapshot(site):
    """registrations of a site as far as they are held in dict/list/set attributes (identity of the registered objects)"""
    out = []
    for k in sorted(site.attrs):
        v = site.attrs[k]
        if isinstance(v, dict):
            out.append((k, tuple((kk, id(vv)) for kk, vv in v.items())))
        elif isinstance(v, (list, set, tuple)):
            out.append((k, tuple(id(x) if isinstance(x, Obj) else repr(x) for x in v)))
    return tuple(out)


PATHS = [(), ("a",), ("",), ("a", "b"), ("a", ""), ("a", "b", "c"), ("a", "b", ""), ("a", "", "c"), ("a", "", ""), ("a", "b", "c", "d"), ("a", "b", "c", "")]


def prefixes(path):
    return [tuple(path[:i]) for i in range(len(path) + 1)]


def subsets(items):
    for n in range(len(items) + 1):
        for c in itertools.combinations(items, n):
            yield c


def describe(path, rkeys, skeys):
    return "request path %r, resources at %s, sub-sites at %s" % (tuple(path), sorted(rkeys) or "-", sorted(skeys) or "-")


def lookup_family(ctx, world, exact, falsy=False):
    """run the lookup over the configuration family; -> ({family: [failure text]}, number of evaluations).
    `falsy`: every registered object is false in a boolean context (paths up to three components)."""
    fails = {}
    n = 0
    for path in (PATHS if not falsy else [p for p in PATHS if len(p) <= 3]):
        pre = prefixes(path)
        if exact:
            rsets = [(path,)] + ([(path, pre[1])] if len(pre) > 2 else []) + ([(path, pre[-2])] if len(pre) > 3 else [])
        else:
            proper = [p for p in pre if p != path]
            rsets = [()] + ([(proper[0],)] if proper else []) + ([(proper[-1],)] if len(proper) > 1 else []) + ([tuple(proper)] if len(proper) > 2 else [])
        for rkeys in rsets:
            for skeys in subsets(pre):
                resources = {k: world.resource("resource@%s" % "/".join(k), falsy="len" if falsy else None) for k in rkeys}
                subsites = {k: world.resource("subsite@%s" % "/".join(k), path_capable=True, falsy=("bool" if len(k) % 2 else "len") if falsy else None) for k in skeys}
                site = world.build(resources, subsites)
                f, out, req = check_lookup(world, site, resources, subsites, path)
                n += 1
                for fam, text in f.items():
                    fails.setdefault(fam, []).append("%s: %s" % (describe(path, rkeys, skeys), text))
                if len(fails.get("terminates", ())) >= 3:
                    return fails, n  # every further configuration costs the full step budget
    return fails, n


_FAMILIES = {}
LOOKUP_FAMILIES = ("child", "remainder", "miss", "terminates", "pure")


def families(ctx):
    """The two lookup families, evaluated once per analysed program, and a diagnosis of who is to blame when they disagree with
    the reference semantics.  Registrations are made through add_resource and observed through the lookup, so a disagreement can
    come from either; the listing is a second, independent observer of the registrations: if it disagrees with the reference
    model as well (or add_resource fails outright), the registration is at fault and is reported by C17.d, otherwise the lookup
    (C17.a/b)."""
    key = id(ctx.prog)
    if key not in _FAMILIES:
        _FAMILIES.clear()
        world = World(ctx)
        res = {"prog": ctx.prog, "exact": ({}, 0), "prefix": ({}, 0), "exact_falsy": ({}, 0), "prefix_falsy": ({}, 0), "diagnosis": "ok", "why": None}
        try:
            res["exact"] = lookup_family(ctx, world, exact=True)
            res["prefix"] = lookup_family(ctx, world, exact=False)
        except RegistrationFailed as ex:
            res["diagnosis"], res["why"] = "registration", str(ex)
        if res["diagnosis"] == "ok" and any(f.get(k) for f in (res["exact"][0], res["prefix"][0]) for k in LOOKUP_FAMILIES):
            res["diagnosis"] = "lookup"
            try:
                inner, inner_model = world.new_site(), Model()
                leaf = world.resource("leaf", {})
                world.build_into(inner, inner_model, [(("x",), leaf)])
                site, model = world.new_site(), Model()
                foreign = world.resource("foreign PathCapable", path_capable=True)
                world.build_into(site, model, [(("a",), world.resource("a", {"rt": "x"})), (("b", "c"), world.resource("bc")), (("s",), inner), (("t",), foreign)])
                ref_inner = spec_listing(inner_model, {id(leaf): {}}, {})
                msg = compare_listing(world, site, model, {id(inner): ref_inner, id(foreign): None}) or compare_listing(world, world.new_site(), Model())
            except RegistrationFailed as ex:
                msg = str(ex)
            if msg:
                res["diagnosis"], res["why"] = "registration", msg
        if res["diagnosis"] == "ok":
            # the same families over registered objects that are false in a boolean context: evaluated only when the lookup agrees
            # with the reference on ordinary objects, so that a disagreement here is about the objects' truth value alone
            try:
                res["exact_falsy"] = lookup_family(ctx, world, exact=True, falsy=True)
                res["prefix_falsy"] = lookup_family(ctx, world, exact=False, falsy=True)
            except RegistrationFailed as ex:
                res["falsy_registration"] = str(ex)
        _FAMILIES[key] = res
    return _FAMILIES[key]


def registration_refuted(ctx, what):
    fam = families(ctx)
    if fam["diagnosis"] == "registration":
        ctx.note("%s not evaluated: registrations made through Site()/add_resource are seen consistently neither by the lookup nor by the listing (reported by C17.d): %s" % (what, fam["why"]))
        return True
    return False


def lookup_refuted(ctx, what):
    """Clauses c, d, e observe registrations through the lookup; when the lookup (C17.a/b) or the registration (C17.d) is already
    refuted, what they would observe says nothing about the functions they are about."""
    fam = families(ctx)
    if fam["diagnosis"] == "lookup":
        ctx.note("%s not evaluated: the lookup itself disagrees with the reference semantics (reported by C17.a / C17.b)" % what)
        return True
    return registration_refuted(ctx, what)


def report(ctx, fi, fails, n, families, desc, construct):
    bad = [t for fam in families for t in fails.get(fam, [])]
    ctx.ob(desc, not bad, fi, fi.node, construct=construct,
           detail=("%d of the evaluated configurations disagree with the reference semantics, e.g. %s" % (len(bad), bad[0])) if bad else "%d configurations evaluated" % n)


# ---------------------------------------------------------------------------
# C17.a


@R.clause("C17.a", "a request path registered as a resource is answered by exactly that resource, before and regardless of any sub-site prefix")
def a(ctx):
    fi = ctx.prog.func(FIND)
    if registration_refuted(ctx, "the exact-match lookups"):
        return
    fails, n = families(ctx)["exact"]
    report(ctx, fi, fails, n, ("child", "miss", "terminates"),
           "a request whose path is registered in _resources is answered by the resource registered under exactly that path -- also for the empty path, and whatever is registered as sub-site at its prefixes (the exact match is tried for every request and wins over the prefix search)",
           "lookup: exact match")
    report(ctx, fi, fails, n, ("remainder",), "on an exact match the resource receives the request with an empty Uri-Path", "lookup: exact match leaves no path")
    report(ctx, fi, fails, n, ("pure",), "an exact match modifies neither the registrations nor the incoming request", "lookup: exact match has no side effects")
    if families(ctx)["diagnosis"] == "ok" and "falsy_registration" not in families(ctx):
        fails, n = families(ctx)["exact_falsy"]
        report(ctx, fi, fails, n, LOOKUP_FAMILIES,
               "a registered resource is found by its key alone: one that is false in a boolean context (an empty collection, __bool__/__len__) is returned like any other -- "
               "presence in the table is decided by membership, never by the truth value of what is registered", "lookup: exact match whatever the resource's truth value")


# ---------------------------------------------------------------------------
# C17.b


@R.clause("C17.b", "longest non-empty proper prefix first: the sub-site registered there gets the remaining components; [\"\"] -> []; no registered prefix raises KeyError")
def b(ctx):
    fi = ctx.prog.func(FIND)
    ctx.need(is_plain_sync(fi), "the lookup is not a plain synchronous function")
    if registration_refuted(ctx, "the prefix lookups"):
        return
    fails, n = families(ctx)["prefix"]
    trailing = [t for t in fails.get("remainder", []) if "expected remaining Uri-Path ()" in t]
    other = [t for t in fails.get("remainder", []) if "expected remaining Uri-Path ()" not in t]
    report(ctx, fi, fails, n, ("child",),
           "a request whose path is not registered as a resource is handed to the sub-site registered at the longest non-empty proper prefix of the path (longest first, none skipped, the first hit ends the search)",
           "lookup: longest prefix wins")
    report(ctx, fi, {"remainder": other}, n, ("remainder",),
           "the sub-site receives exactly the components after the matched prefix (prefix + remainder == request path)", "lookup: remainder")
    report(ctx, fi, {"remainder": trailing}, n, ("remainder",),
           "a remainder of [\"\"] (request for <prefix>/) is handed to the sub-site as [] so that it reaches the sub-site's root resource, and only a complete remainder is normalised", "lookup: trailing slash")
    report(ctx, fi, fails, n, ("miss",),
           "when no non-empty proper prefix is a registered sub-site (also: empty and one-component paths, sub-sites registered at () or at the full path) the lookup raises KeyError", "lookup: exhaustion")
    report(ctx, fi, fails, n, ("terminates",), "the prefix search terminates", "lookup: termination")
    report(ctx, fi, fails, n, ("pure",), "the lookup modifies neither the registrations nor the incoming request", "lookup: no side effects")
    if families(ctx)["diagnosis"] == "ok" and "falsy_registration" not in families(ctx):
        fails, n = families(ctx)["prefix_falsy"]
        report(ctx, fi, fails, n, LOOKUP_FAMILIES,
               "a registered sub-site is found by its key alone: one that is false in a boolean context (a Site subclass with __len__ and no members, __bool__) still is the longest "
               "registered prefix and is neither skipped in favour of a shorter prefix nor answered 4.04", "lookup: longest prefix whatever the sub-site's truth value")


# ---------------------------------------------------------------------------
# C17.c

# entry points of Site that route a request: (arguments after the request/pipe, what "no such resource" must give, child method delegated to)
ENTRY_POINTS = {
    "render": ((), ("raise", "aiocoap.error.NotFound"), "render"),
    "render_to_pipe": ((), ("raise", "aiocoap.error.NotFound"), "render_to_pipe"),
    "needs_blockwise_assembly": ((), ("return", True), "needs_blockwise_assembly"),
    "add_observation": (("serverobservation",), ("return", None), "add_observation"),
}


def static_caller_check(ctx, EA, ffi, fi, call):
    """a caller of the lookup that is not one of the four routed entry points (e.g. a helper wrapping the lookup):
    its handler maps the KeyError to NotFound or returns, and covers nothing but the lookup"""
    cfg = cfg_of(fi)
    cn = cfg.loc1(call)
    handlers = [(d_, cfg.nodes[d_].ast) for d_, lab in cfg.succ[cn] if lab == "exc" and cfg.nodes[d_].kind == "handler"]
    catching = []
    for d_, h in handlers:
        types = [] if h.type is None else (h.type.elts if isinstance(h.type, ast.Tuple) else [h.type])
        qs = [ctx.prog.resolve_in_module(fi.module, chain(t) or "?") for t in types]
        if h.type is None or any(ctx.prog.is_subclass("KeyError", q) for q in qs):
            catching.append((d_, h))
            break  # first matching handler takes it
    if not catching:
        # the KeyError is passed on: the callers of this function are examined in its place
        return False
    d_, h = catching[0]
    exits_normally = cfg.exit in cfg.reach({d_}, include_src=True)
    rs = raises_from(cfg, d_)
    classes = sorted({raised_class(ctx.prog, fi, r) or "?" for r in rs})
    if rs:
        all_nf = all(c_ != "?" and ctx.prog.is_subclass(c_, "aiocoap.error.NotFound") for c_ in classes)
        ctx.ob("a request for an unknown path is answered with 4.04 (NotFound raised on every path of the handler)", all_nf and not exits_normally, fi, h,
               detail="handler raises %s%s" % (classes, ", can also complete normally" if exits_normally else ""), construct="except KeyError in %s" % fi.short)
    covered = [n for n in cfg.nodes if n.kind in ("stmt", "return", "test", "for", "with") and (d_, "exc") in cfg.succ[n.id] and n.id != cn
               and not (isinstance(n.ast, ast.Expr) and isinstance(n.ast.value, ast.Call) and is_log_call(n.ast.value))]
    ctx.ob("the handler covers only the lookup (a KeyError raised inside the child is not mistaken for an unknown path)", not covered, fi, h,
           detail="; ".join(stmt_text(n.ast, 60) for n in covered), construct="try body in %s" % fi.short)
    return True


@R.clause("C17.c", "every entry point of Site maps the lookup's KeyError to 4.04 / the documented default and otherwise delegates to the child found, with the stripped request")
def c(ctx):
    ffi = ctx.prog.func(FIND)
    nf = ctx.prog.cls("error.NotFound")
    code, _ = ctx.prog.class_attr(nf.qn, "code")
    ctx.ob("error.NotFound renders as 4.04 Not Found", code is not None and (chain(code) or "").split(".")[-1] == "NOT_FOUND", None, None, construct="error.NotFound.code",
           detail="code = %s" % (stmt_text(code) if code is not None else None))
    EA = EscapeAnalysis(ctx.prog)
    lookup_escapes = EA.escapes(ffi)
    bad = [e_ for e_ in lookup_escapes if not ctx.prog.is_subclass(e_.cls, "KeyError")]
    ctx.ob("the lookup itself signals 'no such child' by KeyError and raises nothing else", not bad and bool(lookup_escapes), ffi, ffi.node, construct="escape(_find_child_and_pathstripped_message)",
           detail="; ".join(repr(e_) for e_ in bad))
    # --- the routed entry points, evaluated
    world = World(ctx)
    it = world.it
    for name, (extra, default, child_method) in ([] if lookup_refuted(ctx, "the entry points of Site") else sorted(ENTRY_POINTS.items())):
        fi = ctx.prog.func(SITE + name)
        ctx.need(len(params(fi)) == 1 + len(extra), "Site.%s signature changed" % name)
        unknown, delegation, foreign = [], [], []
        for path, registered_at, as_subsite, falsy in ((("a", "b"), ("a", "b"), False, None), ((), (), False, None), (("a", "b", "c"), ("a",), True, None), (("a", ""), ("a",), True, None), (("zz",), None, False, None),
                                                        ((), None, False, None), (("a", "b"), ("a",), False, None), (("a", "b"), ("a", "b"), False, "len"), (("a", "b", "c"), ("a",), True, "bool")):
            for child_fails in (False, True):
                calls = []
                marker = Obj(label="<result of the child's %s>" % child_method)

                def child_call(it_, a, k, _m=None):
                    calls.append((_m, list(a), dict(k), [x.attrs.get("request") if isinstance(x, Obj) else None for x in a]))

                    def later():
                        if child_fails:
                            it_.throw("KeyError", "raised inside the child")
                        return marker
                    return Awaitable(later)

                child = world.resource("child", path_capable=as_subsite, falsy=falsy)  # falsy: a child that is false in a boolean context is delegated to like any other
                for m in ("render", "render_to_pipe", "needs_blockwise_assembly", "add_observation"):
                    child.methods[m] = Builtin(m, lambda it_, a, k, _m=m: child_call(it_, a, k, _m))
                site = world.build({} if (as_subsite or registered_at is None) else {registered_at: child}, {registered_at: child} if as_subsite else {})
                req = world.request(path)
                pipe = Obj(label="pipe", open_=True, attrs={"request": req})
                args = [pipe if name == "render_to_pipe" else req] + [Obj(label=x, open_=True) for x in extra]
                out = it.run(world.method(site, name), args)
                want = spec_lookup({registered_at: child} if registered_at is not None and not as_subsite else {}, {registered_at: child} if as_subsite else {}, path)
                where = "%s(request for %r) with a %s registered at %r" % (name, path, "sub-site" if as_subsite else "resource", registered_at) if registered_at is not None else "%s(request for %r) on an empty site" % (name, path)
                if want[0] == "miss":
                    if child_fails:
                        continue
                    if default[0] == "raise":
                        ok = out[0] == "raise" and ctx.prog.is_subclass(out[1].cls or "?", default[1])
                    else:
                        ok = out[0] == "return" and out[1] is default[1]
                    if not ok or calls:
                        unknown.append("%s %s%s" % (where, show_outcome(out), "; a child was called" if calls else ""))
                    continue
                if child_fails:
                    if not (out[0] == "raise" and out[1].cls == "KeyError" and calls):
                        foreign.append("%s, the child raising KeyError: %s" % (where, show_outcome(out)))
                    continue
                rem = want[2]
                okc = len(calls) == 1 and calls[0][0] == child_method
                if okc:
                    m_, a_, k_, reqs = calls[0]
                    msg = reqs[0] if name == "render_to_pipe" else (a_[0] if a_ else None)
                    okc = world.derived(msg, req, rem) is None
                    if name == "render_to_pipe":
                        okc = okc and a_ and a_[0] is pipe
                    if extra:
                        okc = okc and len(a_) == 1 + len(extra) and all(x is y for x, y in zip(a_[1:], args[1:]))
                if name != "add_observation":
                    okc = okc and out == ("return", marker)
                else:
                    okc = okc and out[0] == "return"
                if not okc:
                    delegation.append("%s: %s; calls on the child: %s" % (where, show_outcome(out), [(c_[0], c_[1]) for c_ in calls]))
        ctx.ob("Site.%s answers a request for an unknown path with %s, without touching any child" % (name, "4.04 (error.NotFound)" if default[0] == "raise" else "its documented default (%r)" % (default[1],)),
               not unknown, fi, fi.node, construct="unknown path in %s" % fi.short, detail=unknown[0] if unknown else None)
        ctx.ob("Site.%s hands the request to the child found by the lookup -- child.%s with the path-stripped copy -- and returns what the child returns" % (name, child_method),
               not delegation, fi, fi.node, construct="delegation in %s" % fi.short, detail=delegation[0] if delegation else None)
        ctx.ob("a KeyError raised inside the child is not mistaken for an unknown path in Site.%s (only the lookup's KeyError is mapped)" % name,
               not foreign, fi, fi.node, construct="child's KeyError in %s" % fi.short, detail=foreign[0] if foreign else None)
    # --- any other caller of the lookup (a helper wrapping it, ...): the lookup's name is unique in the package, wrappers are
    # followed through `self.<wrapper>(...)` calls inside Site only
    entry_shorts = {SITE + n for n in ENTRY_POINTS}
    todo = [ffi]
    seen = set()
    while todo:
        target = todo.pop()
        if target.qn in seen:
            continue
        seen.add(target.qn)
        for fi in ctx.prog.funcs.values():
            if fi.short in entry_shorts or fi is target:
                continue
            in_site = fi.cls is not None and fi.cls.qn == SITE_QN
            if target is not ffi and not in_site:
                continue
            for n in walk_no_nested(fi.node):
                if isinstance(n, ast.Call) and isinstance(n.func, ast.Attribute) and n.func.attr == target.name and (target is ffi or chain(n.func.value) == "self"):
                    if not static_caller_check(ctx, EA, ffi, fi, n) and in_site:
                        todo.append(fi)


# ---------------------------------------------------------------------------
# C17.d

WRITERS = {"resource.Site.__init__", "resource.Site.add_resource", "resource.Site.remove_resource"}


def owner_ok(prog, f, seen):
    """Is `f` one of the three owners of the tables, or a helper of theirs that the helper expansion could not dissolve (a
    function nested in an owner, or a method of Site that does not exist on the confirmed tree and is called -- as
    `self.<name>(...)` -- from acceptable functions only)?  Such a helper writes the table on behalf of its owner."""
    from ..inline import baseline
    if f.short in WRITERS:
        return True
    if f.qn in seen:
        return False
    seen = seen | {f.qn}
    if f.parent is not None:
        return owner_ok(prog, f.parent, seen)
    if f.cls is None or f.cls.qn != SITE_QN or f.qn.split("#")[0] in baseline():
        return False
    callers = []
    for g in prog.funcs.values():
        for n in ast.walk(g.node) if g.parent is None else ():
            if isinstance(n, ast.Attribute) and n.attr == f.name and g is not f:
                callers.append(g)
    return bool(callers) and all(owner_ok(prog, g, seen) for g in callers)


class Model:
    """reference model of a site's registrations"""

    def __init__(self):
        self.resources = {}
        self.subsites = {}

    def table(self, obj):
        return self.subsites if obj.cls is not None and obj.cls in (PC_QN, SITE_QN) else self.resources


def probe_paths(model):
    """registered paths, their extensions and shortenings, and a few unrelated ones"""
    keys = list(model.resources) + list(model.subsites)
    out = [(), ("zz",)]
    for k in keys:
        out.extend([k, k + ("x",), k + ("",), k + ("x", "y"), k[:-1]])
    seen = []
    for p in out:
        if p not in seen:
            seen.append(p)
    return seen


def compare_lookups(world, site, model):
    for p in probe_paths(model):
        f, out, req = check_lookup(world, site, model.resources, model.subsites, p)
        f = {k: v for k, v in f.items() if k in ("child", "remainder", "miss", "terminates")}  # which child, with which path
        if f:
            return "request path %r with resources at %s and sub-sites at %s: %s" % (p, sorted(model.resources) or "-", sorted(model.subsites) or "-", "; ".join(f.values()))
    return None


def d_histories(ctx, add, rem, init):
    world = World(ctx)
    # --- fresh sites
    s1, s2 = world.new_site(), world.new_site()
    r = world.resource("resource")
    sub = world.resource("subsite", path_capable=True)
    m1, m2 = Model(), Model()
    bad = compare_lookups(world, s1, m1)
    out1 = world.add(s1, ("a",), r)
    out2 = world.add(s1, ["b"], sub)
    m1.resources[("a",)] = r
    m1.subsites[("b",)] = sub
    bad = bad or (None if out1 == ("return", None) and out2 == ("return", None) else "add_resource %s / %s" % (show_outcome(out1), show_outcome(out2)))
    bad = bad or compare_lookups(world, s2, m2)
    for p in (("a",), ("b", "x")):
        f, out, req = check_lookup(world, s2, {}, {}, p)
        bad = bad or ("; ".join(v for k, v in f.items() if k in ("miss", "terminates")) or None)
    ctx.ob("a new Site starts with empty tables of its own (registrations in one site are not visible in another)", not bad, init, init.node, construct="Site(): own empty tables", detail=bad)
    # --- a history of registrations and removals: every following request sees the current registrations
    site = world.new_site()
    model = Model()
    objs = {
        # r3 / s3: objects that are false in a boolean context (empty collections) are registered, found and removed like any other
        "r1": world.resource("r1", {"rt": "one"}), "r2": world.resource("r2"), "r3": world.resource("r3", {}, falsy="len"), "root": world.resource("root", {"ct": "40"}),
        "s1": world.resource("s1", path_capable=True), "s2": world.resource("s2", path_capable=True), "s3": world.resource("s3", path_capable=True, falsy="bool"),
    }
    history = [
        ("add", ["a"], "r1"), ("add", ("a", "b"), "s1"), ("add", [], "root"), ("add", ("a", "b", "c"), "r2"), ("add", ["a", "b", "c"], "s2"),
        ("remove", ("a", "b"), None), ("add", ("a",), "s3"), ("remove", ["a", "b", "c"], None), ("add", ("a", "b", ""), "r3"), ("remove", [], None),
        ("remove", ["a", "b", "c"], None), ("add", ["a"], "r2"), ("remove", ("a",), None), ("remove", ("a",), None), ("remove", ("a", "b", ""), None),
    ]
    bad_add = bad_rem = bad_seq = None
    for i, (op, path, name) in enumerate(history):
        key = tuple(path)
        where = "step %d: %s(%r%s)" % (i + 1, "add_resource" if op == "add" else "remove_resource", path, ", %s" % name if name else "")
        if op == "add":
            out = world.add(site, path, objs[name])
            if out != ("return", None):
                bad_add = bad_add or "%s %s" % (where, show_outcome(out))
                break
            model.table(objs[name])[key] = objs[name]
            msg = compare_lookups(world, site, model)
            if msg:
                bad_add = bad_add or "after %s: %s" % (where, msg)
                break
        else:
            cands = [t for t in (model.subsites, model.resources) if key in t]
            out = world.remove(site, path)
            if out != ("return", None):
                bad_rem = bad_rem or "%s %s" % (where, show_outcome(out))
                break
            ok = False
            for t in cands:  # registered both as resource and as sub-site: either one may go
                saved = t.pop(key)
                if compare_lookups(world, site, model) is None:
                    ok = True
                    break
                t[key] = saved
            if not ok:
                if cands:
                    cands[0].pop(key)
                bad_rem = bad_rem or "after %s: %s" % (where, compare_lookups(world, site, model) or "no entry was removed")
                break
        # the listing is a function of the current registrations: the same as on a site on which just these were registered afresh
        fresh = world.new_site()
        world.build_into(fresh, Model(), list(model.resources.items()) + list(model.subsites.items()))
        l1, l2 = listed(world, site), listed(world, fresh)
        if l1 != l2:
            bad_seq = bad_seq or "after %s: the listing gives %s, a site with the same registrations made afresh gives %s" % (where, l1, l2)
            break
    ctx.ob("add_resource files a PathCapable object as sub-site and anything else as resource under tuple(path), and the registration is seen by the next request", not bad_add, add, add.node,
           construct="add_resource takes effect", detail=bad_add or "%d-step history evaluated" % len(history))
    ctx.ob("remove_resource removes the entry registered under tuple(path) from one of the two tables, and the removal is seen by the next request", not bad_rem, rem, rem.node,
           construct="remove_resource takes effect", detail=bad_rem)
    ctx.ob("the listing follows every registration and removal", not bad_seq, ctx.prog.func(SITE + "get_resources_as_linkheader"), None, construct="listing follows add/remove", detail=bad_seq)
    if families(ctx)["diagnosis"] == "registration" and (bad or bad_add or bad_rem):
        return  # what follows observes further registrations, which are already refuted
    # --- rejected inputs
    site = world.new_site()
    out = world.add(site, "ab", r)
    silent = None
    if out[0] == "return":
        f, o2, _ = check_lookup(world, site, {("a", "b"): r}, {}, ("a", "b"))
        silent = "add_resource('ab', r) returns, but r is not found under ('a', 'b')" if "child" in f else None
    elif out[0] == "diverged":
        silent = "add_resource('ab', r) does not terminate"
    ctx.ob("add_resource never silently drops a registration (a str path is rejected with an exception or registered)", not silent, add, add.node, construct="add_resource: str path", detail=silent or show_outcome(out))
    site = world.build({("a",): r}, {("b",): sub})
    out = world.remove(site, ("nope",))
    okm = out[0] == "raise" and ctx.prog.is_subclass(out[1].cls or "?", "KeyError")
    m = Model()
    m.resources[("a",)] = r
    m.subsites[("b",)] = sub
    still = compare_lookups(world, site, m)
    ctx.ob("remove_resource of a path that is not registered raises KeyError and removes nothing", okm and not still, rem, rem.node, construct="remove_resource: unknown path", detail=still or show_outcome(out))


@R.clause("C17.d", "_resources/_subsites are written only by __init__/add_resource/remove_resource; registration and removal take effect for the next request; lookup and listing read only the live tables")
def d(ctx):
    site_ci = ctx.prog.cls("resource.Site")
    pc = ctx.prog.cls("resource.PathCapable")
    # --- ownership
    tw = table_writers(ctx.prog, TABLES)
    for t in TABLES:
        ws = tw[t]
        ctx.floor("functions writing %s" % t, len(ws), 2)
        for fn, hits in sorted(ws.items()):
            f = ctx.prog.func(fn)
            ctx.ob("%s is written only by Site.__init__, add_resource and remove_resource" % t, owner_ok(ctx.prog, f, set()), f, hits[0][1])
    ctx.ob("Site itself is PathCapable (nested sites are routed by prefix)", ctx.prog.is_subclass(site_ci.qn, pc.qn), None, None, construct="class Site(PathCapable)")
    add = ctx.prog.func(SITE + "add_resource")
    rem = ctx.prog.func(SITE + "remove_resource")
    init = ctx.prog.func(SITE + "__init__")
    ctx.need(len(params(add)) == 2 and len(params(rem)) == 1, "add_resource/remove_resource signature changed")
    ctx.need(is_plain_sync(add) and is_plain_sync(rem), "add_resource/remove_resource are not plain synchronous functions")
    if families(ctx)["diagnosis"] != "lookup":
        d_histories(ctx, add, rem, init)
    else:
        lookup_refuted(ctx, "the registration histories")
    # --- lookup and listing read the live tables, no other per-site state
    written = instance_written_attrs(ctx.prog)
    for name in ("_find_child_and_pathstripped_message", "get_resources_as_linkheader"):
        f = ctx.prog.func(SITE + name)
        reads = self_state_reads(ctx.prog, f, SITE_QN)
        for attr, node in sorted(reads.items()):
            if attr in TABLES or attr in ("log", "logger", "_log", "<computed>") or (attr.startswith("__") and attr.endswith("__")):
                continue
            cexpr, _ci = ctx.prog.class_attr(SITE_QN, attr)
            if cexpr is not None and attr not in written:
                continue  # a class-level constant
            # another per-site container: acceptable only if both add_resource and remove_resource maintain it
            ws = field_writers(ctx.prog, attr, modules={"aiocoap.resource"})
            if set(ws) == {SITE + "__init__"} and all(k == "assign" and isinstance(n_, ast.Assign) and isinstance(n_.value, ast.Constant) for k, n_ in ws[SITE + "__init__"]):
                continue  # a per-instance constant set once by the constructor
            maintained = {SITE + "add_resource", SITE + "remove_resource"} <= set(ws)
            ctx.ob("Site.%s reads no per-site state besides the two live tables (a change by add_resource/remove_resource is visible to the next request)" % name, maintained, f, node,
                   detail="reads self.%s, written by %s" % (attr, sorted(ws)), construct="Site.%s reads self.%s" % (name, attr))
        ctx.ob("Site.%s reads the live tables" % name, any(t in reads for t in TABLES), f, f.node, construct="Site.%s table reads" % name)


# ---------------------------------------------------------------------------
# C17.e


def reconstructed_path(world, msg):
    """URI of a message as composed by Message.get_request_uri in the evaluator -> (path text | None, diagnostic)"""
    g = world.it.getattr_(msg, "get_request_uri")
    out = world.it.run(g, [])
    if out[0] != "return":
        return None, "get_request_uri %s" % show_outcome(out)
    uri = out[1]
    if isinstance(uri, Opaque) or not isinstance(uri, str):
        raise AnalysisError("%s: get_request_uri composes its result from parts the evaluator does not know (%r)" % (world.ctx.clause, uri))
    prefix = "coap://" + HOST
    if not uri.startswith(prefix):
        return None, "get_request_uri returns %r" % uri
    path, _sep, query = uri[len(prefix):].partition("?")
    if query != "&".join(QUERY):
        return None, "get_request_uri returns %r (the request's query %r is not in it)" % (uri, "&".join(QUERY))
    return path, uri


def _urlun(fn):
    def stub(it, a, k):
        parts = tuple(it.iterate(a[0]))
        if any(isinstance(p, Opaque) for p in parts):
            return Opaque("URI")
        if not all(p is None or isinstance(p, str) for p in parts):
            it.throw("TypeError", "URI components must be str")
        return it._py(fn, parts)
    return stub


URI_STUBS = {
    # pure standard-library functions, applied by the checker to the concrete components the analysed code hands over
    "urllib.parse.urlunparse": Builtin("urlunparse", _urlun(urllib.parse.urlunparse)),
    "urllib.parse.urlunsplit": Builtin("urlunsplit", _urlun(urllib.parse.urlunsplit)),
}


def uri_path_of(components):
    return "".join("/" + c for c in components) or "/"


@R.clause("C17.e", "the child receives a copy of the request in which only uri_path is replaced, and get_request_uri on that copy (also through nested sites) reconstructs the original request path")
def e(ctx):
    fi = ctx.prog.func(FIND)
    gfi = ctx.prog.func("message.Message.get_request_uri")
    world = World(ctx, stubs=URI_STUBS)
    r = world.resource("resource")
    sub = world.resource("subsite", path_capable=True)
    # --- a message that was never stripped
    plain = []
    for p in ((), ("p",), ("p", "q")):
        got, diag = reconstructed_path(world, world.request(p))
        if got != uri_path_of(p):
            plain.append("Uri-Path %r: %s" % (p, diag))
    ctx.ob("get_request_uri of a message that was not stripped composes the path from its own Uri-Path options", not plain, gfi, gfi.node, construct="get_request_uri: plain message", detail=plain[0] if plain else None)
    if lookup_refuted(ctx, "the original request path of stripped messages"):
        return
    # --- single level: both arms, with and without an inherited original path
    copies, uris, reader = [], [], []
    n = 0
    for path, resources, subsites in (
        (("a", "b"), {("a", "b"): r}, {}), ((), {(): r}, {}), (("a", "b", "c"), {}, {("a",): sub}), (("a", "b", "c"), {}, {("a", "b"): sub, ("a",): sub}),
        (("a", ""), {}, {("a",): sub}), (("a", "b"), {("a", "b"): r}, {("a",): sub}),
    ):
        for orig in ("absent", ("outer", "site") + path):
            site = world.build(resources, subsites)
            f, out, req = check_lookup(world, site, resources, subsites, path, orig)
            n += 1
            where = describe(path, resources, subsites) + (", request already carries the original path %r" % (orig,) if orig != "absent" else "")
            if "copy" in f or "pure" in f:
                copies.append("%s: %s" % (where, f.get("copy") or f.get("pure")))
            if out[0] != "return" or not (isinstance(out[1], (tuple, list)) and len(out[1]) == 2 and isinstance(out[1][1], Obj)):
                uris.append("%s: %s" % (where, show_outcome(out)))
                continue
            want_t = tuple(path if orig == "absent" else orig)
            want = uri_path_of(want_t)
            got, diag = reconstructed_path(world, out[1][1])
            if got != want:
                stored = [k for k, v in out[1][1].attrs.items() if k not in ("opt", "remote", "code", "direction") and isinstance(v, (tuple, list)) and tuple(v) == want_t]
                (reader if stored else uris).append("%s: the stripped message %sreports %s instead of the path %r" % (where, ("carries the original path as %s but " % stored[0]) if stored else "", diag, want))
    ctx.ob("the message handed to the child is a copy of the request in which only uri_path is replaced (the caller's message is not modified)", not copies, fi, fi.node,
           construct="lookup: stripped copy", detail=copies[0] if copies else "%d configurations evaluated" % n)
    ctx.ob("after stripping (exact-match arm and prefix arm) the original request path -- the request's own stored original if present (nested sites), else its full Uri-Path -- is stored on the copy, "
           "so that get_request_uri on the copy still yields it", not uris, fi, fi.node, construct="original request path: one level", detail=uris[0] if uris else "%d configurations evaluated" % n)
    ctx.ob("get_request_uri prefers the original request path stored by the Site over the (stripped) Uri-Path options (same attribute on writer and reader)", not reader, gfi, gfi.node,
           construct="get_request_uri: stored original path", detail=reader[0] if reader else None)
    # --- two levels of nested sites
    nested = []
    for tail, inner_res, inner_sub in ((("x",), True, False), (("x", "y"), True, False), (("",), True, False), (("x", "y"), False, True)):
        inner = world.new_site("inner")
        leaf = world.resource("leaf")
        leafsite = world.resource("leafsite", path_capable=True)
        if inner_res:
            key = () if tail == ("",) else tail
            world.build_into(inner, Model(), [(key, leaf)])
        if inner_sub:
            world.build_into(inner, Model(), [(tail[:1], leafsite)])
        outer = world.build({}, {("s", "t"): inner})
        full = ("s", "t") + tail
        req = world.request(full)
        o1 = world.lookup(outer, req)
        where = "request path %r through a site nested at ('s', 't')" % (full,)
        if o1[0] != "return" or o1[1][0] is not inner:
            nested.append("%s: outer lookup %s" % (where, show_outcome(o1)))
            continue
        o2 = world.lookup(inner, o1[1][1])
        if o2[0] != "return" or o2[1][0] is not (leaf if inner_res else leafsite):
            nested.append("%s: inner lookup %s" % (where, show_outcome(o2)))
            continue
        got, diag = reconstructed_path(world, o2[1][1])
        if got != uri_path_of(full):
            nested.append("%s: the twice-stripped message reports %s" % (where, diag))
    ctx.ob("through nested sites the original request path survives every stripping step (an inner site keeps the outer site's stored original)", not nested, fi, fi.node,
           construct="original request path: nested sites", detail=nested[0] if nested else None)
    e_abbreviated(ctx, world)


def abbreviation_registry(ctx, world):
    """{number: path components} -- the package's registry of Uri-Path-Abbrev values: the module-level dictionary constant(s) of
    numbers.uri_path_abbrev that map integers to tuples of text (whatever they are called), read by the checker's evaluator"""
    mod = ctx.prog.module("numbers.uri_path_abbrev")
    out = {}
    for st in mod.tree.body:
        names = [t.id for t in (st.targets if isinstance(st, ast.Assign) else [st.target] if isinstance(st, ast.AnnAssign) and st.value is not None else []) if isinstance(t, ast.Name)]
        for name in names:
            v = world.it.module_const(mod, name)
            if isinstance(v, dict):
                for k, p in v.items():
                    if isinstance(k, int) and not isinstance(k, bool) and isinstance(p, (tuple, list)) and p and all(isinstance(c_, str) for c_ in p):
                        out[k] = tuple(p)
    return out


def e_abbreviated(ctx, world):
    """The entry point Site.render_to_pipe accepts a request that names its path by a Uri-Path-Abbrev option and expands it before
    routing.  Three places keep one invariant -- "the message the lookup receives either carries the original request path as the
    Site stored it, or carries no stored path at all and its own Uri-Path is the request path": the expansion (which message it
    hands on: the request rewritten in place, or a copy), Message.copy (which attributes a copy carries over) and the two readers
    (the lookup's default for the inherited original, get_request_uri's test for a stored one).  Each may change as long as the
    chain holds; it is decided end to end, through the program's own render_to_pipe, expansion, copy(), lookup and
    get_request_uri: the resource registered at the expanded path (directly, or inside a nested site) is the one that renders,
    sees an empty Uri-Path, and reconstructs the URI of the expanded path."""
    rfi = ctx.prog.func(SITE + "render_to_pipe")
    gfi = ctx.prog.func("message.Message.get_request_uri")
    registry = abbreviation_registry(ctx, world)
    ctx.need(bool(registry), "no registry of Uri-Path-Abbrev values (integer -> path components) found in numbers.uri_path_abbrev")
    chosen = []
    for length in sorted({len(p) for p in registry.values()}):
        chosen.append(min(k for k, p in registry.items() if len(p) == length))
    routing, uris, plain = [], [], []
    n = 0
    for number in chosen[:3]:
        full = registry[number]
        want = uri_path_of(full)
        got, diag = reconstructed_path(world, world.request((), abbrev=number))
        if got != want:
            plain.append("Uri-Path-Abbrev %d (%s): %s" % (number, want, diag))
            continue
        for split in sorted({0, 1, len(full) - 1}):
            if split >= len(full):
                continue
            calls = []

            def render_to_pipe(it_, a, k):
                calls.append((list(a), a[0].attrs.get("request") if a and isinstance(a[0], Obj) else None))
                return Awaitable(lambda: None)

            leaf = world.resource("resource registered at %s" % want)
            leaf.methods["render_to_pipe"] = Builtin("render_to_pipe", render_to_pipe)
            if split == 0:
                site = world.build({full: leaf}, {})
                where = "Uri-Path-Abbrev %d with a resource registered at %r" % (number, full)
            else:
                inner = world.new_site("inner")
                world.build_into(inner, Model(), [(full[split:], leaf)])
                site = world.build({}, {full[:split]: inner})
                where = "Uri-Path-Abbrev %d with a site nested at %r holding a resource at %r" % (number, full[:split], full[split:])
            req = world.request((), abbrev=number)
            pipe = Obj(label="pipe", open_=True, attrs={"request": req})
            out = world.it.run(world.method(site, "render_to_pipe"), [pipe])
            n += 1
            if out[0] != "return" or len(calls) != 1 or not (calls[0][0] and calls[0][0][0] is pipe):
                routing.append("%s: render_to_pipe %s; the resource was called %d time(s)" % (where, show_outcome(out), len(calls)))
                continue
            msg = calls[0][1]
            if not (isinstance(msg, Obj) and isinstance(msg.attrs.get("opt"), Obj)) or msg.attrs["opt"].attrs.get("uri_path") != ():
                routing.append("%s: the resource receives %r with Uri-Path %r instead of ()" % (where, msg, msg.attrs["opt"].attrs.get("uri_path") if isinstance(msg, Obj) and isinstance(msg.attrs.get("opt"), Obj) else None))
                continue
            got, diag = reconstructed_path(world, msg)
            if got != want:
                uris.append("%s: the message the resource receives reports %s instead of the path %s" % (where, diag, want))
    ctx.ob("get_request_uri of a message that names its path by Uri-Path-Abbrev composes the path from the registered expansion", not plain, gfi, gfi.node,
           construct="get_request_uri: abbreviated path", detail=plain[0] if plain else None)
    ctx.ob("a request that names its path by Uri-Path-Abbrev is routed by Site.render_to_pipe like a request for the expanded path: the resource registered there "
           "(directly or inside a nested site) renders it and sees an empty Uri-Path", not routing, rfi, rfi.node, construct="Uri-Path-Abbrev: routing",
           detail=routing[0] if routing else "%d configurations evaluated" % n)
    ctx.ob("the resource reached through an expanded Uri-Path-Abbrev can still reconstruct the original request URI: what the expansion hands to the lookup (the request itself or a copy "
           "made by Message.copy) is read by the lookup and by get_request_uri as a message whose request path is the expanded path", not uris, rfi, rfi.node,
           construct="Uri-Path-Abbrev: original request path", detail=uris[0] if uris else "%d configurations evaluated" % n)


# ---------------------------------------------------------------------------
# C17.f


def links_of(world, value):
    """[(href, ((key, value), ...))] of a LinkFormat-like result, or a diagnostic string"""
    if not isinstance(value, Obj):
        return "the listing is %r" % (value,)
    try:
        links = world.it.getattr_(value, "links")
        out = []
        for l in world.it.iterate(links):
            href = world.it.getattr_(l, "href")
            pairs = world.it.getattr_(l, "attr_pairs")
            out.append((href, tuple(tuple(world.it.iterate(p)) for p in world.it.iterate(pairs))))
        return out
    except Raised as r_:
        return "the listing cannot be read: %s" % show_outcome(("raise", r_.exc))


def listed(world, site):
    """sorted entries of a site's listing, or a diagnostic"""
    out = world.listing(site)
    if out[0] != "return":
        return "get_resources_as_linkheader %s" % show_outcome(out)
    got = links_of(world, out[1])
    return got if isinstance(got, str) else sorted(got, key=repr)


def spec_listing(model, descriptions, nested):
    """reference listing: descriptions {id(resource): dict | None | 'absent'}, nested {id(subsite): reference listing | None}"""
    out = []
    for path, res in model.resources.items():
        dsc = descriptions.get(id(res), "absent")
        if dsc is None:
            continue
        out.append(("/" + "/".join(path), tuple((k, v) for k, v in ({} if dsc == "absent" else dsc).items())))
    for path, s in model.subsites.items():
        inner = nested.get(id(s))
        if inner is None:
            continue
        for href, pairs in inner:
            out.append(("/" + "/".join(path) + href, pairs))
    return out


def description_of(res):
    if hasattr(res, "expected_description"):
        return res.expected_description
    m = res.methods.get("get_link_description")
    if m is None:
        return "absent"
    return m.fn(None, [], {})


def compare_listing(world, site, model, nested=None, ordered_pairs=True):
    """-> None or a diagnostic; foreign PathCapable objects have no listing, nested Site objects are passed in `nested`"""
    out = world.listing(site)
    if out[0] != "return":
        return "get_resources_as_linkheader %s" % show_outcome(out)
    got = links_of(world, out[1])
    if isinstance(got, str):
        return got
    want = spec_listing(model, {id(r_): description_of(r_) for r_ in model.resources.values()}, nested or {})
    if not ordered_pairs:
        got = [(h, tuple(sorted(p, key=repr))) for h, p in got]
        want = [(h, tuple(sorted(p, key=repr))) for h, p in want]
    if sorted(got, key=repr) != sorted(want, key=repr):
        missing = [x for x in want if x not in got]
        extra = [x for x in got if x not in want]
        return "resources at %s, sub-sites at %s: %s%s" % (sorted(model.resources) or "-", sorted(model.subsites) or "-",
                                                              ("not listed: %s " % (missing,)) if missing else "", ("listed but not expected: %s" % (extra,)) if extra else
                                                              ("" if missing else "entries listed %s, expected %s" % (sorted(got, key=repr), sorted(want, key=repr))))
    return None


@R.clause("C17.f", "the listing names exactly the registered resources that do not hide themselves under '/' + '/'.join(path), plus the links of nested sites prefixed with the nested site's path, and is computed from the live tables")
def f(ctx):
    fi = ctx.prog.func(SITE + "get_resources_as_linkheader")
    if registration_refuted(ctx, "the listings"):
        return
    world = World(ctx)

    def site_with(entries):
        site, model = world.new_site(), Model()
        world.build_into(site, model, entries)
        return site, model

    # --- plain resources
    shown = [(("a",), world.resource("a", {"rt": "temperature", "ct": "40"})), (("b", "c"), world.resource("bc")), (("d",), world.resource("d", {})),
             (("e", ""), world.resource("e/", {"if": "core.s"})), ((), world.resource("root", {"title": "root"})),
             # listed like any other: objects that are false in a boolean context (an empty collection resource)
             (("q",), world.resource("empty queue", {"rt": "queue"}, falsy="len")), (("q", "r"), world.resource("undescribed empty queue", falsy="bool"))]
    site, model = site_with(shown)
    msg = compare_listing(world, site, model)
    ctx.ob("every registered resource whose description is not None (also {} and resources without get_link_description) is listed under '/' + '/'.join(<its registered path>) with the attributes of its description",
           not msg, fi, fi.node, construct="listing: registered resources", detail=msg)
    site, model = site_with(shown[:2] + [(("h",), world.resource("hidden", None)), (("h", "i"), world.resource("shown", {"rt": "x"}))])
    msg = compare_listing(world, site, model)
    ctx.ob("a resource is left out of the listing exactly when its link description is None", not msg, fi, fi.node, construct="listing: hidden resources", detail=msg)
    # --- resources that describe themselves through the package's own get_link_description (ct / rt / if_ attributes)
    ctx.prog.cls("resource.Resource")
    plain = Obj(cls="aiocoap.resource.Resource", label="Resource()")
    plain.expected_description = {}
    full = Obj(cls="aiocoap.resource.Resource", label="Resource(ct, rt, if_)", attrs={"ct": 40, "rt": "temperature", "if_": "core.s"})
    full.expected_description = {"ct": "40", "rt": "temperature", "if": "core.s"}
    site, model = site_with([(("p",), plain), (("q", "r"), full)])
    msg = compare_listing(world, site, model, ordered_pairs=False)
    ctx.ob("a resource exposing ct / rt / if_ attributes is listed with ct, rt and if link attributes of those values", not msg, fi, fi.node, construct="listing: well-known attributes", detail=msg)
    # --- nested sites
    deep, deep_model = site_with([(("deep",), world.resource("deep", {"rt": "d"}))])
    inner, inner_model = site_with([(("x",), world.resource("x", {"rt": "y"})), (("y", "z"), world.resource("yz")), ((), world.resource("inner root", {})), (("n",), deep)])
    empty, empty_model = site_with([])
    foreign = world.resource("foreign PathCapable", path_capable=True)
    # a sub-site that is false in a boolean context (a collection-like site without members of its own) and offers a listing
    falsy_sub = world.resource("falsy sub-site with a listing", path_capable=True, falsy="len")
    falsy_links = [("/k", (("rt", "z"),)), ("/k/l", ())]
    falsy_sub.methods["get_resources_as_linkheader"] = Builtin("get_resources_as_linkheader", lambda it, a, k: Obj(label="listing of the falsy sub-site", attrs={
        "links": [Obj(label="link", attrs={"href": h, "attr_pairs": [list(p_) for p_ in pairs]}) for h, pairs in falsy_links]}))
    outer, outer_model = site_with([(("a",), world.resource("a", {"rt": "temperature"})), (("s",), inner), (("t", "u"), foreign), (("v",), empty), (("a", "w"), deep), (("f",), falsy_sub)])

    def reference():
        ref_deep = spec_listing(deep_model, {id(r_): description_of(r_) for r_ in deep_model.resources.values()}, {})
        ref_inner = spec_listing(inner_model, {id(r_): description_of(r_) for r_ in inner_model.resources.values()}, {id(deep): ref_deep})
        return {id(inner): ref_inner, id(deep): ref_deep, id(empty): [], id(foreign): None, id(falsy_sub): list(falsy_links)}

    msg = compare_listing(world, outer, outer_model, reference())
    ctx.ob("the links of a nested site (taken from its own get_resources_as_linkheader()) are listed with the nested site's path prefixed to their href and with their attributes, through several levels; "
           "a sub-site is left out only when it offers no get_resources_as_linkheader", not msg, fi, fi.node, construct="listing: nested sites", detail=msg)
    # --- computed afresh from the live tables
    if any(o["verdict"] == "refuted" and o["clause"] == ctx.clause for o in ctx.obligations):
        ctx.note("changes after the first listing not evaluated: the listing already disagrees with the reference on unchanged sites")
        return
    stale = None
    late = world.resource("late", {"rt": "l"})
    world.build_into(inner, inner_model, [(("late",), late)])
    stale = compare_listing(world, outer, outer_model, reference())
    stale = stale and "after a resource was added to a nested site: " + stale
    if not stale:
        late2 = world.resource("late2", {})
        world.build_into(deep, deep_model, [(("x", "y"), late2)])
        stale = compare_listing(world, outer, outer_model, reference())
        stale = stale and "after a resource was added two levels down: " + stale
    for site_, model_, key, what in ((outer, outer_model, ("a",), "after a resource was removed: "), (inner, inner_model, ("x",), "after a resource was removed from a nested site: ")):
        if stale:
            break
        out = world.remove(site_, key)
        if out != ("return", None):
            ctx.note("removals not evaluated in the listing: remove_resource(%r) %s (reported by C17.d)" % (key, show_outcome(out)))
            break
        del model_.resources[key]
        stale = compare_listing(world, outer, outer_model, reference())
        stale = stale and what + stale
    ctx.ob("the listing is computed afresh from the live tables on every call: later registrations and removals, in this site and in nested sites, show up (nothing is cached between calls)",
           not stale, fi, fi.node, construct="listing: live", detail=stale)


# ---------------------------------------------------------------------------
# C17.g

LINKS = [
    # (href, [(attribute, value), ...])
    ("/a", [("rt", "temp sensor")]),
    ("/b/c", [("rt", "temp-x"), ("if", "core.s")]),
    ("/abc", []),
    ("/d", [("ct", "40 41"), ("foo", "bar"), ("foo", "baz")]),
    ("/e", [("rt", "te"), ("ct", "0"), ("obs", None)]),
    ("/f", [("rt", "a=b"), ("sz", "10")]),
    ("/g", [("rt", "x"), ("rt", "y z"), ("foo", "ba")]),
]

SINGLE_VALUED = ("rel", "anchor", "rev", "media", "title", "title*", "type")  # link_header.SINGLE_VALUED_ATTRS: not used as filter keys below


def spec_filter(query):
    """indices of LINKS kept by an RFC 6690 filter query with at most one item carrying '=' (reference semantics)"""
    items = [q.split("=", 1) for q in query if "=" in q]
    if not items:
        return list(range(len(LINKS)))
    (k, v), = items
    if v.endswith("*"):
        m = lambda x: x.startswith(v[:-1])
    else:
        m = lambda x: x == v
    keep = []
    for i, (href, pairs) in enumerate(LINKS):
        values = [val for key, val in pairs if key.lower() == k.lower()]
        if k in ("rt", "if", "ct"):
            ok = any(m(tok) for tok in " ".join(values).split(" "))
        elif k == "href":
            ok = m(href)
        else:
            ok = any(m(val) for val in values)
        if ok:
            keep.append(i)
    return keep


QUERIES = {
    "prefix": [("rt=temp*",), ("rt=te*",), ("rt=*",), ("if=core*",), ("ct=4*",), ("href=/a*",), ("href=/b*",), ("foo=ba*",), ("foo=bar*",), ("rt=sensor*",)],
    "equal": [("rt=temp",), ("rt=te",), ("rt=sensor",), ("rt=tem",), ("if=core.s",), ("if=core",), ("ct=40",), ("ct=4",), ("href=/a",), ("href=/abc",), ("href=/",), ("foo=bar",), ("foo=ba",), ("foo=b",)],
    "tokens": [("rt=temp",), ("rt=sensor",), ("rt=temp sensor",), ("ct=41",), ("ct=40",), ("ct=40 41",), ("if=core.s",), ("rt=y",), ("rt=z",), ("rt=y z",), ("ct=0",)],
    "href": [("href=/a",), ("href=/b/c",), ("href=/a*",), ("href=a",), ("href=/",), ("href=*",)],
    "other": [("foo=bar",), ("foo=baz",), ("foo=bar baz",), ("sz=10",), ("sz=1*",), ("nope=x",), ("nope=*",), ("=x",)],
    "no-equals": [(), ("nofilter",), ("nofilter", "rt=temp"), ("rt=temp", "nofilter"), ("x", "y"), ("rt",), ("*",)],
    "first-equals": [("rt=a=b",), ("rt=a=*",), ("rt=a",), ("foo==",)],
}


@R.clause("C17.g", "RFC 6690 filter: k=v* is a prefix match, otherwise equality; rt/if/ct per space-separated token; href on the single value; an item without '=' is not a filter")
def g(ctx):
    fi = ctx.prog.func("resource.WKCResource.render_get")
    ctx.need(len(params(fi)) == 1, "WKCResource.render_get signature changed")
    rendered = []

    def lf2m(it, a, k):
        args = list(a) + list(k.values())
        for x in args:
            if isinstance(x, Obj) and "links" in x.attrs:
                x.attrs["links"] = list(it.iterate(x.attrs["links"]))  # rendering reads the links
                rendered.append(list(x.attrs["links"]))
        resp = Obj(label="response", open_=True)
        resp.attrs["opt"] = Obj(label="response.opt", open_=True)
        return resp

    world = World(ctx, stubs={"aiocoap.resource.link_format_to_message": Builtin("link_format_to_message", lf2m)})
    it = world.it
    link_cls = it.qualified("aiocoap.util.linkformat.Link")
    lf_cls = it.qualified("aiocoap.util.linkformat.LinkFormat")
    ctx.need(isinstance(link_cls, ClassVal) and isinstance(lf_cls, ClassVal), "util.linkformat.Link / LinkFormat missing")

    def evaluate(query):
        made = {}

        def listgenerator(it_, a, k):
            links = [it_.instantiate(link_cls, [href, [list(p) for p in pairs]], {}) for href, pairs in LINKS]
            made["links"] = links
            made["lf"] = it_.instantiate(lf_cls, [list(links)], {})
            return made["lf"]

        me = Obj(cls=WKC_QN, label="wkc", attrs={"listgenerator": Builtin("listgenerator", listgenerator), "impl_info": None})
        opt = Obj(label="request.opt", open_=True, attrs={"uri_query": tuple(query), "no_response": None, "accept": None})
        remote = Obj(label="request.remote", open_=True, attrs={"is_multicast_locally": False, "is_multicast": False})
        req = Obj(cls=MSG_QN, label="request", open_=True, attrs={"opt": opt, "remote": remote})
        del rendered[:]
        out = it.run(it.getattr_(me, "render_get"), [req])
        if out[0] != "return":
            return "render_get %s" % show_outcome(out)
        if "lf" not in made:
            raise AnalysisError("C17.g: render_get does not obtain the listing from self.listgenerator()")
        final = rendered[-1] if rendered else list(it.iterate(made["lf"].attrs.get("links", [])))
        got = []
        for l in final:
            idx = [i for i, x in enumerate(made["links"]) if x is l]
            if not idx:
                return "the rendered listing contains %r, which is not one of the listed links" % (l,)
            got.append(idx[0])
        want = spec_filter(query)
        if sorted(got) != want:
            return "kept %s, the reference filter keeps %s" % ([LINKS[i][0] for i in sorted(got)], [LINKS[i][0] for i in want])
        return None

    descs = {
        "prefix": "a value ending in '*' matches every attribute value (token) that starts with the text before the '*'",
        "equal": "a value without trailing '*' matches by equality",
        "tokens": "rt / if / ct are matched per space-separated token of all values of the attribute",
        "href": "href is matched on the link's single target value",
        "other": "any other attribute matches if one of its values matches",
        "no-equals": "a query item without '=' registers no filter and does not fail the request; every registered filter is applied to the listing before it is rendered",
        "first-equals": "a query item is split at its first '=' into key and value",
    }
    for fam, queries in QUERIES.items():
        bad = []
        for q in queries:
            msg = evaluate(q)
            if msg:
                bad.append("Uri-Query %r: %s" % (list(q), msg))
        ctx.ob(descs[fam], not bad, fi, fi.node, construct="link filter: %s" % fam, detail=bad[0] if bad else "%d queries evaluated" % len(queries))
    ctx.note("observation (not a clause): the filter closures capture the key and the matcher by late binding; with two filter items carrying '=' both use the last pair (RFC 6690 defines a single filter item), so only single-item queries are evaluated")


# ---------------------------------------------------------------------------
# C17.h

B2C_QN = "aiocoap.blockwise.Block2Cache"
BT_QN = "aiocoap.optiontypes.BlockOption.BlockwiseTuple"
TD_QN = "aiocoap.util.asyncio.timeoutdict.TimeoutDict"


def block_value(it, a, k):
    """a Block1/Block2 option value: symbolic (number, more, size exponent) with the program's own BlockwiseTuple properties"""
    names = ("block_number", "more", "size_exponent")
    vals = dict(zip(names, a))
    vals.update(k)
    if sorted(vals) != sorted(names) or len(a) > 3:
        it.throw("TypeError", "BlockwiseTuple takes block_number, more, size_exponent")
    triple = tuple(vals[n_] for n_ in names)
    o = Obj(cls=BT_QN, label="Block%r" % (triple,), attrs=vals)
    o.methods["__iter__"] = Builtin("__iter__", lambda it_, a_, k_: Iter(iter(triple), "block option fields"))
    o.methods["__getitem__"] = Builtin("__getitem__", lambda it_, a_, k_: it_._py(lambda: triple[a_[0]]))
    o.methods["__len__"] = Builtin("__len__", lambda it_, a_, k_: 3)
    o.methods["__eq__"] = Builtin("__eq__", lambda it_, a_, k_: (tuple(a_[0].attrs[n_] for n_ in names) if isinstance(a_[0], Obj) and a_[0].cls == BT_QN else a_[0]) == triple)
    return o


@R.clause("C17.h", "a request that begins a fetch of a resource (no Block2 option, or Block2 block number 0) is rendered afresh, whatever an earlier block-wise fetch left in the resource's Block2 cache: "
                   "the listing fetched after add_resource / remove_resource shows the change, also when it is fetched block-wise")
def h(ctx):
    """'Adding or removing a resource takes effect for the next request' and 'the listing names exactly the registered resources'
    are statements about what a client is *served*.  Every resource.Resource -- WKCResource included -- is served through
    blockwise.Block2Cache.extract_or_insert, which keeps the rendering of a block-wise fetch so that the later blocks (number
    > 0) are slices of one consistent body.  The two statements therefore need: a request that begins a fetch -- one without a
    Block2 option, or with Block2 block number 0 (early negotiation) -- is never answered from that store; the response builder
    runs for it and the answer is (a block of) what the builder returned.  Decided by evaluating the program's own
    extract_or_insert (and Message._extract_block / Message.copy behind it) on sequences of requests of one client for one
    resource with one query, the rendering changing between the requests.  Stand-ins: the cache's container is a dict (an entry
    within its lifetime; TimeoutDict itself is C06's), the request's cache key is a constant (same resource, same query), a
    block option value is a symbolic (number, more, size exponent) value with the program's own BlockwiseTuple properties.
    What later blocks are served, 4.08 for unknown transfers and the slicing arithmetic are not C17's business (C06)."""
    prog = ctx.prog
    fi = prog.func("blockwise.Block2Cache.extract_or_insert")
    ctx.need(len(params(fi)) == 2, "Block2Cache.extract_or_insert signature changed")
    ctx.need(BT_QN in prog.classes, "optiontypes.BlockOption.BlockwiseTuple missing")
    block = block_value
    world = World(ctx, stubs={TD_QN: Builtin("TimeoutDict", lambda it, a, k: {}), BT_QN: Builtin("BlockwiseTuple", block)})
    it = world.it
    # does the listing resource go through the cache at all?
    wkc = Obj(cls=WKC_QN, label="wkc", open_=True)
    out = it.run(it.getattr_(wkc, "needs_blockwise_assembly"), [world.request((".well-known", "core"))])
    if out != ("return", True):
        ctx.note("C17.h not evaluated: WKCResource.needs_blockwise_assembly %s -- the listing is not served through Block2Cache" % show_outcome(out))
        return
    decision, served = [], []
    n = 0
    for max_payload, max_exp in ((1024, 6), (32, 1)):
        for first in (None, (0, False, 0)):
            for middle in (None, (1, False, 0)):
                for second in (None, (0, False, 0), (0, False, 1)):
                    cache = it.instantiate(ClassVal(B2C_QN), [], {})
                    remote = Obj(label="remote", open_=True, attrs={"maximum_payload_size": max_payload, "maximum_block_size_exp": max_exp, "blockwise_key": ("the client",),
                                                                     "scheme": "coap", "hostinfo": HOST, "hostinfo_local": HOST, "is_multicast": False, "is_multicast_locally": False})
                    get = world.request(()).attrs["code"]  # one client, one request code: the requests of a sequence belong to the same transfer
                    history = []
                    for step, (b2, fill) in enumerate(((first, b"A"), (middle, b"M"), (second, b"B"))):
                        if step == 1 and b2 is None:
                            continue
                        req = world.request((), label="request %d" % (step + 1), more_options={"block2": block(it, list(b2), {}) if b2 is not None else None, "block1": None})
                        req.attrs["remote"] = remote
                        req.attrs["code"] = get
                        req.methods["get_cache_key"] = Builtin("get_cache_key", lambda it_, a, k: ("cache key: same resource, same query",))
                        rendering = world.request((), label="rendering %s" % fill.decode(), response=True, more_options={"block2": None, "block1": None})
                        rendering.attrs["payload"] = fill * 40
                        rendering.attrs["remote"] = None
                        built = []

                        def builder(it_, a, k, _r=rendering, _b=built):
                            _b.append(1)
                            return Awaitable(lambda: _r)

                        out = it.run(it.getattr_(cache, "extract_or_insert"), [req, Builtin("response_builder", builder)])
                        history.append("Block2 %s" % ("absent" if b2 is None else "(%d, %s, %d)" % b2))
                        if step == 1:
                            continue  # a later block: what it is served is C06's business
                        n += 1
                        where = "a client whose transport takes %d bytes sends %s, the rendering changing in between -- on the last request" % (max_payload, ", then ".join(history))
                        if len(built) != 1:
                            decision.append("%s the resource is rendered %d time(s); %s" % (where, len(built), show_outcome(out)))
                            continue
                        if out[0] != "return":
                            served.append("%s the resource is rendered, but extract_or_insert %s" % (where, show_outcome(out)))
                            continue
                        res = out[1]
                        body = res.attrs.get("payload") if isinstance(res, Obj) else None
                        if not (res is rendering or (isinstance(body, bytes) and body and set(body) == set(fill))):
                            served.append("%s the answer is not taken from the fresh rendering (payload %r...)" % (where, body[:8] if isinstance(body, bytes) else body))
    ctx.ob("a request that begins a fetch (no Block2 option, or Block2 block number 0) has the resource rendered, exactly once -- whatever an earlier fetch of the same client stored for its later blocks",
           not decision, fi, fi.node, construct="Block2 cache: a new fetch is rendered afresh", detail=decision[0] if decision else "%d requests evaluated" % n)
    ctx.ob("the answer to a request that begins a fetch is the fresh rendering, or a block of it (registrations and removals made since an earlier block-wise fetch of the listing are visible)",
           not served, fi, fi.node, construct="Block2 cache: a new fetch is served the fresh rendering", detail=served[0] if served else "%d requests evaluated" % n)


# ---------------------------------------------------------------------------
# C17.i

RES_QN = "aiocoap.resource.Resource"


@R.clause("C17.i", "the handler can reconstruct the original request URI also when the request's body arrives block-wise: the message a resource below a Site renders after Block1 assembly "
                   "still has the stripped Uri-Path and still yields the original request path from get_request_uri")
def i(ctx):
    """'The handler sees the path with the matched part removed but can still reconstruct the original request URI' is a statement
    about the message the handler's render() receives, not about the message the Site's lookup returns (C17.e).  Between the two lies
    the serving chain of every resource.Resource: render_to_pipe -> needs_blockwise_assembly -> Block1 assembly of the request body ->
    Block2 handling of the response -> render(request).  Each link may hand on the message it received, a copy made by Message.copy,
    or the stored first block of a transfer -- the necessary condition is the end-to-end one: whatever message reaches render() has
    the stripped Uri-Path and get_request_uri on it yields the path of the original request.  It is kept jointly by the Site's lookup
    (where the original path is stored), Message.copy (what a copy carries over), the block-wise assembly (which message it keeps and
    returns) and get_request_uri (what it reads), and is decided end to end by evaluating the program's own Site.render_to_pipe,
    Resource.render_to_pipe, Block1 assembly, Block2 handling, Message.copy and get_request_uri on requests whose body comes in one
    Block1 block and in two Block1 blocks, for a resource registered directly, in a nested site and two sites deep -- and, as the
    reference case, on the same request without a Block1 option.  Stand-ins: the assembly's/cache's container is a dict (an entry
    within its lifetime; TimeoutDict itself is C06's), a block option value is a symbolic (number, more, size exponent) value with
    the program's own BlockwiseTuple properties, the symbolic option set lists no options (all requests of a sequence belong to the
    same operation: the block key is C06's business), render() is the application's handler (it records the message it is given).
    Which blocks are acknowledged with 2.31, 4.08 for gaps and the payload arithmetic are not C17's business (C06)."""
    prog = ctx.prog
    rfi = prog.func(SITE + "render_to_pipe")
    if RES_QN not in prog.classes or BT_QN not in prog.classes:
        raise AnalysisError("C17.i: resource.Resource / optiontypes.BlockOption.BlockwiseTuple missing")
    if registration_refuted(ctx, "block-wise requests below a Site") or lookup_refuted(ctx, "block-wise requests below a Site"):
        return
    world = World(ctx, stubs=dict(URI_STUBS, **{TD_QN: Builtin("TimeoutDict", lambda it, a, k: {}), BT_QN: Builtin("BlockwiseTuple", block_value)}))
    world.option_methods = {"option_list": Builtin("option_list", lambda it_, a, k: [])}
    it = world.it
    probe = it.instantiate(ClassVal(RES_QN), [], {})
    out = it.run(it.getattr_(probe, "needs_blockwise_assembly"), [world.request(("p",))])
    if out != ("return", True):
        ctx.note("C17.i not evaluated: resource.Resource.needs_blockwise_assembly %s -- request bodies are not assembled on behalf of the resource" % show_outcome(out))
        return
    lost, n = [], 0
    plain_ok = True
    for depth, full in ((0, ("a", "b")), (1, ("s", "a", "b")), (2, ("s", "t", "a")), (1, ("s", ""))):
        for blocks in ((), ((0, False, 0),), ((0, True, 0), (1, False, 0)), ((0, True, 0), (1, True, 0), (2, False, 0))):
            seen = []
            leaf = it.instantiate(ClassVal(RES_QN), [], {})
            leaf.label = "resource registered at %r" % (full,)
            answer = world.request((), label="response", response=True, more_options={"block2": None, "block1": None})
            answer.attrs["payload"] = b"ok"
            answer.attrs["remote"] = None

            def render(it_, a, k, _seen=seen, _answer=answer):
                _seen.append(a[0] if a else None)
                return Awaitable(lambda: _answer)

            leaf.methods["render"] = Builtin("render", render)
            inner_path = full[depth:]
            key = () if inner_path == ("",) else inner_path
            holder = None
            for level in range(depth, 0, -1):
                s_ = world.new_site("nested site %d" % level)
                if holder is None:
                    world.build_into(s_, Model(), [(key, leaf)])
                else:
                    world.build_into(s_, Model(), [(full[level:level + 1], holder)])
                holder = s_
            if depth == 0:
                site = world.build({full: leaf}, {})
            elif depth == 1:
                site = world.build({}, {full[:1]: holder})
            else:
                site = world.build({}, {full[:1]: holder})
            remote = Obj(label="remote", open_=True, attrs={"maximum_payload_size": 1024, "maximum_block_size_exp": 6, "blockwise_key": ("the client",),
                                                             "scheme": "coap", "hostinfo": HOST, "hostinfo_local": HOST, "is_multicast": False, "is_multicast_locally": False})
            code = world.request(()).attrs["code"]
            how = "without a Block1 option" if not blocks else "with its body in %d Block1 block(s)" % len(blocks)
            where = "request for %r %s, resource %s" % (full, how, "registered directly" if depth == 0 else "%d nested site(s) deep" % depth)
            problem = None
            for step, b1 in enumerate(blocks or (None,)):
                req = world.request(full, label="request %d" % (step + 1), more_options={"block1": block_value(it, list(b1), {}) if b1 is not None else None, "block2": None})
                req.attrs["remote"] = remote
                req.attrs["code"] = code
                req.attrs["payload"] = b"x" * 16
                responses = []
                pipe = Obj(label="pipe", open_=True, attrs={"request": req})
                pipe.methods["add_response"] = Builtin("add_response", lambda it_, a, k, _r=responses: _r.append(a[0] if a else None))
                out = it.run(world.method(site, "render_to_pipe"), [pipe])
                last = b1 is None or not b1[1]
                if not last:
                    if seen:
                        problem = "the handler is called before the body is complete (block %d)" % step
                        break
                    continue
                if out[0] != "return" or len(seen) != 1:
                    problem = "render_to_pipe %s; the handler was called %d time(s)" % (show_outcome(out), len(seen))
            n += 1
            if problem is None:
                msg = seen[0]
                mopt = msg.attrs.get("opt") if isinstance(msg, Obj) else None
                if not isinstance(mopt, Obj):
                    problem = "the handler receives %r" % (msg,)
                elif mopt.attrs.get("uri_path") != ():
                    problem = "the handler sees Uri-Path %r instead of the stripped path ()" % (mopt.attrs.get("uri_path"),)
                else:
                    got, diag = reconstructed_path(world, msg)
                    if got != uri_path_of(full):
                        problem = "the message the handler receives reports %s instead of the path %s" % (diag, uri_path_of(full))
            if problem is not None:
                if not blocks:
                    plain_ok = False
                lost.append("%s: %s" % (where, problem))
    if not plain_ok:
        # the reference case (no Block1 option) does not evaluate as expected: the serving chain is not what this clause models; C17.c/C17.e decide the rest
        raise AnalysisError("C17.i: a request without Block1 option is not served through Site.render_to_pipe -> Resource.render in the evaluator: %s" % lost[0])
    ctx.ob("a request whose body is transferred with Block1 reaches the handler of the resource found by the Site (directly or through nested sites) as a message with the stripped "
           "Uri-Path from which get_request_uri still yields the original request path: what the block-wise assembly keeps and returns (the message fed in, or a copy made by "
           "Message.copy) carries the original path the Site stored", not lost, rfi, rfi.node, construct="Block1 assembly: original request path",
           detail=lost[0] if lost else "%d request sequences evaluated" % n)


# ---------------------------------------------------------------------------
# C17.j


@R.clause("C17.j", "the path the lookup keys on is the path the client sent: option values pass the option codecs unchanged -- a String option (Uri-Path) is the UTF-8 of exactly its value "
                   "in both directions, nothing is normalised, folded or re-encoded on the way in or out (shared with C01.e)")
def j_shared(ctx):
    """'The request is rendered by the resource registered at exactly that path' and 'the listing names the registered resources with
    their full paths' compare two sequences of strings: the components the application registered (the table keys, as given to
    add_resource) and the components of the request's Uri-Path options, which come out of the option value codec
    (optiontypes.StringOption: the value set by the application or decoded from the wire, read back through `.value`).  The tables
    are keyed by string equality (C17.a/b/d), so routing is exact only if the codec is exact: the value read back is the value
    set, the value decoded from the bytes b is b.decode('utf-8') and the bytes sent for a value s are s.encode('utf-8') -- for
    every string, in particular for strings that are not in a Unicode normalisation form, not lower case, contain '/', '%' or
    characters outside the BMP.  Any mapping applied there (NFC 'to resolve the net-unicode FIXME', case folding, percent
    decoding) makes a resource registered under a component outside the mapping's range unreachable (4.04) and the links the
    listing advertises for it unroutable, while Site and the tables stay textually untouched.  An independently written breaking
    change did exactly that through a `value` property on StringOption.  The condition is C01.e's ('String options are the UTF-8 of
    the value in both directions', decided there by evaluating the program's own option classes -- constructor, value attribute or
    property, encode, decode -- on a family of strings including decomposed, compatibility and astral characters against the
    reference codec); it is run here under this property's id rather than restated: one statement of the invariant, so that a
    maintainer's edit of the option types is judged the same way by C01 and C17.  (The other value formats C01.e decides -- uint,
    opaque, block -- carry the Block1/Block2/Uri-Path-Abbrev values C17.e/h/i evaluate symbolically.)"""
    from . import c01
    c01.e(ctx)


# ---------------------------------------------------------------------------
F_R = "aiocoap/resource.py"
F_M = "aiocoap/message.py"

EXACT = "        if request.opt.uri_path in self._resources:\n            stripped = request.copy(uri_path=())\n            stripped._original_request_path = original_request_path\n            return self._resources[request.opt.uri_path], stripped\n\n"
EMPTY = "        if not request.opt.uri_path:\n            raise KeyError()\n\n"
# C17.a
R.seed("C17.a", F_R, EXACT + EMPTY, EMPTY + EXACT, "empty-path check first: a root resource registered at () is never found")
R.seed("C17.a", F_R, "            return self._resources[request.opt.uri_path], stripped\n", "            return self._resources[request.opt.uri_path[:1]], stripped\n", "wrong key on the hit side")
R.seed("C17.a", F_R, "        if request.opt.uri_path in self._resources:\n            stripped = request.copy(uri_path=())", "        if request.opt.uri_path in self._resources and request.opt.uri_path[:-1] not in self._subsites:\n            stripped = request.copy(uri_path=())", "sub-sites searched before resources win")
R.seed("C17.a", F_R, "            stripped._original_request_path = original_request_path\n            return self._resources[request.opt.uri_path], stripped\n", "            stripped._original_request_path = original_request_path\n", "exact match falls through into the prefix search")
LOOP = ("        remainder = [request.opt.uri_path[-1]]\n        path = request.opt.uri_path[:-1]\n        while path:\n            if path in self._subsites:\n                res = self._subsites[path]\n"
        "                if remainder == [\"\"]:\n                    # sub-sites should see their root resource like sites\n                    remainder = []\n"
        "                stripped = request.copy(uri_path=remainder)\n                stripped._original_request_path = original_request_path\n                return res, stripped\n"
        "            remainder.insert(0, path[-1])\n            path = path[:-1]\n")
R.seed("C17.a", F_R, EXACT + EMPTY + LOOP + "        raise KeyError()\n",
       "        if request.opt.uri_path:\n    " + LOOP.replace("\n        ", "\n            ").rstrip(" ") + "\n" + EXACT + "        raise KeyError()\n", "sub-sites searched before resources")
R.seed("C17.a", F_R, "            stripped = request.copy(uri_path=())\n", "            stripped = request.copy(uri_path=request.opt.uri_path[-1:])\n", "exact match leaves the last component in the path")
# C17.b
R.seed("C17.b", F_R, "        path = request.opt.uri_path[:-1]\n        while path:", "        path = request.opt.uri_path\n        while path:", "the full path is tried as a sub-site prefix (not a proper prefix; invariant broken)")
R.seed("C17.b", F_R, "            remainder.insert(0, path[-1])\n            path = path[:-1]\n", "            path = path[:-1]\n            remainder.insert(0, path[-1])\n", "element read after shortening")
R.seed("C17.b", F_R, "            path = path[:-1]\n        raise KeyError()", "            path = path[:-2]\n        raise KeyError()", "prefix lengths skipped")
R.seed("C17.b", F_R, "            remainder.insert(0, path[-1])\n", "            remainder.insert(0, path[0])\n", "wrong element prepended")
R.seed("C17.b", F_R, "                if remainder == [\"\"]:\n                    # sub-sites should see their root resource like sites\n                    remainder = []\n", "", "[\"\"] mapping dropped")
R.seed("C17.b", F_R, "                if remainder == [\"\"]:", "                if remainder == (\"\",):", "list compared with a tuple: mapping never fires")
R.seed("C17.b", F_R, "                stripped = request.copy(uri_path=remainder)\n                stripped._original_request_path = original_request_path\n                return res, stripped\n", "                stripped = request.copy(uri_path=remainder)\n                stripped._original_request_path = original_request_path\n                best = res, stripped\n", "loop does not stop at the first (longest) match")
R.seed("C17.b", F_R, "            path = path[:-1]\n        raise KeyError()", "            path = path[:-1]\n        raise ValueError()", "exhaustion not signalled by KeyError")
R.seed("C17.b", F_R, "        remainder = [request.opt.uri_path[-1]]\n        path = request.opt.uri_path[:-1]\n        while path:\n            if path in self._subsites:", "        remainder = [request.opt.uri_path[-1]]\n        path = request.opt.uri_path[:1]\n        while path:\n            if path in self._subsites:", "shortest prefix first")
R.seed("C17.b", F_R, "        remainder = [request.opt.uri_path[-1]]\n        path = request.opt.uri_path[:-1]\n", "        remainder = [request.opt.uri_path[-1]]\n        if remainder == [\"\"]:\n            remainder = []\n        path = request.opt.uri_path[:-1]\n", "trailing-slash normalisation hoisted before the loop: /a/dir/ below a sub-site at /a reaches ['dir'] instead of ['dir','']")
R.seed("C17.b", F_R, "        while path:\n            if path in self._subsites:", "        while len(path) > 1:\n            if path in self._subsites:", "one-component prefixes are never tried")
R.seed("C17.b", F_R, "            remainder.insert(0, path[-1])\n            path = path[:-1]\n", "            remainder.insert(0, path[-1])\n", "the candidate is never shortened: the search does not terminate")
R.seed("C17.b", F_R, "                stripped = request.copy(uri_path=remainder)\n", "                stripped = request.copy(uri_path=remainder)\n                self._subsites.pop(path)\n", "the lookup modifies the table")
# C17.c
R.seed("C17.c", F_R, "        try:\n            child, subrequest = self._find_child_and_pathstripped_message(request)\n        except KeyError:\n            raise error.NotFound()\n", "        try:\n            child, subrequest = self._find_child_and_pathstripped_message(request)\n        except KeyError:\n            raise error.MethodNotAllowed()\n", "unknown path answered 4.05")
R.seed("C17.c", F_R, "        except KeyError:\n            return True\n", "        except IndexError:\n            return True\n", "KeyError leaves needs_blockwise_assembly")
R.seed("C17.c", F_R, "                request.request\n            )\n        except KeyError:\n            raise error.NotFound()\n", "                request.request\n            )\n        except KeyError:\n            return\n", "render_to_pipe silently ignores unknown paths")
# C17.d
R.seed("C17.d", F_R, "        try:\n            del self._subsites[tuple(path)]\n        except KeyError:\n            del self._resources[tuple(path)]\n", "        del self._subsites[tuple(path)]\n", "remove_resource only deletes sub-sites")
R.seed("C17.d", F_R, "        if isinstance(resource, PathCapable):\n            self._subsites[tuple(path)] = resource", "        if not isinstance(resource, PathCapable):\n            self._subsites[tuple(path)] = resource", "tables swapped")
R.seed("C17.d", F_R, "        else:\n            self._resources[tuple(path)] = resource", "        else:\n            self._resources[path] = resource", "unhashable / unequal key")
R.seed("C17.d", F_R, "        if request.opt.uri_path in self._resources:\n            stripped = request.copy(uri_path=())\n            stripped._original_request_path = original_request_path\n            return self._resources[request.opt.uri_path], stripped\n",
       "        if not hasattr(self, \"_table\"):\n            self._table = dict(self._resources)\n        if request.opt.uri_path in self._resources:\n            stripped = request.copy(uri_path=())\n            stripped._original_request_path = original_request_path\n            return self._table[request.opt.uri_path], stripped\n", "lookup through a cached copy of the table")
R.seed("C17.d", F_R, "            raise error.NotFound()\n        else:\n            return await child.render(subrequest)\n", "            raise error.NotFound()\n        else:\n            self._resources.pop(request.opt.uri_path, None)\n            return await child.render(subrequest)\n", "foreign writer of the table")
R.seed("C17.d", F_R, "            raise error.NotFound()\n        else:\n            return await child.render(subrequest)\n", "            raise error.NotFound()\n        else:\n            table = self._subsites if request.opt.uri_path else self._resources\n            table[request.opt.uri_path] = child\n            return await child.render(subrequest)\n", "foreign writer of the tables through a local alias")
R.seed("C17.d", F_R, "    def __init__(self):\n        self._resources = {}\n        self._subsites = {}\n", "    _resources = {}\n    _subsites = {}\n\n    def __init__(self):\n        pass\n", "tables shared by all sites")
R.seed("C17.d", F_R, "        try:\n            del self._subsites[tuple(path)]\n        except KeyError:\n            del self._resources[tuple(path)]\n", "        self._subsites.pop(tuple(path), None)\n        self._resources.pop(tuple(path), None)\n", "removal of an unknown path passes silently, removal of a doubly registered path removes both")
R.seed("C17.d", F_R, "        if isinstance(path, str):\n            raise ValueError(\"Paths should be tuples or lists of strings\")\n", "        if isinstance(path, str):\n            return\n", "registration silently dropped")
# C17.e
R.seed("C17.e", F_R, "                stripped = request.copy(uri_path=remainder)\n                stripped._original_request_path = original_request_path\n", "                stripped = request.copy(uri_path=remainder)\n", "sub-site arm forgets the original path")
R.seed("C17.e", F_M, "            if hasattr(self, \"_original_request_path\"):", "            if hasattr(self, \"_original_path\"):", "reader uses a different attribute name")
R.seed("C17.e", F_R, "            request,\n            \"_original_request_path\",\n            request.opt.uri_path,\n        )", "            request,\n            \"_original_request_path\",\n            request.opt.uri_path[1:],\n        )", "default is not the full path")
R.seed("C17.e", F_R, "            stripped = request.copy(uri_path=())\n            stripped._original_request_path = original_request_path\n", "            stripped = request.copy(uri_path=())\n            stripped._original_request_path = stripped.opt.uri_path\n", "stores the stripped path")
R.seed("C17.e", F_R, "            request,\n            \"_original_request_path\",\n            request.opt.uri_path,\n        )", "            request,\n            \"_original_path\",\n            request.opt.uri_path,\n        )", "an inner site does not find the original path stored by the outer site")
R.seed("C17.a", F_R, "            stripped = request.copy(uri_path=())\n            stripped._original_request_path", "            stripped = request\n            stripped.opt.uri_path = ()\n            stripped._original_request_path", "the caller's message is modified instead of copied")
R.seed("C17.e", F_R, "            stripped = request.copy(uri_path=())\n", "            stripped = request.copy(uri_path=(), uri_query=())\n", "the copy handed to the resource loses the query")
# C17.f
R.seed("C17.f", F_R, "            if details is None:\n                continue\n", "            if not details:\n                continue\n", "resources whose description is {} are hidden")
R.seed("C17.f", F_R, "            lh = Link(\"/\" + \"/\".join(path), **details)\n", "            lh = Link(\"/\".join(path), **details)\n", "leading slash lost")
R.seed("C17.f", F_R, "                        Link(\"/\" + \"/\".join(path) + link.href, link.attr_pairs)", "                        Link(link.href, link.attr_pairs)", "nested links not prefixed with the sub-site's path")
R.seed("C17.f", F_R, "        for path, resource in self._subsites.items():\n            if hasattr(resource, \"get_resources_as_linkheader\"):", "        for path, resource in self._resources.items():\n            if hasattr(resource, \"get_resources_as_linkheader\"):", "sub-sites never listed")
R.seed("C17.d", F_R, "    def get_resources_as_linkheader(self):\n        links = []\n", "    def get_resources_as_linkheader(self):\n        if getattr(self, \"_links_cache\", None) is not None:\n            return LinkFormat(list(self._links_cache))\n        links = []\n", "cached listing: changes in nested sites are not seen")
R.seed("C17.f", F_R, "    def get_resources_as_linkheader(self):\n        links = []\n", "    def get_resources_as_linkheader(self):\n        if getattr(self, \"_links_cache\", None) is not None:\n            return LinkFormat(list(self._links_cache))\n        links = self._links_cache = []\n", "listing cached on first use: later registrations are not seen")
R.seed("C17.f", F_R, "                        Link(\"/\" + \"/\".join(path) + link.href, link.attr_pairs)", "                        Link(\"/\" + \"/\".join(path) + link.href)", "attributes of nested links lost")
# C17.g
R.seed("C17.g", F_R, "                    return x.startswith(v[:-1])", "                    return x.startswith(v)", "the '*' itself is part of the prefix")
R.seed("C17.g", F_R, "                    return x == v\n", "                    return x in v\n", "substring instead of equality")
R.seed("C17.g", F_R, "            if k in (\"rt\", \"if\", \"ct\"):", "            if k in (\"rt\", \"if\"):", "ct no longer token-wise")
R.seed("C17.g", F_R, "            except ValueError:\n                continue  # no =, not a relevant filter", "            except ValueError:\n                k, v = q, \"\"", "item without '=' becomes a filter")
R.seed("C17.g", F_R, "                filters.append(lambda link: matchexp(getattr(link, k)))", "                filters.append(lambda link: any(matchexp(c) for c in getattr(link, k)))", "href matched per character")
R.seed("C17.g", F_R, "                k, v = q.split(\"=\", 1)\n", "                k, v = q.split(\"=\")\n", "a value containing '=' makes the item be ignored")
R.seed("C17.g", F_R, "        while filters:\n            links.links = filter(filters.pop(), links.links)\n", "        while filters:\n            filter(filters.pop(), links.links)\n", "filters are evaluated but not applied")
# registered objects that are false in a boolean context (C17.a/b/c/d/f)
R.seed("C17.a", F_R, "        if request.opt.uri_path in self._resources:\n            stripped = request.copy(uri_path=())", "        if self._resources.get(request.opt.uri_path):\n            stripped = request.copy(uri_path=())", "presence in the table decided by the truth value of the registered resource: an empty collection resource is answered 4.04")
R.seed("C17.b", F_R, "            if path in self._subsites:\n                res = self._subsites[path]\n", "            res = self._subsites.get(path)\n            if res:\n", "a sub-site that is false in a boolean context is skipped in favour of a shorter prefix")
R.seed("C17.c", F_R, "            raise error.NotFound()\n        else:\n            return await child.render(subrequest)\n", "            raise error.NotFound()\n        else:\n            if not child:\n                raise error.NotFound()\n            return await child.render(subrequest)\n", "render answers 4.04 for a registered resource that is false in a boolean context")
R.seed("C17.d", F_R, "        if isinstance(path, str):\n            raise ValueError(\"Paths should be tuples or lists of strings\")\n", "        if isinstance(path, str):\n            raise ValueError(\"Paths should be tuples or lists of strings\")\n        if not resource:\n            return\n", "an object that is false in a boolean context is silently not registered")
R.seed("C17.f", F_R, "            if hasattr(resource, \"get_resources_as_linkheader\"):", "            if resource and hasattr(resource, \"get_resources_as_linkheader\"):", "the links of a sub-site that is false in a boolean context are not listed")
R.seed("C17.f", F_R, "            if hasattr(resource, \"get_link_description\"):", "            if resource and hasattr(resource, \"get_link_description\"):", "a resource that is false in a boolean context is listed without its description")
# Message.copy is the program's own (C17.e), Uri-Path-Abbrev end to end
R.seed("C17.e", F_M, "        new.remote = kwargs.pop(\"remote\", self.remote)\n", "        new.remote = kwargs.pop(\"remote\", None)\n", "Message.copy loses the remote: the stripped message is not the request with a shorter path")
R.seed("C17.e", F_R, "        _expand_upa(request.request)\n", "        _expand_upa(request.request.copy())\n", "the Uri-Path-Abbrev expansion is applied to a copy that is thrown away: the abbreviated request is not routed")
R.seed("C17.e", F_R, "            request.opt.uri_path = uri_path_abbrev._map[request.opt.uri_path_abbrev]\n", "            request.opt.uri_path = uri_path_abbrev._map[request.opt.uri_path_abbrev]\n            request._original_request_path = None\n",
       "the expansion hands on a message carrying a stored original path of None, which the lookup takes for a real path: the resource cannot reconstruct the URI")
# C17.h
F_B = "aiocoap/blockwise.py"
R.seed("C17.h", F_B, "        if req.opt.block2 is None or req.opt.block2.block_number == 0:\n            assembled = await response_builder()\n", "        if req.opt.block2 is None:\n            assembled = await response_builder()\n", "a request for block 0 is served from the cache (or 4.08), never rendered")
R.seed("C17.h", F_B, "        if req.opt.block2 is None or req.opt.block2.block_number == 0:\n            assembled = await response_builder()\n",
       "        if req.opt.block2 is None or req.opt.block2.block_number == 0:\n            try:\n                assembled = self._completes[block_key]\n            except KeyError:\n                assembled = await response_builder()\n",
       "every request is served the stored rendering while the entry lives: the listing does not show later registrations")
R.seed("C17.h", F_B, "            self._completes[block_key] = assembled\n", "            assembled = self._completes.setdefault(block_key, assembled) if hasattr(self._completes, \"setdefault\") else assembled\n            self._completes[block_key] = assembled\n",
       "the fresh rendering is replaced by the stored one before it is served")

# C17.i
F_I = "aiocoap/interfaces.py"
R.seed("C17.i", F_B, "            self._assemblies[block_key] = req\n", "            self._assemblies[block_key] = req.copy(payload=req.payload)\n", "the assembly is started from a copy of the first block: Message.copy does not carry the original request path the Site stored")
R.seed("C17.i", F_I, "            req = self._block1.feed_and_take(req)\n", "            req = self._block1.feed_and_take(req).copy()\n", "the assembled request is copied before it is rendered: the handler cannot reconstruct the request URI of a block-wise request")
R.seed("C17.i", F_I, "lambda: self.render(req))", "lambda: self.render(req.copy(uri_path=pipe.request.opt.uri_path)))", "the handler is given a fresh copy of the assembled request: the original request path is lost on the block-wise serving chain only")

# C17.j
F_T = "aiocoap/optiontypes.py"
R.seed("C17.j", F_T, "        self.value = rawdata.decode(\"utf-8\")\n", "        import unicodedata\n\n        self.value = unicodedata.normalize(\"NFC\", rawdata.decode(\"utf-8\"))\n",
       "path components from the wire are NFC-normalised: a resource registered under a decomposed name is answered 4.04")
R.seed("C17.j", F_T, "    def __init__(self, number, value=\"\"):\n        self.value = value\n        self.number = number\n\n    def encode(self):\n",
       "    def __init__(self, number, value=\"\"):\n        self.value = value.lower()\n        self.number = number\n\n    def encode(self):\n",
       "string option values set by the application are case-folded: /Sensors and /sensors become one path")
R.seed("C17.j", F_T, "        rawdata = self.value.encode(\"utf-8\")\n", "        rawdata = self.value.replace(\"%20\", \" \").encode(\"utf-8\")\n",
       "percent escapes in string option values are decoded on the way out: the path component 'c%20' advertised in the listing is requested as 'c '")
