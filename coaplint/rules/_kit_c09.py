"""Path-sensitive symbolic walker for the C09 rules.

`Walker(prog).run(fi)` enumerates the paths of a function's CFG and returns one
`Outcome` per path: how the path ends (`return` value / `raise`d exception), the
ordered *events* on it (calls, attribute/subscript stores, deletes, raises) and
the *decisions* taken (one per atomic condition).  Everything an event or a
decision mentions is *resolved*: a local name is replaced by the value bound to
it on that very path, so rules compare what is computed, never how the locals
are called, in which order independent statements stand, whether a condition is
nested / an early return / De-Morganed, or whether part of the function lives in
a helper:

* calls of functions that are not part of the confirmed tree
  (inline.baseline()) and that the engine's helper expansion left in place
  (return inside try/match/loop, several returns inside an expression ...) are
  followed *interprocedurally*: the callee's paths are spliced into the caller's
  (parameters bound to the resolved arguments, explicit raises propagated to
  the caller's handlers).  Decorated callees (other than static/classmethod),
  generators, dynamically dispatched methods and recursion stay opaque calls.
* lambdas, nested defs and functools.partial objects are values
  (`apply_callable`).
* exceptions: an explicit `raise` is routed to the first handler whose class
  (static hierarchy) takes it; every statement inside a `try` that may raise
  also has an *implicit* exceptional continuation into the handlers that may
  take an arbitrary Exception (the events of that statement are then flagged
  `partial`).  Implicit exceptions that nobody handles are not enumerated.
* heap reads are versioned: `self.f` read before and after a store to `self.f`
  (or, for `self`-rooted chains, before and after an opaque non-log call) are
  different values, so a test repeated after a callback is decided again.

* records: a named tuple is one value however it is read.  A parameter the rule declares as a record (`records=`),
  and every value built on the path by a named-tuple constructor the program declares (`namedtuple(..)` bound to a class
  attribute / module name, `NamedTuple` classes; fields by position from the declaration), is read alike through
  `r.f`, `r[i]`, `r[-1]`, `r[a:b]`, `a, b, c = r`, `a, *rest = r`, `getattr(r, "f")`, `tuple(r)`, `f(*r)`,
  `r._replace(f=x)`, `C._make((..))`, constructor keywords or positions.  Elements of a container declared in
  `elem_records=` are read alike through `el.f` and `el[i]` / unpacking.
* a conditional expression whose pure test the path has not decided splits the path like an `if` (one decision per
  atomic condition), so `x = a if c else b` and `if c: x = a` / `else: x = b` give the same outcomes; followable calls
  in the selected arm are followed.
* a free name of a nested function that denotes a def of an enclosing function (sibling closure) is followed like any
  other helper that is not part of the confirmed tree.
* a call that statically denotes a function of the program but was not followed carries `_unfollowed` (that
  function), so that a rule can refuse instead of judging a value it cannot see.

Nothing is executed; conditions are uninterpreted booleans apart from constant
folding (`None is None`, boolean constants returned by a helper, a constructor
call is not None) and declared finite-domain subjects.
"""

import ast

from ..model import AnalysisError
from ..cfg import cfg_of
from ..pat import chain
from ..paths import atom_key
from ..rulekit import is_log_call
from .. import inline as _inline

PURE_FUNCS = {"isinstance", "issubclass", "len", "hasattr", "getattr", "str", "repr", "int", "bool", "type", "id", "callable",
              "min", "max", "abs", "tuple", "frozenset", "bytes", "format", "list", "dict", "set", "sorted", "reversed", "enumerate", "zip",
              "any", "all", "sum", "range"}
PURE_METHODS = {"lower", "upper", "strip", "encode", "decode", "format", "startswith", "endswith", "title", "casefold"}


def clone(node, fn=None):
    """structural copy of an AST (custom attributes are not copied); fn(node) may return a replacement"""
    if fn is not None:
        r = fn(node)
        if r is not None:
            return r
    new = type(node)()
    for f in node._fields:
        if not hasattr(node, f):
            continue
        v = getattr(node, f)
        if isinstance(v, list):
            v = [clone(x, fn) if isinstance(x, ast.AST) else x for x in v]
        elif isinstance(v, ast.AST):
            v = clone(v, fn)
        setattr(new, f, v)
    for a in ("lineno", "col_offset", "end_lineno", "end_col_offset"):
        if hasattr(node, a):
            setattr(new, a, getattr(node, a))
    return new


def _plain(e):
    """tag-free copy in which every opaque call instance / versioned heap read is an atom"""
    def fn(n):
        if isinstance(n, ast.Call) and getattr(n, "_inst", None) is not None and not getattr(n, "_pure", False):
            return ast.Name(id="<%s#%d>" % (ast.unparse(clone(n, _fn_inner(n))), n._inst), ctx=ast.Load())
        if isinstance(n, ast.Await) and getattr(n, "_inst", None) is not None:
            return ast.Name(id="<await %s#%d>" % (ast.unparse(clone(n.value, fn)), n._inst), ctx=ast.Load())
        if isinstance(n, ast.Name) and getattr(n, "_inst", None) is not None:
            return ast.Name(id="<%s#%d>" % (n.id, n._inst), ctx=ast.Load())
        if isinstance(n, ast.Attribute) and getattr(n, "_tag", None):
            return ast.Name(id="<%s@%s>" % (ast.unparse(clone(n, _fn_inner(n))), ".".join(str(x) for x in n._tag)), ctx=ast.Load())
        return None

    def _fn_inner(root):
        def g(n):
            if n is root:
                return None
            return fn(n)
        return g
    return clone(e, fn)


def K(e):
    """canonical text of a resolved expression (None for None)"""
    if e is None:
        return None
    k = getattr(e, "_k", None)
    if k is None:
        try:
            k = " ".join(ast.unparse(_plain(e)).split())
        except Exception:
            k = "<?%d>" % id(e)
        try:
            e._k = k
        except Exception:
            pass
    return k


def strip_tags(e):
    """chain() text of a resolved attribute chain ignores versions anyway; this gives a plain copy for pat.match"""
    return clone(e)


def parse(src):
    return ast.parse(src, mode="eval").body


def origin(e):
    return getattr(e, "_o", e)


# ---------------------------------------------------------------------------
# records: named tuples are read by field name, by position, by unpacking, through getattr -- all the same fact


def _decl_fields(decl):
    """field names by position of a declaration expression `namedtuple("N", ("a", "b"))` / `["a", "b"]` / `"a b"` /
    `"a, b"` / field_names=..., `typing.NamedTuple("N", [("a", T), ("b", U)])`; None for anything else (rename=True
    included: the names would not be the ones written)"""
    if not isinstance(decl, ast.Call) or any(isinstance(a, ast.Starred) for a in decl.args) or any(k.arg is None for k in decl.keywords):
        return None
    c = chain(decl.func) or ""
    last = c.split(".")[-1]
    kw = {k.arg: k.value for k in decl.keywords}
    if last == "namedtuple":
        if "rename" in kw or len(decl.args) > 2:
            return None
        spec = decl.args[1] if len(decl.args) > 1 else kw.get("field_names")
    elif last == "NamedTuple":
        spec = decl.args[1] if len(decl.args) > 1 else kw.get("fields")
    else:
        return None
    names = None
    if isinstance(spec, ast.Constant) and isinstance(spec.value, str):
        names = spec.value.replace(",", " ").split()
    elif isinstance(spec, (ast.Tuple, ast.List)):
        names = []
        for x in spec.elts:
            if last == "NamedTuple" and isinstance(x, (ast.Tuple, ast.List)) and len(x.elts) == 2:
                x = x.elts[0]
            if not (isinstance(x, ast.Constant) and isinstance(x.value, str)):
                return None
            names.append(x.value)
    if not names or len(set(names)) != len(names) or not all(n.isidentifier() and not n.startswith("_") for n in names):
        return None
    return tuple(names)


def _class_fields(prog, ci):
    """field names of a class that *is* a named tuple: `class N(NamedTuple): a: T; b: U` or `class N(namedtuple(..)[, ..])`
    (a subclass that adds no field of its own)"""
    for b in ci.node.bases:
        f = _decl_fields(b)
        if f is not None:
            return f
        c = chain(b) or ""
        if c.split(".")[-1] == "NamedTuple":
            names = [st.target.id for st in ci.node.body if isinstance(st, ast.AnnAssign) and isinstance(st.target, ast.Name)]
            return tuple(names) if names else None
    for q in ci.bases:
        bi = prog.classes.get(q)
        if bi is not None and bi is not ci:
            f = _class_fields(prog, bi)
            if f is not None:
                return f
    return None


def record_fields(prog, qn):
    """field names by position of the named tuple the qualified name denotes (`aiocoap.pipe.Pipe.Event`: a class
    attribute bound to namedtuple(...), a nested / module-level NamedTuple class, or a module constant); None if the
    name does not denote a named-tuple declaration"""
    if not qn.startswith("aiocoap."):
        qn = "aiocoap." + qn
    ci = prog.classes.get(qn)
    if ci is not None:
        return _class_fields(prog, ci)
    owner, _, name = qn.rpartition(".")
    if owner in prog.classes:
        expr, _ci = prog.class_attr(owner, name)
        return _decl_fields(expr) if expr is not None else None
    if owner in prog.modules:
        try:
            return _decl_fields(prog.module_const(owner, name))
        except Exception:
            return None
    return None


def record_arg(call, field):
    """the value a record constructor call (a resolved Call the walker recognised as building a named tuple: it carries
    `_rec`, the declared field names) gives to `field` -- by keyword or by the field's declared position; None when the
    call is no record construction, has no such field, or leaves it to a default / a * argument"""
    fields = getattr(call, "_rec", None)
    if fields is None or field not in fields or not isinstance(call, ast.Call):
        return None
    i = fields.index(field)
    if any(isinstance(a, ast.Starred) for a in call.args) or any(k.arg is None for k in call.keywords):
        return None
    if i < len(call.args):
        return call.args[i]
    for k in call.keywords:
        if k.arg == field:
            return k.value
    return None


def _const_int(e):
    if isinstance(e, ast.Constant) and type(e.value) is int:
        return e.value
    if isinstance(e, ast.UnaryOp) and isinstance(e.op, ast.USub) and isinstance(e.operand, ast.Constant) and type(e.operand.value) is int:
        return -e.operand.value
    return None


class Event:
    __slots__ = ("kind", "node", "fi", "func", "args", "kw", "target", "value", "partial", "awaited", "inst", "stack", "maybe", "pure", "expr")

    def __init__(self, kind, node, fi, stack):
        self.kind = kind  # call | await (of something that is not a call) | store | del | raise
        self.node = node  # AST node in the analysed (canonical) tree
        self.fi = fi  # function that node belongs to
        self.stack = stack  # ((caller fi, call node), ...) outermost first
        self.func = None
        self.args = []
        self.kw = {}
        self.target = None
        self.value = None
        self.partial = False  # the statement was left through an exception edge
        self.awaited = False
        self.inst = None
        self.maybe = False  # sits in a conditionally evaluated part of an expression (IfExp arm, later BoolOp operand, comprehension)
        self.pure = False
        self.expr = None  # the resolved Call expression

    def arg(self, name, pos=None):
        if name is not None and name in self.kw:
            return self.kw[name]
        if pos is not None and pos < len(self.args) and not any(isinstance(a, ast.Starred) for a in self.args[: pos + 1]):
            return self.args[pos]
        return None

    def callee(self):
        return chain(self.func) if self.func is not None else None

    def __repr__(self):
        if self.kind in ("call", "await"):
            return "<%s %s%s>" % (self.kind, K(self.expr), " partial" if self.partial else "")
        if self.kind in ("store", "del"):
            return "<%s %s := %s>" % (self.kind, K(self.target), K(self.value))
        return "<%s %s>" % (self.kind, K(self.value))


class Dec:
    __slots__ = ("expr", "val", "key", "pos", "node", "fi")

    def __init__(self, expr, val, key, pos, node, fi):
        self.expr = expr  # resolved atom (positive form as written)
        self.val = val  # truth value of expr on this path
        self.key = key
        self.pos = pos  # number of events before the decision
        self.node = node
        self.fi = fi


class _St:
    __slots__ = ("events", "dec", "decl", "vals", "ver", "epoch", "n", "ret", "exc", "handled", "skip", "imps")

    def __init__(self):
        self.events = ()
        self.dec = {}
        self.decl = ()
        self.vals = {}
        self.ver = {}
        self.epoch = 0
        self.n = 0
        self.ret = None
        self.exc = None
        self.handled = None
        self.skip = ()
        self.imps = ()

    def fork(self):
        s = _St()
        s.events = self.events
        s.dec = dict(self.dec)
        s.decl = self.decl
        s.vals = dict(self.vals)
        s.ver = dict(self.ver)
        s.epoch = self.epoch
        s.n = self.n
        s.ret = self.ret
        s.exc = self.exc
        s.handled = self.handled
        s.imps = self.imps
        return s


class _Frame:
    def __init__(self, fi, clsqn, stack, depth, guarded=False):
        self.guarded = guarded  # some function this was followed from has a handler around the call
        self.fi = fi
        self.cfg = cfg_of(fi)
        self.clsqn = clsqn
        self.stack = stack
        self.depth = depth


class Outcome:
    def __init__(self, kind, value, st, env, walker):
        self.kind = kind  # return | raise
        self.value = value
        self.events = list(st.events)
        self.decisions = list(st.decl)
        self.dec = st.dec
        self.vals = st.vals
        self.env = env
        self.w = walker
        # implicit exceptions this path continued from, in order: (statement, its function, the statement's resolved
        # expressions, the handler entered, the handler's function, number of events before the handler)
        self.implicit = list(st.imps)

    # -- events -----------------------------------------------------------
    def calls(self, pred=None, partial=None):
        out = []
        for i, e in enumerate(self.events):
            if e.kind != "call":
                continue
            if partial is not None and e.partial != partial:
                continue
            if pred is None or pred(e):
                out.append((i, e))
        return out

    def stores(self, pred=None):
        return [(i, e) for i, e in enumerate(self.events) if e.kind in ("store", "del") and (pred is None or pred(e))]

    # -- decisions ----------------------------------------------------------
    def truth(self, e, extra=None):
        """three-valued truth of a (resolved, or free-name) boolean expression under the path's decisions"""
        return self.w._truth(e, self.dec, self.vals, extra)

    def decided(self, pred):
        """[(Dec, positive-form truth)] for decisions whose atom satisfies pred(expr)"""
        return [d for d in self.decisions if pred(d.expr)]

    def is_none(self, pred):
        """truth of `<s> is None` for a subject with pred(s), from any decision of that form (None: undecided)"""
        res = None
        for d in self.decisions:
            t = none_test(d.expr)
            if t is None:
                continue
            s, pol = t
            if pred(s):
                v = d.val == pol
                if res is not None and res != v:
                    return None
                res = v
        return res

    def present(self, v):
        """is the value known to be truthy / not None (True), falsy / None (False), or undecided (None)"""
        t = self.truth(v)
        if t is not None:
            return t
        kv = K(v)
        n = self.is_none(lambda s: K(s) == kv)
        if n is not None:
            return not n
        return None

    def describe(self):
        d = ["%s=%s" % kv for kv in sorted(self.vals.items())]
        d += ["%s%s" % ("" if x.val else "not ", K(x.expr)) for x in self.decisions]
        return ", ".join(d) or "<unconditional>"


def none_test(e):
    """(subject, polarity) when e is `<subject> is None` (pol True) / `is not None` (pol False) / == / !=, through `not`"""
    pol = True
    while isinstance(e, ast.UnaryOp) and isinstance(e.op, ast.Not):
        e = e.operand
        pol = not pol
    if isinstance(e, ast.Compare) and len(e.ops) == 1 and isinstance(e.ops[0], (ast.Is, ast.IsNot, ast.Eq, ast.NotEq)):
        l, r = e.left, e.comparators[0]
        if isinstance(l, ast.Constant) and l.value is None:
            l, r = r, l
        if isinstance(r, ast.Constant) and r.value is None and not (isinstance(l, ast.Constant)):
            if isinstance(e.ops[0], (ast.IsNot, ast.NotEq)):
                pol = not pol
            return l, pol
    return None


def const_test(e, value):
    """(subject, polarity) when e is `<subject> is <value>` for a constant value (False/True/...)"""
    pol = True
    while isinstance(e, ast.UnaryOp) and isinstance(e.op, ast.Not):
        e = e.operand
        pol = not pol
    if isinstance(e, ast.Compare) and len(e.ops) == 1 and isinstance(e.ops[0], (ast.Is, ast.IsNot, ast.Eq, ast.NotEq)):
        l, r = e.left, e.comparators[0]
        if isinstance(l, ast.Constant) and l.value is value and type(l.value) is type(value):
            l, r = r, l
        if isinstance(r, ast.Constant) and r.value is value and type(r.value) is type(value):
            if isinstance(e.ops[0], (ast.IsNot, ast.NotEq)):
                pol = not pol
            return l, pol
    return None


class Walker:
    def __init__(self, prog, subjects=None, loop_bound=1, max_outcomes=6000, max_depth=4, follow_helpers=True, opaque=None, implicit_cls=None, records=None, elem_records=None):
        self.prog = prog
        # records: {parameter name of the walked function: field names by position} -- the rule's declaration that the
        # parameter holds a named tuple of that layout; `p[i]`, `a, b, c = p`, `getattr(p, "f")`, `p[:2]`, `tuple(p)` are
        # then all read as `p.<field>`.  Values *built* on the path by a named-tuple constructor the program declares
        # (`self.Event(a, b, c)`) are recognised without a declaration and read back as their arguments.
        self.records = dict(records or {})
        # elem_records: {attribute chain of a container: field names by position of the named tuples it holds}; a field
        # read `el.f` of an element drawn from the container (or from a snapshot of it) is then read as `el[i]` -- the
        # form an unpacking `for a, b in container` resolves to as well
        self.elem_records = dict(elem_records or {})
        self.rec_uses = 0  # how often a positional / unpacking read of a declared record parameter was normalised
        self.root = None
        self._ctor_cache = {}
        self._ifexp_cache = {}  # id(expr) -> (contains a conditional expression, expr kept alive)
        # class of the implicit exceptions: None = an arbitrary Exception (every handler may take it, a handler for
        # Exception certainly does); a class name = exactly that class (handlers are selected through the hierarchy)
        self.implicit_cls = implicit_cls
        self.subjects = dict(subjects or {})
        self.loop_bound = loop_bound
        self.max_outcomes = max_outcomes
        self.max_depth = max_depth
        self.follow = follow_helpers
        self.opaque = opaque  # optional predicate FuncInfo -> bool: never follow
        self.base = _inline.baseline()
        self.followed = []  # qualified names of helpers that were followed (evidence)
        self.cuts = 0

    # ------------------------------------------------------------------ public
    def run(self, fi, env=None):
        self.root = fi
        fr = _Frame(fi, self._clsqn(fi), (), 0)
        outs = []
        for kind, val, st, env2 in self._run(fr, dict(env or {}), _St()):
            outs.append(Outcome(kind, val, st, env2, self))
            if len(outs) > self.max_outcomes:
                raise AnalysisError("symbolic walk of %s: more than %d paths" % (fi.short, self.max_outcomes))
        return outs

    def apply_callable(self, v, args=(), depth=0):
        """values a callable value may return when called with the (resolved) args: list of resolved expressions.
        lambda / nested def: the returned expressions; functools.partial(f, a..): f applied to a.. + args;
        anything else (bound method, function name): the call expression itself."""
        if depth > 4:
            return [None]
        if isinstance(v, ast.Lambda) and hasattr(v, "_cenv"):
            src = origin(v)
            env = dict(v._cenv)
            if not self._bind_lambda(src, v, list(args), {}, env):
                return [None]
            fr = v._fr
            st = _St()
            st.n = 100000
            return [self._R(src.body, env, fr, st, [], quiet=True)]
        if isinstance(v, ast.Name) and hasattr(v, "_closure"):
            fnode, cenv, fi, frp = v._closure
            env = dict(cenv)
            fr = _Frame(fi, frp.clsqn, frp.stack, frp.depth + 1)
            if not self._bind(fnode, None, list(args), {}, env, fr, "plain"):
                return [None]
            st = _St()
            st.n = 100000
            return [val for kind, val, st2, env2 in self._run(fr, env, st) if kind == "return"]
        if isinstance(v, ast.Call) and chain(v.func) in ("functools.partial", "partial") and v.args and not v.keywords:
            return self.apply_callable(v.args[0], list(v.args[1:]) + list(args), depth + 1)
        c = ast.Call(func=v, args=list(args), keywords=[])
        c._fi = getattr(v, "_fi", None)
        c._o = getattr(v, "_o", v)
        c._inst = None
        return [c]

    def cls_of(self, e):
        """qualified name a resolved Name/Attribute chain denotes in the module it was written in"""
        c = chain(e)
        fi = getattr(e, "_fi", None)
        if c is None or fi is None:
            return None
        return self.prog.resolve_in_module(fi.module, c)

    def exception_safe(self, ev, clsname="Exception"):
        """is an exception of class clsname raised by the call event ev taken by a handler -- in the function the call is
        written in, or in one of the functions it was followed from?  -> (frame fi, handler) or None"""
        frames = list(ev.stack) + [(ev.fi, ev.node)]
        for fi, node in reversed(frames):
            cfg = cfg_of(fi)
            child = node
            p = cfg.parent.get(id(node))
            while p is not None and p is not fi.node:
                if isinstance(p, ast.Try) and any(child is s for s in p.body):
                    for h in p.handlers:
                        if self._catches(h, clsname, fi) is True:
                            return fi, h
                if isinstance(p, (ast.FunctionDef, ast.AsyncFunctionDef, ast.Lambda)):
                    break
                child = p
                p = cfg.parent.get(id(p))
        return None

    # ------------------------------------------------------------------ helpers
    def _func_of_node(self, node):
        idx = getattr(self, "_by_node", None)
        if idx is None:
            idx = self._by_node = {id(f.node): f for f in self.prog.funcs.values()}
        return idx.get(id(node))

    def _clsqn(self, fi):
        f = fi
        while f is not None:
            if f.cls is not None:
                return f.cls.qn
            f = f.parent
        return None

    def _catches(self, h, clsq, fi):
        """True / False / None(unknown)"""
        if h.type is None:
            return True
        types = h.type.elts if isinstance(h.type, ast.Tuple) else [h.type]
        unknown = False
        for t in types:
            c = chain(t)
            if c is None:
                unknown = True
                continue
            q = self.prog.resolve_in_module(fi.module, c)
            if q == "BaseException":
                return True
            if clsq is None:
                unknown = True
                continue
            if q == clsq or self.prog.is_subclass(clsq, q):
                return True
            known = (q in self.prog.classes or q in _BUILTINS()) and (clsq in self.prog.classes or clsq in _BUILTINS())
            if not known:
                unknown = True
        return None if unknown else False

    def _narrower(self, h, fi):
        """does the handler name a class below Exception (or one the hierarchy does not know)?"""
        types = h.type.elts if isinstance(h.type, ast.Tuple) else [h.type]
        for t in types:
            c = chain(t)
            q = self.prog.resolve_in_module(fi.module, c) if c is not None else None
            if q is None or not (q in self.prog.classes or q in _BUILTINS()) or self.prog.is_subclass(q, "Exception"):
                return True
        return False

    def _exc_class(self, v):
        if v is None:
            return None
        e = v.func if isinstance(v, ast.Call) else v
        if getattr(v, "_implicit", False):
            return None
        return self.cls_of(e)

    # ------------------------------------------------------------------ records
    def _within_root(self, fi):
        while fi is not None:
            if fi is self.root:
                return True
            fi = fi.parent
        return False

    def rec_fields(self, v):
        """declared field names (by position) when the resolved value v is known to be a named tuple: a parameter of
        the walked function the rule declared as one (read free, i.e. not rebound on the path, not a lambda's own
        parameter, not a name of a followed helper), a constructor call of a named-tuple declaration, or the result
        of `_replace` on either"""
        if isinstance(v, ast.Name):
            if v.id in self.records and getattr(v, "_inst", None) is None and not getattr(v, "_lam", False) and not hasattr(v, "_closure") \
                    and self._within_root(getattr(v, "_fi", None)):
                return self.records[v.id]
            return None
        if isinstance(v, (ast.Call, ast.Tuple)):
            return getattr(v, "_rec", None)
        return None

    def elem_layout(self, v):
        """field names when v is an element drawn from a container declared in elem_records (directly, from a slice /
        list() / tuple() / reversed() / sorted() / .copy() snapshot of it, or through enumerate())"""
        if not self.elem_records:
            return None
        if isinstance(v, ast.Subscript) and isinstance(v.slice, ast.Constant) and v.slice.value == 1 and isinstance(v.value, ast.Call) and hasattr(v.value, "_elem_of"):
            it = v.value._elem_of
            if isinstance(it, ast.Call) and chain(it.func) == "enumerate" and it.args:
                return self._container_layout(it.args[0])
            return None
        if isinstance(v, ast.Call) and hasattr(v, "_elem_of"):
            return self._container_layout(v._elem_of)
        return None

    def _container_layout(self, it):
        for _ in range(6):
            c = chain(it)
            if c is not None:
                return self.elem_records.get(c)
            if isinstance(it, ast.Subscript) and isinstance(it.slice, ast.Slice):
                it = it.value
            elif isinstance(it, ast.Call) and chain(it.func) in ("list", "tuple", "reversed", "sorted") and len(it.args) == 1 and not it.keywords:
                it = it.args[0]
            elif isinstance(it, ast.Call) and isinstance(it.func, ast.Attribute) and it.func.attr == "copy" and not it.args:
                it = it.func.value
            else:
                return None
        return None

    def ctor_layout(self, fi, call):
        """field names when the (unresolved) call expression, written in function fi, constructs a named tuple"""
        if not isinstance(call, ast.Call):
            return None
        f = clone(call.func)
        for n in ast.walk(f):
            n._fi = fi
        return self._ctor_fields(f)

    def _ctor_fields(self, func):
        """field names when the resolved callee denotes a named-tuple declaration of the program: `self.Event`,
        `cls.Event`, `type(self).Event`, `self.__class__.Event`, `Pipe.Event`, `pipe.Pipe.Event`, a module-level or
        imported name -- resolved in the module (and class) the expression was written in"""
        fi = getattr(func, "_fi", None)
        if fi is None or not isinstance(func, (ast.Name, ast.Attribute)):
            return None
        c = chain(func)
        if c is None:
            b = func.value if isinstance(func, ast.Attribute) else None
            if isinstance(b, ast.Call) and chain(b.func) == "type" and len(b.args) == 1 and not b.keywords and chain(b.args[0]) in ("self", "cls"):
                c = "self." + func.attr
            else:
                return None
        parts = c.split(".")
        if parts[0] in ("self", "cls") and len(parts) > 2 and parts[1] == "__class__":
            parts = [parts[0]] + parts[2:]
        own = parts[0] in ("self", "cls")
        clsqn = self._clsqn(fi) if own else None
        key = (fi.module.name, clsqn, ".".join(parts))
        if key in self._ctor_cache:
            return self._ctor_cache[key]
        res = None
        if own:
            if clsqn is not None and len(parts) == 2:
                expr, _ci = self.prog.class_attr(clsqn, parts[1])
                if expr is not None:
                    res = _decl_fields(expr)
                else:
                    for q in self.prog.mro(clsqn):
                        ci = self.prog.classes.get(q + "." + parts[1])
                        if ci is not None:
                            res = _class_fields(self.prog, ci)
                            break
        else:
            q = self.prog.resolve_in_module(fi.module, ".".join(parts))
            if q.startswith("aiocoap."):
                res = record_fields(self.prog, q)
        self._ctor_cache[key] = res
        return res

    def _mk_attr(self, v, attr, node, fr, st):
        """the (versioned) read of attribute attr of the resolved value v"""
        new = self._tag(ast.Attribute(value=v, attr=attr, ctx=ast.Load()), node, fr)
        kt = K(new)
        ver = st.ver.get(kt, 0) if st is not None else 0
        root = v
        while isinstance(root, (ast.Attribute, ast.Subscript)):
            root = root.value
        ep = st.epoch if (st is not None and isinstance(root, ast.Name) and root.id in ("self", "cls") and getattr(root, "_inst", None) is None) else 0
        if ver or ep:
            new._tag = (ver, ep)
            new._k = None
        return new

    def _known_len(self, v):
        """number of components of a value whose layout is known: a record, or a tuple / list display"""
        f = self.rec_fields(v)
        if f is not None:
            if isinstance(v, ast.Tuple) and (len(v.elts) != len(f) or any(isinstance(x, ast.Starred) for x in v.elts)):
                return None
            return len(f)
        if isinstance(v, (ast.Tuple, ast.List)) and not any(isinstance(x, ast.Starred) for x in v.elts):
            return len(v.elts)
        return None

    def _component(self, v, i, node, fr, st):
        """component i (0 <= i < known length) of v: a record parameter's component is the read of the field declared
        at that position, a constructed record's is the constructor argument, a display's its element; None: unknown"""
        f = self.rec_fields(v)
        if f is not None:
            if isinstance(v, ast.Name):
                self.rec_uses += 1
                return self._mk_attr(v, f[i], node, fr, st)
            if isinstance(v, ast.Tuple):
                return v.elts[i]
            return record_arg(v, f[i])
        if isinstance(v, (ast.Tuple, ast.List)):
            return v.elts[i]
        return None

    def _components(self, v, node, fr, st):
        n = self._known_len(v)
        if n is None:
            return None
        parts = [self._component(v, i, node, fr, st) for i in range(n)]
        return None if any(x is None for x in parts) else parts

    def _subscript(self, v, sl, node, fr, st):
        """`v[<constant index>]` / `v[<constant slice>]` of a value with known layout -> the component(s); else None"""
        n = self._known_len(v)
        if n is None:
            return None
        i = _const_int(sl)
        if i is not None:
            return self._component(v, i % n, node, fr, st) if -n <= i < n else None
        if isinstance(sl, ast.Slice):
            bounds = []
            for b in (sl.lower, sl.upper, sl.step):
                bi = None if b is None else _const_int(b)
                if b is not None and bi is None:
                    return None
                bounds.append(bi)
            if bounds[2] == 0:
                return None
            parts = [self._component(v, j, node, fr, st) for j in range(n)[slice(*bounds)]]
            if any(x is None for x in parts):
                return None
            return self._tag((ast.List if isinstance(v, ast.List) else ast.Tuple)(elts=parts, ctx=ast.Load()), node, fr)
        return None

    def _replaced(self, v, kws, node, fr, st):
        """`v._replace(f=x, ..)` of a record -> the record with those fields exchanged (a constructor call again when v
        is one, else a tuple that remembers its layout)"""
        f = self.rec_fields(v)
        if f is None or any(k.arg is None or k.arg not in f for k in kws):
            return None
        parts = self._components(v, node, fr, st)
        if parts is None:
            return None
        given = {k.arg: k.value for k in kws}
        elts = [given.get(name, old) for name, old in zip(f, parts)]
        if isinstance(v, ast.Call):
            new = self._tag(ast.Call(func=v.func, args=elts, keywords=[]), node, fr)
            new._pure, new._inst = True, None
        else:
            new = self._tag(ast.Tuple(elts=elts, ctx=ast.Load()), node, fr)
        new._rec = f
        return new

    # ------------------------------------------------------------------ resolution
    def _tag(self, new, node, fr):
        new._o = getattr(node, "_o", node)
        new._fi = getattr(node, "_fi", fr.fi)
        return new

    def _R(self, e, env, fr, st, evs, quiet=False, repl=None, maybe=False):
        """resolved copy of expression e under env; call events are appended to evs (unless quiet)"""
        if e is None:
            return None
        if repl and id(e) in repl:
            return repl[id(e)]
        R = lambda x, mb=maybe, en=env: self._R(x, en, fr, st, evs, quiet, repl, mb)
        if isinstance(e, ast.Name):
            if isinstance(e.ctx, ast.Load) and e.id in env and env[e.id] is not None:
                return env[e.id]
            return self._tag(ast.Name(id=e.id, ctx=ast.Load()), e, fr)
        if isinstance(e, ast.Constant):
            return self._tag(ast.Constant(value=e.value), e, fr)
        if isinstance(e, ast.Attribute):
            v = R(e.value)
            if isinstance(v, (ast.Call, ast.Tuple)):
                # a field of a record built on this path is what the constructor was given for it
                f = self.rec_fields(v)
                if f is not None and e.attr in f and self._known_len(v) is not None:
                    r = self._component(v, f.index(e.attr), e, fr, st)
                    if r is not None:
                        return r
            lay = self.elem_layout(v)
            if lay is not None and e.attr in lay:
                return self._index(v, lay.index(e.attr), e, fr, st)
            return self._mk_attr(v, e.attr, e, fr, st)
        if isinstance(e, ast.Subscript):
            v = R(e.value)
            sl = R(e.slice)
            r = self._subscript(v, sl, e, fr, st)
            if r is not None:
                return r
            return self._tag(ast.Subscript(value=v, slice=sl, ctx=ast.Load()), e, fr)
        if isinstance(e, ast.Await):
            v = R(e.value)
            new = self._tag(ast.Await(value=v), e, fr)
            if isinstance(v, ast.Call) and evs and evs[-1].expr is v:
                evs[-1].awaited = True
            elif not quiet:
                # awaiting something that was created elsewhere (a coroutine object, a future): an event of its own
                ev = Event("await", origin(e), new._fi, fr.stack)
                ev.value, ev.awaited, ev.maybe, ev.expr = v, True, maybe, new
                ev.inst = new._inst = st.n
                st.n += 1
                evs.append(ev)
                st.epoch += 1
            return new
        if isinstance(e, ast.Call):
            if isinstance(e.func, ast.Name) and e.func.id == "getattr" and env.get("getattr") is None and len(e.args) == 2 and not e.keywords \
                    and isinstance(e.args[1], (ast.Constant, ast.Name)):
                # getattr(x, "name") is x.name
                nm = R(e.args[1])
                if isinstance(nm, ast.Constant) and isinstance(nm.value, str) and nm.value.isidentifier():
                    a_ = ast.Attribute(value=e.args[0], attr=nm.value, ctx=ast.Load())
                    a_._o, a_._fi = origin(e), getattr(e, "_fi", fr.fi)
                    return R(a_)
            func = R(e.func)
            args = [R(a) for a in e.args]
            kws = [self._tag(ast.keyword(arg=k.arg, value=R(k.value)), k, fr) for k in e.keywords]
            if any(isinstance(a, ast.Starred) for a in args):
                # f(*t) with t of known layout is f(t0, t1, ..)
                flat = []
                for a in args:
                    parts = self._components(a.value, e, fr, st) if isinstance(a, ast.Starred) else None
                    flat.extend(parts if parts is not None else [a])
                args = flat
            if isinstance(func, ast.Name) and func.id in ("tuple", "list") and len(args) == 1 and not kws and self.rec_fields(args[0]) is not None:
                # tuple(record): its components in declared order
                parts = self._components(args[0], e, fr, st)
                if parts is not None:
                    return self._tag((ast.List if func.id == "list" else ast.Tuple)(elts=parts, ctx=ast.Load()), e, fr)
            if isinstance(func, ast.Attribute) and func.attr == "_replace" and not args:
                r = self._replaced(func.value, kws, e, fr, st)
                if r is not None:
                    return r
            if isinstance(func, ast.Attribute) and func.attr == "_make" and len(args) == 1 and not kws and self._ctor_fields(func.value) is not None:
                parts = self._components(args[0], e, fr, st)
                if parts is not None and len(parts) == len(self._ctor_fields(func.value)):
                    func, args = func.value, parts
            for _ in range(3):
                # calling functools.partial(f, a.., k=v..) with (b..) is calling f(a.., b.., k=v..)
                if isinstance(func, ast.Call) and chain(func.func) in ("functools.partial", "partial") and func.args and not any(isinstance(x, ast.Starred) for x in func.args) \
                        and not any(k.arg is None for k in func.keywords):
                    given = {k.arg for k in kws}
                    args = list(func.args[1:]) + args
                    kws = [k for k in func.keywords if k.arg not in given] + kws
                    func = func.args[0]
                else:
                    break
            new = self._tag(ast.Call(func=func, args=args, keywords=kws), e, fr)
            fname = chain(func) or ""
            pure = fname in PURE_FUNCS or (isinstance(func, ast.Attribute) and (func.attr in PURE_METHODS or func.attr.startswith("is_")))
            new._pure = pure
            rec = self._ctor_fields(func)
            if rec is not None:
                new._rec = rec
            if not pure and isinstance(e.func, (ast.Name, ast.Attribute)):
                # a call the walk did not follow although it denotes a function of the analysed program: its result and
                # its effects are unknown to the rules (`_unfollowed`: that function)
                try:
                    cal = self._callee(e, env, fr, strict=False)
                except Exception:
                    cal = None
                if cal is not None and cal[0] in ("plain", "method", "closure"):
                    new._unfollowed = cal[1] if cal[0] != "closure" else cal[1]._closure[2]
            if quiet:
                new._inst = None
                return new
            new._inst = st.n
            st.n += 1
            ev = Event("call", origin(e), new._fi, fr.stack)
            ev.func, ev.args, ev.kw = func, args, {k.arg: k.value for k in kws if k.arg is not None}
            ev.inst, ev.maybe, ev.pure, ev.expr = new._inst, maybe, pure, new
            evs.append(ev)
            if not pure and not is_log_call(e):
                st.epoch += 1
            return new
        if isinstance(e, ast.Lambda):
            a = e.args
            bound = {x.arg for x in a.posonlyargs + a.args + a.kwonlyargs}
            if a.vararg:
                bound.add(a.vararg.arg)
            if a.kwarg:
                bound.add(a.kwarg.arg)
            env2 = {k: v for k, v in env.items() if k not in bound}
            for b in bound:
                if b in self.records:
                    # the lambda's own parameter, not the record parameter of the walked function
                    own = self._tag(ast.Name(id=b, ctx=ast.Load()), e, fr)
                    own._lam = True
                    env2[b] = own
            body = self._R(e.body, env2, fr, st, [], True, repl, maybe)
            new = self._tag(ast.Lambda(args=a, body=body), e, fr)
            new._cenv = env
            new._fr = fr
            new._defaults = [R(d) for d in a.defaults]
            new._kwdefaults = [R(d) if d is not None else None for d in a.kw_defaults]
            return new
        if isinstance(e, (ast.ListComp, ast.SetComp, ast.GeneratorExp, ast.DictComp)):
            env2 = dict(env)
            gens = []
            for g in e.generators:
                it = self._R(g.iter, env2, fr, st, evs, quiet, repl, maybe)
                el = self._elem(it, g.iter, fr, st, quiet)
                self._bind_target(g.target, el, env2, fr, st, None)
                ifs = [self._R(c, env2, fr, st, evs, quiet, repl, True) for c in g.ifs]
                gens.append(self._tag(ast.comprehension(target=clone(g.target), iter=it, ifs=ifs, is_async=g.is_async), g, fr))
            if isinstance(e, ast.DictComp):
                new = ast.DictComp(key=self._R(e.key, env2, fr, st, evs, quiet, repl, True), value=self._R(e.value, env2, fr, st, evs, quiet, repl, True), generators=gens)
            else:
                new = type(e)(elt=self._R(e.elt, env2, fr, st, evs, quiet, repl, True), generators=gens)
            return self._tag(new, e, fr)
        if isinstance(e, ast.NamedExpr):
            v = R(e.value)
            env[e.target.id] = v
            return v
        if isinstance(e, ast.IfExp):
            t = R(e.test)
            tv = self._truth(t, st.dec, st.vals)
            if tv is True:
                return R(e.body)
            if tv is False:
                return R(e.orelse)
            return self._tag(ast.IfExp(test=t, body=R(e.body, True), orelse=R(e.orelse, True)), e, fr)
        if isinstance(e, ast.BoolOp):
            vals = [R(e.values[0])] + [R(v, True) for v in e.values[1:]]
            return self._tag(ast.BoolOp(op=e.op, values=vals), e, fr)
        # generic
        new = type(e)()
        for f in e._fields:
            if not hasattr(e, f):
                continue
            v = getattr(e, f)
            if isinstance(v, list):
                v = [R(x) if isinstance(x, ast.expr) else (self._Rmisc(x, R, fr) if isinstance(x, ast.AST) else x) for x in v]
            elif isinstance(v, ast.expr):
                v = R(v)
            elif isinstance(v, ast.AST):
                v = self._Rmisc(v, R, fr)
            setattr(new, f, v)
        if isinstance(new, (ast.Subscript, ast.Starred, ast.List, ast.Tuple)):
            new.ctx = ast.Load()
        return self._tag(new, e, fr)

    def _Rmisc(self, x, R, fr):
        if isinstance(x, ast.keyword):
            return self._tag(ast.keyword(arg=x.arg, value=R(x.value)), x, fr)
        if isinstance(x, (ast.expr_context, ast.operator, ast.unaryop, ast.boolop, ast.cmpop)):
            return type(x)()
        return clone(x)

    def _elem(self, it, node, fr, st, quiet=False):
        el = ast.Call(func=ast.Name(id="__elem__", ctx=ast.Load()), args=[it], keywords=[])
        el._o = getattr(node, "_o", node)
        el._fi = fr.fi
        el._pure = False
        el._elem_of = it
        if quiet:
            el._inst = None
        else:
            el._inst = st.n
            st.n += 1
        return el

    def _index(self, v, i, node, fr, st=None):
        n = self._known_len(v)
        if n is not None and i < n:
            r = self._component(v, i, node, fr, st)
            if r is not None:
                return r
        s = ast.Subscript(value=v, slice=ast.Constant(value=i), ctx=ast.Load())
        s._o = getattr(node, "_o", node)
        s._fi = fr.fi
        return s

    def _bind_target(self, t, v, env, fr, st, evs, stmt=None):
        """bind assignment target t to resolved value v; attribute / subscript targets become store events"""
        if isinstance(t, ast.Name):
            env[t.id] = v
        elif isinstance(t, (ast.Tuple, ast.List)):
            if any(isinstance(x, ast.Starred) for x in t.elts):
                comps = self._components(v, t, fr, st)
                stars = [j for j, x in enumerate(t.elts) if isinstance(x, ast.Starred)]
                if comps is not None and len(stars) == 1 and len(comps) >= len(t.elts) - 1:
                    # `first, *rest = v` with v of known layout: exact
                    j = stars[0]
                    tail = len(t.elts) - 1 - j
                    mid = self._tag(ast.List(elts=comps[j:len(comps) - tail], ctx=ast.Load()), t, fr)
                    vals_ = comps[:j] + [mid] + comps[len(comps) - tail:]
                    for x, p in zip(t.elts, vals_):
                        self._bind_target(x.value if isinstance(x, ast.Starred) else x, p, env, fr, st, evs, stmt)
                    return
                for x in t.elts:
                    y = x.value if isinstance(x, ast.Starred) else x
                    self._bind_target(y, self._elem(v, t, fr, st), env, fr, st, evs, stmt)
                return
            # right-hand sides are evaluated before any target is bound
            parts = [self._index(v, i, t, fr, st) for i in range(len(t.elts))]
            for x, p in zip(t.elts, parts):
                self._bind_target(x, p, env, fr, st, evs, stmt)
        elif isinstance(t, (ast.Attribute, ast.Subscript)):
            if evs is None:
                return
            if isinstance(t, ast.Attribute):
                base = self._R(t.value, env, fr, st, evs)
                tgt = self._tag(ast.Attribute(value=base, attr=t.attr, ctx=ast.Load()), t, fr)
            else:
                base = self._R(t.value, env, fr, st, evs)
                sl = self._R(t.slice, env, fr, st, evs)
                tgt = self._tag(ast.Subscript(value=base, slice=sl, ctx=ast.Load()), t, fr)
            ev = Event("store", origin(stmt if stmt is not None else t), fr.fi, fr.stack)
            ev.target, ev.value = tgt, v
            evs.append(ev)
            kt = K(tgt)
            st.ver[kt] = st.ver.get(kt, 0) + 1

    # ------------------------------------------------------------------ truth
    def _static(self, e):
        """truth of e decidable from its form alone, else None"""
        if isinstance(e, ast.Constant):
            return bool(e.value)
        if isinstance(e, ast.UnaryOp) and isinstance(e.op, ast.Not):
            v = self._static(e.operand)
            return None if v is None else not v
        t = none_test(e)
        if t is not None:
            s, pol = t
            nn = self._not_none(s)
            if nn is True:
                return not pol
            if nn is False:
                return pol
            return None
        if isinstance(e, ast.Compare) and len(e.ops) == 1 and isinstance(e.ops[0], (ast.Is, ast.IsNot)):
            l, r = e.left, e.comparators[0]
            if isinstance(l, ast.Constant) and isinstance(r, ast.Constant) and (l.value is None or isinstance(l.value, bool)) and (r.value is None or isinstance(r.value, bool)):
                same = l.value is r.value
                return same if isinstance(e.ops[0], ast.Is) else not same
            for a, b in ((l, r), (r, l)):
                if isinstance(b, ast.Constant) and (b.value is None or isinstance(b.value, bool)) and self._not_none(a) is True and self._is_object(a):
                    return isinstance(e.ops[0], ast.IsNot)
        if isinstance(e, ast.Lambda) or (isinstance(e, ast.Name) and hasattr(e, "_closure")):
            return True
        return None

    def _is_object(self, s):
        """a freshly constructed instance of a package class (is neither None nor a bool)"""
        if isinstance(s, ast.Call):
            q = self.cls_of(s.func)
            return q is not None and q in self.prog.classes
        return False

    def _not_none(self, s):
        """True: s is certainly not None; False: s is None; None: unknown"""
        if isinstance(s, ast.Constant):
            return s.value is not None
        if isinstance(s, (ast.Lambda, ast.Tuple, ast.List, ast.Dict, ast.Set, ast.JoinedStr, ast.ListComp, ast.DictComp, ast.SetComp)):
            return True
        if isinstance(s, ast.Name) and hasattr(s, "_closure"):
            return True
        if self._is_object(s):
            return True
        return None

    def _subject_test(self, e):
        if not self.subjects:
            return None
        pol = True
        while isinstance(e, ast.UnaryOp) and isinstance(e.op, ast.Not):
            e = e.operand
            pol = not pol
        if not (isinstance(e, ast.Compare) and len(e.ops) == 1):
            return None
        op, l, r = e.ops[0], e.left, e.comparators[0]
        s, other = K(l), r
        if s not in self.subjects and isinstance(op, (ast.Eq, ast.NotEq, ast.Is, ast.IsNot)):
            s, other = K(r), l
        if s not in self.subjects:
            return None
        uni = self.subjects[s]
        if isinstance(op, (ast.Eq, ast.Is, ast.NotEq, ast.IsNot)):
            c = chain(other)
            if c is None or c.split(".")[-1] not in uni:
                return None
            vals = {c.split(".")[-1]}
            if isinstance(op, (ast.NotEq, ast.IsNot)):
                vals = set(uni) - vals
        elif isinstance(op, (ast.In, ast.NotIn)) and isinstance(other, (ast.Tuple, ast.List, ast.Set)):
            cs = [chain(x) for x in other.elts]
            if any(c is None or c.split(".")[-1] not in uni for c in cs):
                return None
            vals = {c.split(".")[-1] for c in cs}
            if isinstance(op, ast.NotIn):
                vals = set(uni) - vals
        else:
            return None
        return s, (vals if pol else set(uni) - vals)

    def _truth(self, e, dec, vals, extra=None):
        if isinstance(e, str):
            e = parse(e)
        if isinstance(e, ast.BoolOp):
            vs = [self._truth(v, dec, vals, extra) for v in e.values]
            if isinstance(e.op, ast.And):
                if any(v is False for v in vs):
                    return False
                return True if all(v is True for v in vs) else None
            if any(v is True for v in vs):
                return True
            return False if all(v is False for v in vs) else None
        if isinstance(e, ast.UnaryOp) and isinstance(e.op, ast.Not):
            v = self._truth(e.operand, dec, vals, extra)
            return None if v is None else (not v)
        if isinstance(e, ast.IfExp):
            t = self._truth(e.test, dec, vals, extra)
            if t is None:
                a, b = self._truth(e.body, dec, vals, extra), self._truth(e.orelse, dec, vals, extra)
                return a if a == b else None
            return self._truth(e.body if t else e.orelse, dec, vals, extra)
        if isinstance(e, ast.Compare) and len(e.ops) > 1:
            left, res = e.left, True
            for op, right in zip(e.ops, e.comparators):
                v = self._truth(ast.Compare(left=left, ops=[op], comparators=[right]), dec, vals, extra)
                if v is False:
                    return False
                if v is None:
                    res = None
                left = right
            return res
        if isinstance(e, ast.Call) and chain(e.func) == "bool" and len(e.args) == 1 and not e.keywords:
            return self._truth(e.args[0], dec, vals, extra)
        s = self._static(e)
        if s is not None:
            return s
        stt = self._subject_test(e)
        if stt is not None:
            sub, tv = stt
            if sub in vals:
                return vals[sub] in tv
            return None
        k, pol = atom_key(_plain(e))
        if extra and k in extra:
            return extra[k] == pol
        if k in dec:
            return dec[k] == pol
        return None

    def atoms(self, e, out=None):
        """atom keys of the leaves of a boolean expression"""
        out = [] if out is None else out
        if isinstance(e, ast.BoolOp):
            for v in e.values:
                self.atoms(v, out)
        elif isinstance(e, ast.UnaryOp) and isinstance(e.op, ast.Not):
            self.atoms(e.operand, out)
        elif isinstance(e, ast.IfExp):
            for v in (e.test, e.body, e.orelse):
                self.atoms(v, out)
        elif isinstance(e, ast.Call) and chain(e.func) == "bool" and len(e.args) == 1 and not e.keywords:
            self.atoms(e.args[0], out)
        elif self._static(e) is None:
            k, pol = atom_key(_plain(e))
            if k not in out:
                out.append(k)
        return out

    def equiv(self, o, a, b):
        """are the truth values of a and b equal on outcome o, for every assignment to the atoms o leaves undecided?"""
        if isinstance(a, str):
            a = parse(a)
        if isinstance(b, str):
            b = parse(b)
        free = [k for k in self.atoms(a, self.atoms(b)) if k not in o.dec]
        if len(free) > 8:
            return False
        for m in range(1 << len(free)):
            extra = {k: bool(m >> i & 1) for i, k in enumerate(free)}
            ta, tb = o.truth(a, extra), o.truth(b, extra)
            if ta is None or tb is None or ta != tb:
                return False
        return True

    # ------------------------------------------------------------------ helper resolution
    def _followable(self, fi):
        if not self.follow or fi is None:
            return False
        if fi.qn in self.base or fi.qn.split("#")[0] in self.base:
            return False
        if self.opaque is not None and self.opaque(fi):
            return False
        n = fi.node
        if isinstance(n, ast.Lambda):
            return True
        if n.name.startswith("__") and n.name.endswith("__"):
            return False
        if _inline._decorator_kind(n) is None:
            return False
        a = n.args
        if a.vararg or a.kwarg:
            return False
        for x in _inline._own_nodes(n):
            if isinstance(x, (ast.Yield, ast.YieldFrom)):
                return False
        return True

    def _overridden(self, owner, name):
        n = 0
        for q in set(self.prog.subclasses(owner)) | set(self.prog.mro(owner)):
            ci = self.prog.classes.get(q)
            if ci is not None and name in ci.methods:
                n += 1
        return n > 1

    def _callee(self, call, env, fr, strict=True):
        """-> (kind, FuncInfo|value, recv expr or None) for a call that is followed, else None.
        kind: plain (no implicit receiver) | method (receiver bound to first parameter) | lambda | closure
        strict=False: the function of the analysed program the call statically denotes, whether or not the walk may
        follow it (confirmed-tree functions, decorated / overridden / generator helpers included)"""
        ok = (lambda fi: True) if not strict else self._followable
        over = (lambda q, n: False) if not strict else self._overridden
        f = call.func
        if isinstance(f, ast.Name):
            v = env.get(f.id)
            if isinstance(v, ast.Lambda) and hasattr(v, "_cenv"):
                return ("lambda", v, None)
            if isinstance(v, ast.Name) and hasattr(v, "_closure"):
                fi = v._closure[2]
                return ("closure", v, None) if ok(fi) else None
            if v is not None:
                return None
            # a free name of a nested function: a def of an enclosing function (sibling closure), bound there exactly once
            scope = fr.fi
            while scope is not None:
                if _binds_local(scope.node, f.id):
                    return None  # a local of this scope the walk has no value for
                outer = scope.parent
                if outer is None:
                    break
                fi = self.prog.funcs.get(outer.qn + ".<locals>." + f.id)
                if fi is not None:
                    if (outer.qn + ".<locals>." + f.id + "#2") in self.prog.funcs or _binds_local(outer.node, f.id, defs=False) or not ok(fi):
                        return None
                    return ("plain", fi, None)
                scope = outer
            q = self.prog.resolve_in_module(fr.fi.module, f.id)
            fi = self.prog.funcs.get(q)
            if fi is not None and fi.cls is None and fi.parent is None and ok(fi):
                return ("plain", fi, None)
            return None
        if isinstance(f, ast.Attribute):
            recv = f.value
            rv = env.get(recv.id) if isinstance(recv, ast.Name) else None
            rt = chain(rv) if rv is not None else (ast.unparse(recv) if not isinstance(recv, ast.Call) or ast.unparse(recv) in ("type(self)",) else None)
            if rt in ("self", "cls", "type(self)", "self.__class__") and fr.clsqn is not None:
                fi = self.prog.lookup_method(fr.clsqn, f.attr)
                if fi is None or not ok(fi) or over(fi.cls.qn, f.attr):
                    return None
                dk = _inline._decorator_kind(fi.node)
                if dk == "static":
                    return ("plain", fi, None)
                return ("method", fi, recv)
            c = chain(recv)
            if c is not None and rv is None:
                q = self.prog.resolve_in_module(fr.fi.module, c)
                if q in self.prog.classes:
                    fi = self.prog.lookup_method(q, f.attr)
                    if fi is None or not ok(fi) or over(fi.cls.qn, f.attr):
                        return None
                    dk = _inline._decorator_kind(fi.node)
                    if dk == "class":
                        return ("method", fi, recv)
                    return ("plain", fi, None)
                fi = self.prog.funcs.get(q + "." + f.attr)
                if fi is not None and fi.cls is None and fi.parent is None and ok(fi):
                    return ("plain", fi, None)
        return None

    def _bind(self, fnode, recv_val, args, kws, env, fr, kind, defaults_env=None):
        a = fnode.args
        ps = [x.arg for x in a.posonlyargs + a.args]
        if kind == "method":
            if not ps:
                return False
            env[ps[0]] = recv_val
            ps = ps[1:]
        if any(isinstance(x, ast.Starred) for x in args) or None in kws:
            return False
        if len(args) > len(ps):
            return False
        bound = set()
        for p, v in zip(ps, args):
            env[p] = v
            bound.add(p)
        names = ps + [x.arg for x in a.kwonlyargs]
        for k, v in kws.items():
            if k not in names or k in bound:
                return False
            env[k] = v
            bound.add(k)
        allps = [x.arg for x in a.posonlyargs + a.args]
        dflt = dict(zip(allps[len(allps) - len(a.defaults):], a.defaults))
        dflt.update({x.arg: d for x, d in zip(a.kwonlyargs, a.kw_defaults) if d is not None})
        st = _St()
        for p in names:
            if p not in bound:
                if p not in dflt:
                    return False
                env[p] = self._R(dflt[p], {}, fr, st, [], quiet=True)
        return True

    def _bind_lambda(self, src, v, args, kws, env):
        a = src.args
        ps = [x.arg for x in a.posonlyargs + a.args]
        if a.vararg or a.kwarg or len(args) > len(ps) or any(isinstance(x, ast.Starred) for x in args):
            return False
        dflt = dict(zip(ps[len(ps) - len(a.defaults):], v._defaults))
        dflt.update({x.arg: d for x, d in zip(a.kwonlyargs, v._kwdefaults) if d is not None})
        names = ps + [x.arg for x in a.kwonlyargs]
        bound = set()
        for p, x in zip(ps, args):
            env[p] = x
            bound.add(p)
        for k, x in kws.items():
            if k not in names or k in bound:
                return False
            env[k] = x
            bound.add(k)
        for p in names:
            if p not in bound:
                if p not in dflt:
                    return False
                env[p] = dflt[p]
        return True

    def _quiet_truth(self, test, env, fr, st):
        """(resolved test, its truth under the path's decisions) without recording anything"""
        t = self._R(test, dict(env), fr, st.fork(), [], quiet=True)
        return t, self._truth(t, st.dec, st.vals)

    def _pure_test(self, e):
        """evaluating e twice gives the same value and has no effect: no call other than the pure built-ins / `is_*()`
        queries, no await, no walrus"""
        for n in ast.walk(e):
            if isinstance(n, (ast.Await, ast.NamedExpr, ast.Yield, ast.YieldFrom, ast.Lambda, ast.ListComp, ast.SetComp, ast.DictComp, ast.GeneratorExp)):
                return False
            if isinstance(n, ast.Call):
                f = n.func
                if not ((isinstance(f, ast.Name) and f.id in PURE_FUNCS) or (isinstance(f, ast.Attribute) and (f.attr in PURE_METHODS or f.attr.startswith("is_")))):
                    return False
        return True

    def _undecided_leaf(self, t, st):
        """first atomic condition (in evaluation order) of the resolved boolean expression t the path has not decided"""
        if isinstance(t, ast.BoolOp):
            for v in t.values:
                r = self._undecided_leaf(v, st)
                if r is not None:
                    return r
                tv = self._truth(v, st.dec, st.vals)
                if (isinstance(t.op, ast.And) and tv is False) or (isinstance(t.op, ast.Or) and tv is True):
                    return None
            return None
        if isinstance(t, ast.UnaryOp) and isinstance(t.op, ast.Not):
            return self._undecided_leaf(t.operand, st)
        if isinstance(t, ast.IfExp):
            r = self._undecided_leaf(t.test, st)
            if r is not None:
                return r
            tv = self._truth(t.test, st.dec, st.vals)
            return self._undecided_leaf(t.body if tv else t.orelse, st) if tv is not None else None
        if isinstance(t, ast.Compare) and len(t.ops) > 1:
            return None
        if isinstance(t, ast.Call) and chain(t.func) == "bool" and len(t.args) == 1 and not t.keywords:
            return self._undecided_leaf(t.args[0], st)
        return t if self._truth(t, st.dec, st.vals) is None else None

    def _open_ifexp(self, exprs, env, fr, st):
        """the first conditional expression (evaluation order, outside lambdas / comprehensions) among the statement's
        expressions whose test the path has not decided and which is pure -> (resolved undecided leaf, IfExp node)"""
        found = []

        def visit(n):
            if found or isinstance(n, (ast.Lambda, ast.FunctionDef, ast.AsyncFunctionDef, ast.ClassDef, ast.ListComp, ast.SetComp, ast.DictComp, ast.GeneratorExp)):
                return
            if isinstance(n, ast.IfExp):
                visit(n.test)
                if found:
                    return
                if not self._pure_test(n.test):
                    return
                t, tv = self._quiet_truth(n.test, env, fr, st)
                if tv is None:
                    leaf = self._undecided_leaf(t, st)
                    if leaf is not None:
                        found.append((leaf, n))
                    return
                visit(n.body if tv else n.orelse)
                return
            if isinstance(n, ast.NamedExpr):
                # binds a name the later tests may read: stop looking (the old, unsplit evaluation applies)
                found.append(None)
                return
            for c in ast.iter_child_nodes(n):
                visit(c)

        for e in exprs:
            if e is not None and not found:
                has = self._ifexp_cache.get(id(e))
                if has is None:
                    has = self._ifexp_cache[id(e)] = (any(isinstance(x, ast.IfExp) for x in ast.walk(e)), e)
                if has[0]:
                    visit(e)
        return found[0] if found else None

    def _candidates(self, exprs, env, fr, st=None):
        """followable calls inside the expressions, innermost / leftmost first -> [(call, await-or-None, callee)]"""
        if not self.follow or fr.depth >= self.max_depth:
            return []
        out = []

        def visit(n, parent):
            if isinstance(n, (ast.Lambda, ast.FunctionDef, ast.AsyncFunctionDef, ast.ClassDef, ast.ListComp, ast.SetComp, ast.DictComp, ast.GeneratorExp)):
                return
            if isinstance(n, (ast.IfExp,)):
                visit(n.test, n)
                if st is not None and self._pure_test(n.test):
                    # the arm the path's decisions select is evaluated unconditionally on this path
                    _t, tv = self._quiet_truth(n.test, env, fr, st)
                    if tv is not None:
                        arm = n.body if tv else n.orelse
                        visit(arm, n)
                return
            if isinstance(n, ast.BoolOp):
                visit(n.values[0], n)
                return
            for c in ast.iter_child_nodes(n):
                visit(c, n)
            if isinstance(n, ast.Call):
                cal = self._callee(n, env, fr)
                if cal is None:
                    return
                kind, target, recv = cal
                fnode = origin(target) if kind == "lambda" else (target._closure[0] if kind == "closure" else target.node)
                is_async = isinstance(fnode, ast.AsyncFunctionDef)
                aw = parent if isinstance(parent, ast.Await) else None
                if is_async != (aw is not None):
                    return
                if any(isinstance(x, ast.Starred) for x in n.args) or any(k.arg is None for k in n.keywords):
                    return
                qn = target.qn if kind in ("plain", "method") else None
                if qn is not None and any(f.qn == qn for f, _ in fr.stack + ((fr.fi, None),)):
                    return  # recursion
                out.append((n, aw, cal))

        for e in exprs:
            if e is not None:
                visit(e, None)
        return out

    def _guarded(self, fr, nid):
        if fr.guarded:
            return True
        if nid is None:
            return False
        return any(l == "exc" and fr.cfg.nodes[d].kind == "handler" for d, l in fr.cfg.succ[nid])

    def _eval(self, fr, exprs, env, st, nid=None):
        """resolve a statement's expressions, following helper calls.
        yields (values, env, st, evs, exc): exc is the value of an explicit exception leaving a followed helper"""
        # a conditional expression whose (pure) test the path has not decided is a branch: `x = a if c else b` is
        # `if c: x = a` / `else: x = b` -- one path per outcome, the decision recorded like that of an `if`
        sp = self._open_ifexp(exprs, env, fr, st) if any(e is not None for e in exprs) else None
        if sp is not None:
            leaf, node = sp
            stt = self._subject_test(leaf)
            if stt is not None and stt[0] not in st.vals:
                for val in self.subjects[stt[0]]:
                    st2 = st.fork()
                    st2.vals[stt[0]] = val
                    yield from self._eval(fr, exprs, env, st2, nid)
                return
            if stt is None:
                k, pol = atom_key(_plain(leaf))
                if k not in st.dec:
                    for outcome in (True, False):
                        st2 = st.fork()
                        st2.dec[k] = outcome == pol
                        st2.decl = st2.decl + (Dec(leaf, outcome, k, len(st2.events), node, fr.fi),)
                        yield from self._eval(fr, exprs, env, st2, nid)
                    return
        cands = self._candidates(exprs, env, fr, st)
        if not cands:
            st2 = st.fork()
            env2 = dict(env)
            evs = []
            vals = [self._R(e, env2, fr, st2, evs) for e in exprs]
            yield vals, env2, st2, evs, None
            return
        yield from self._expand(fr, exprs, env, st, cands, 0, {}, nid)

    def _expand(self, fr, exprs, env, st, cands, i, repl, nid=None):
        if i == len(cands):
            st2 = st.fork()
            env2 = dict(env)
            evs = []
            vals = [self._R(e, env2, fr, st2, evs, repl=repl) for e in exprs]
            st2.skip = tuple(x for call, aw, _c in cands if id(aw if aw is not None else call) in repl for x in (id(call), id(aw)))
            yield vals, env2, st2, evs, None
            return
        call, aw, (kind, target, recv) = cands[i]
        st1 = st.fork()
        evs = []
        env1 = dict(env)
        args = [self._R(a, env1, fr, st1, evs, repl=repl) for a in call.args]
        kws = {k.arg: self._R(k.value, env1, fr, st1, evs, repl=repl) for k in call.keywords}
        st1.events = st1.events + tuple(evs)
        if kind == "lambda":
            cenv = dict(target._cenv)
            if not self._bind_lambda(origin(target), target, args, kws, cenv):
                yield from self._expand(fr, exprs, env, st, cands[:i] + cands[i + 1:], i, repl, nid)
                return
            evs2 = []
            val = self._R(origin(target).body, cenv, target._fr, st1, evs2)
            st1.events = st1.events + tuple(evs2)
            r2 = dict(repl)
            r2[id(aw if aw is not None else call)] = val
            yield from self._expand(fr, exprs, env, st1, cands, i + 1, r2, nid)
            return
        if kind == "closure":
            fnode, cenv0, cfi, frp = target._closure
            cenv = dict(env1)  # late binding: the closure sees the defining frame's current bindings
            ok = self._bind(fnode, None, args, kws, cenv, fr, "plain")
            fr2 = _Frame(cfi, fr.clsqn, fr.stack + ((fr.fi, origin(call)),), fr.depth + 1, self._guarded(fr, nid))
            qn = cfi.qn
        else:
            cfi = target
            cenv = {}
            rv = self._R(recv, env1, fr, st1, [], quiet=True) if recv is not None else None
            fr2 = _Frame(cfi, self._clsqn(cfi), fr.stack + ((fr.fi, origin(call)),), fr.depth + 1, self._guarded(fr, nid))
            ok = self._bind(cfi.node, rv, args, kws, cenv, fr2, kind)
            qn = cfi.qn
        if not ok:
            yield from self._expand(fr, exprs, env, st, cands[:i] + cands[i + 1:], i, repl, nid)
            return
        if qn not in self.followed:
            self.followed.append(qn)
        for okind, val, st2, _env in self._run(fr2, cenv, st1):
            st2 = st2.fork()
            st2.ret = st.ret
            if okind == "return":
                st2.exc = st.exc
                st2.handled = st.handled
                r2 = dict(repl)
                r2[id(aw if aw is not None else call)] = val
                yield from self._expand(fr, exprs, env, st2, cands, i + 1, r2, nid)
            else:
                st2.handled = st.handled
                yield None, dict(env), st2, [], val

    # ------------------------------------------------------------------ the walk
    def _may_raise(self, stmt_exprs, skip=()):
        """may evaluating the expressions raise -- other than inside the followed calls (skip: ids of their Call / Await
        nodes), whose own statements have their own exceptional continuations"""
        for e in stmt_exprs:
            if e is None:
                continue
            for n in ast.walk(e):
                if id(n) in skip:
                    continue
                if isinstance(n, ast.Await) and id(n.value) in skip:
                    continue
                if isinstance(n, (ast.Await, ast.Subscript, ast.BinOp, ast.Yield, ast.YieldFrom)):
                    return True
                if isinstance(n, ast.Call) and not is_log_call(n):
                    return True
        return False

    def _run(self, fr, env0, st0):
        cfg = fr.cfg
        todo = [(cfg.entry, env0, st0, {})]
        produced = 0
        while todo:
            nid, env, st, visits = todo.pop()
            node = cfg.nodes[nid]
            kind = node.kind
            if nid == cfg.exit:
                v = st.ret
                if v is None:
                    v = ast.Constant(value=None)
                    v._fi = fr.fi
                    v._o = fr.fi.node
                produced += 1
                if produced > self.max_outcomes:
                    raise AnalysisError("symbolic walk of %s: more than %d paths" % (fr.fi.short, self.max_outcomes))
                yield "return", v, st, env
                continue
            if nid == cfg.rexit:
                yield "raise", st.exc, st, env
                continue

            def go(labels, env_, st_, vis_=visits):
                for d, l in reversed(cfg.succ[nid]):
                    if l in labels:
                        todo.append((d, env_, st_, vis_))

            if kind in ("entry", "T", "F"):
                go(("next", "back"), env, st)
                continue
            if kind == "join":
                if node.label == "while":
                    n = visits.get(nid, 0)
                    if n > self.loop_bound:
                        self.cuts += 1
                        continue
                    visits = dict(visits)
                    visits[nid] = n + 1
                go(("next", "back"), env, st, visits)
                continue
            if kind == "handler":
                st2 = st.fork()
                env2 = dict(env)
                st2.handled = st.exc
                if getattr(st.exc, "_implicit", False):
                    st2.imps = st.imps + ((st.exc._o, st.exc._fi, getattr(st.exc, "_rexprs", ()), node.ast, fr.fi, len(st.events)),)
                if node.ast.name:
                    env2[node.ast.name] = st.exc
                st2.exc = None
                go(("next",), env2, st2)
                continue
            a = node.ast
            if kind == "raise":
                exprs = [a.exc, a.cause]
                for vals, env2, st2, evs, exc in self._eval(fr, exprs, env, st, nid):
                    if exc is not None:
                        self._throw(fr, nid, env, st2, exc, not getattr(exc, "_implicit", False), todo, visits)
                        continue
                    v = vals[0] if a.exc is not None else st.handled
                    ev = Event("raise", a, fr.fi, fr.stack)
                    ev.value = v
                    st2.events = st2.events + tuple(evs) + (ev,)
                    self._throw(fr, nid, env2, st2, v, not getattr(v, "_implicit", False), todo, visits)
                continue
            if kind == "test":
                for vals, env2, st2, evs, exc in self._eval(fr, [a], env, st, nid):
                    if exc is not None:
                        self._throw(fr, nid, env, st2, exc, not getattr(exc, "_implicit", False), todo, visits)
                        continue
                    st2.events = st2.events + tuple(evs)
                    self._implicit(fr, nid, env, st, evs, [a], todo, visits, st2.skip)
                    self._decide(fr, node, vals[0], env2, st2, todo, visits)
                continue
            if kind == "for":
                n = visits.get(nid, 0)
                vis2 = dict(visits)
                vis2[nid] = n + 1
                for vals, env2, st2, evs, exc in self._eval(fr, [a.iter], env, st, nid):
                    if exc is not None:
                        self._throw(fr, nid, env, st2, exc, not getattr(exc, "_implicit", False), todo, visits)
                        continue
                    st2.events = st2.events + tuple(evs)
                    self._implicit(fr, nid, env, st, evs, [a.iter], todo, visits, st2.skip)
                    lit = vals[0].elts if isinstance(vals[0], (ast.Tuple, ast.List)) and len(vals[0].elts) <= 8 and not any(isinstance(x, ast.Starred) for x in vals[0].elts) else None
                    for d, l in reversed(cfg.succ[nid]):
                        if l == "F" and (lit is None or n >= len(lit)):
                            todo.append((d, env2, st2, vis2))
                        elif l == "T" and (n < self.loop_bound if lit is None else n < len(lit)):
                            st3 = st2.fork()
                            env3 = dict(env2)
                            # a literal tuple / list is iterated element by element, exactly
                            el = self._elem(vals[0], a, fr, st3) if lit is None else lit[n]
                            evs3 = []
                            self._bind_target(a.target, el, env3, fr, st3, evs3, a)
                            st3.events = st3.events + tuple(evs3)
                            todo.append((d, env3, st3, vis2))
                continue
            if kind == "with":
                exprs = [it.context_expr for it in a.items]
                for vals, env2, st2, evs, exc in self._eval(fr, exprs, env, st, nid):
                    if exc is not None:
                        self._throw(fr, nid, env, st2, exc, not getattr(exc, "_implicit", False), todo, visits)
                        continue
                    for it, v in zip(a.items, vals):
                        if it.optional_vars is not None:
                            en = ast.Call(func=ast.Name(id="__enter__", ctx=ast.Load()), args=[v], keywords=[])
                            en._o, en._fi, en._inst, en._pure = it.context_expr, fr.fi, st2.n, False
                            st2.n += 1
                            self._bind_target(it.optional_vars, en, env2, fr, st2, evs, a)
                    st2.events = st2.events + tuple(evs)
                    self._implicit(fr, nid, env, st, evs, exprs, todo, visits, st2.skip)
                    go(("next",), env2, st2)
                continue
            # stmt / return
            exprs = self._stmt_exprs(a)
            if exprs is None:
                go(("next", "back"), env, st)
                continue
            for vals, env2, st2, evs, exc in self._eval(fr, exprs, env, st, nid):
                if exc is not None:
                    self._throw(fr, nid, env, st2, exc, not getattr(exc, "_implicit", False), todo, visits)
                    continue
                self._effect(fr, a, vals, env2, st2, evs)
                st2.events = st2.events + tuple(evs)
                self._implicit(fr, nid, env, st, evs, exprs, todo, visits, st2.skip)
                go(("next", "back"), env2, st2)

    def _stmt_exprs(self, a):
        if isinstance(a, ast.Assign):
            return [a.value]
        if isinstance(a, ast.AnnAssign):
            return [a.value] if a.value is not None else None
        if isinstance(a, ast.AugAssign):
            return [a.value]
        if isinstance(a, ast.Expr):
            return [a.value]
        if isinstance(a, ast.Return):
            return [a.value]
        if isinstance(a, ast.Match):
            return [a.subject]
        if isinstance(a, ast.Delete):
            return []
        if isinstance(a, (ast.FunctionDef, ast.AsyncFunctionDef)):
            return []
        return None

    def _effect(self, fr, a, vals, env, st, evs):
        if isinstance(a, ast.Assign):
            for t in a.targets:
                self._bind_target(t, vals[0], env, fr, st, evs, a)
        elif isinstance(a, ast.AnnAssign):
            self._bind_target(a.target, vals[0], env, fr, st, evs, a)
        elif isinstance(a, ast.AugAssign):
            old = self._R(_as_load(a.target), env, fr, st, evs)
            v = ast.BinOp(left=old, op=a.op, right=vals[0])
            v._o, v._fi = a, fr.fi
            self._bind_target(a.target, v, env, fr, st, evs, a)
        elif isinstance(a, ast.Return):
            if vals[0] is not None:
                st.ret = vals[0]
            else:
                v = ast.Constant(value=None)
                v._o, v._fi = a, fr.fi
                st.ret = v
        elif isinstance(a, ast.Delete):
            for t in a.targets:
                if isinstance(t, ast.Name):
                    env.pop(t.id, None)
                elif isinstance(t, (ast.Attribute, ast.Subscript)):
                    tg = self._R(_as_load(t), env, fr, st, evs)
                    ev = Event("del", a, fr.fi, fr.stack)
                    ev.target = tg
                    evs.append(ev)
                    kt = K(tg)
                    st.ver[kt] = st.ver.get(kt, 0) + 1
        elif isinstance(a, (ast.FunctionDef, ast.AsyncFunctionDef)):
            v = ast.Name(id=a.name, ctx=ast.Load())
            cfi = self._func_of_node(a)
            v._o, v._fi = a, fr.fi
            if cfi is not None:
                v._closure = (a, env, cfi, fr)
            v._inst = st.n
            st.n += 1
            env[a.name] = v

    def _implicit(self, fr, nid, env, st, evs, exprs, todo, visits, skip=()):
        """the statement raises something: continue in the handlers that may take an arbitrary Exception (here, or --
        inside a followed helper -- in a function this was followed from)"""
        cfg = fr.cfg
        hs = [d for d, l in cfg.succ[nid] if l == "exc" and cfg.nodes[d].kind in ("handler",)]
        if not (hs or fr.guarded) or not self._may_raise(exprs, skip):
            return
        st2 = st.fork()
        pevs = []
        for e in evs:
            if e.kind in ("call", "await"):
                p = Event(e.kind, e.node, e.fi, e.stack)
                p.func, p.args, p.kw, p.inst, p.maybe, p.pure, p.expr, p.awaited, p.value = e.func, e.args, e.kw, e.inst, e.maybe, e.pure, e.expr, e.awaited, e.value
                p.partial = True
                pevs.append(p)
        st2.events = st2.events + tuple(pevs)
        st2.n = st.n + len(evs) + 1
        st2.epoch = st.epoch + 1
        x = ast.Name(id="__exc__", ctx=ast.Load())
        x._o, x._fi, x._inst, x._implicit = cfg.nodes[nid].ast, fr.fi, st2.n, True
        # what the statement was evaluating when it was left (resolved under the path, nothing recorded)
        x._rexprs = tuple(self._R(e, dict(env), fr, st.fork(), [], quiet=True) for e in exprs if e is not None)
        st2.n += 1
        self._throw(fr, nid, env, st2, x, False, todo, visits)

    def _throw(self, fr, nid, env, st, exc, explicit, todo, visits):
        cfg = fr.cfg
        clsq = self._exc_class(exc) if explicit else (self.implicit_cls or "Exception")
        st2 = st.fork()
        st2.exc = exc
        pushed = []
        for d, l in cfg.succ[nid]:
            if l != "exc":
                continue
            dn = cfg.nodes[d]
            if dn.kind == "handler":
                c = self._catches(dn.ast, clsq, fr.fi)
                if not explicit and c is False and self.implicit_cls is None and self._narrower(dn.ast, fr.fi):
                    c = None  # an arbitrary Exception may be of the handler's narrower class
                if c is False:
                    continue
                pushed.append((d, env, st2, visits))
                if c is True:
                    break
            elif explicit or d != cfg.rexit:
                if explicit or cfg.nodes[d].kind == "join":
                    pushed.append((d, env, st2, visits))
        if explicit and not pushed and not any(l == "exc" for _, l in cfg.succ[nid]):
            pushed.append((cfg.rexit, env, st2, visits))
        if not explicit and fr.guarded and not any(cfg.nodes[d].kind == "handler" and self._catches(cfg.nodes[d].ast, self.implicit_cls or "Exception", fr.fi) is True for d, _e, _s, _v in pushed):
            # an arbitrary exception inside a followed helper that nothing here certainly takes reaches the caller's handlers
            pushed.append((cfg.rexit, env, st2, visits))
        todo.extend(reversed(pushed))

    def _decide(self, fr, node, v, env, st, todo, visits):
        cfg = fr.cfg
        nid = node.id
        tnode = fnode = None
        for d, l in cfg.succ[nid]:
            if l == "T":
                tnode = d
            elif l == "F":
                fnode = d
        s = self._static(v)
        if s is not None:
            d = tnode if s else fnode
            if d is not None:
                todo.append((d, env, st, visits))
            return
        stt = self._subject_test(v)
        if stt is not None:
            sub, tv = stt
            if sub in st.vals:
                d = tnode if st.vals[sub] in tv else fnode
                if d is not None:
                    todo.append((d, env, st, visits))
                return
            for val in reversed(self.subjects[sub]):
                st2 = st.fork()
                st2.vals[sub] = val
                d = tnode if val in tv else fnode
                if d is not None:
                    todo.append((d, env, st2, visits))
            return
        k, pol = atom_key(_plain(v))
        if k in st.dec:
            d = tnode if st.dec[k] == pol else fnode
            if d is not None:
                todo.append((d, env, st, visits))
            return
        for outcome, d in ((False, fnode), (True, tnode)):
            if d is None:
                continue
            st2 = st.fork()
            st2.dec[k] = outcome == pol
            st2.decl = st2.decl + (Dec(v, outcome, k, len(st2.events), node.ast, fr.fi),)
            todo.append((d, env, st2, visits))


def _binds_local(fnode, name, defs=True):
    """does the function bind `name` in its own scope: a parameter, an assignment / for / with / except / import / walrus
    target, (defs=True) a nested def or class of that name"""
    if isinstance(fnode, ast.Lambda) or not hasattr(fnode, "args"):
        a = getattr(fnode, "args", None)
    else:
        a = fnode.args
    if a is not None:
        names = [x.arg for x in a.posonlyargs + a.args + a.kwonlyargs] + [x.arg for x in (a.vararg, a.kwarg) if x is not None]
        if name in names:
            return True
    if isinstance(fnode, ast.Lambda):
        return False
    todo = list(fnode.body)
    while todo:
        n = todo.pop()
        if isinstance(n, (ast.FunctionDef, ast.AsyncFunctionDef, ast.ClassDef)):
            if defs and n.name == name:
                return True
            continue
        if isinstance(n, ast.Lambda):
            continue
        if isinstance(n, ast.Name) and isinstance(n.ctx, (ast.Store, ast.Del)) and n.id == name:
            return True
        if isinstance(n, ast.ExceptHandler) and n.name == name:
            return True
        if isinstance(n, (ast.Import, ast.ImportFrom)) and any((al.asname or al.name.split(".")[0]) == name for al in n.names):
            return True
        if isinstance(n, (ast.ListComp, ast.SetComp, ast.DictComp, ast.GeneratorExp)):
            # comprehension targets live in their own scope; walrus targets inside do not, but are not worth the trouble
            continue
        todo.extend(ast.iter_child_nodes(n))
    return False


def _as_load(t):
    new = clone(t)
    for n in ast.walk(new):
        if hasattr(n, "ctx"):
            n.ctx = ast.Load()
    # keep the identity of sub-expressions irrelevant: targets are re-resolved by the caller
    return new


_B = None


def _BUILTINS():
    global _B
    if _B is None:
        from ..model import BUILTIN_EXC
        _B = set(BUILTIN_EXC)
    return _B
