"""Path-sensitive symbolic walker for the C09 rules.

`Walker(prog).run(fi)` enumerates the paths of a function's CFG and returns one
`Outcome` per path: how the path ends (`return` value / `raise`d exception), the
ordered *events* on it (calls, attribute/subscript stores, deletes, raises) and
the *decisions* taken (one per atomic condition).  Everything an event or a
decision mentions is *resolved*: a local name is replaced by the value bound to
it on that very path, so rules compare what is computed, never how the locals
are called, in which order independent statements stand, whether a condition is
nested / an early return / De-Morganed, or whether part of the function lives in
a helper:

* calls of functions that are not part of the confirmed tree
  (inline.baseline()) and that the engine's helper expansion left in place
  (return inside try/match/loop, several returns inside an expression ...) are
  followed *interprocedurally*: the callee's paths are spliced into the caller's
  (parameters bound to the resolved arguments, explicit raises propagated to
  the caller's handlers).  Decorated callees (other than static/classmethod),
  generators, dynamically dispatched methods and recursion stay opaque calls.
* lambdas, nested defs and functools.partial objects are values
  (`apply_callable`).
* exceptions: an explicit `raise` is routed to the first handler whose class
  (static hierarchy) takes it; every statement inside a `try` that may raise
  also has an *implicit* exceptional continuation into the handlers that may
  take an arbitrary Exception (the events of that statement are then flagged
  `partial`).  Implicit exceptions that nobody handles are not enumerated.
* heap reads are versioned: `self.f` read before and after a store to `self.f`
  (or, for `self`-rooted chains, before and after an opaque non-log call) are
  different values, so a test repeated after a callback is decided again.

Nothing is executed; conditions are uninterpreted booleans apart from constant
folding (`None is None`, boolean constants returned by a helper, a constructor
call is not None) and declared finite-domain subjects.
"""

import ast

from ..model import AnalysisError
from ..cfg import cfg_of
from ..pat import chain
from ..paths import atom_key
from ..rulekit import is_log_call
from .. import inline as _inline

PURE_FUNCS = {"isinstance", "issubclass", "len", "hasattr", "getattr", "str", "repr", "int", "bool", "type", "id", "callable",
              "min", "max", "abs", "tuple", "frozenset", "bytes", "format", "list", "dict", "set", "sorted", "reversed", "enumerate", "zip",
              "any", "all", "sum", "range"}
PURE_METHODS = {"lower", "upper", "strip", "encode", "decode", "format", "startswith", "endswith", "title", "casefold"}


def clone(node, fn=None):
    """structural copy of an AST (custom attributes are not copied); fn(node) may return a replacement"""
    if fn is not None:
        r = fn(node)
        if r is not None:
            return r
    new = type(node)()
    for f in node._fields:
        if not hasattr(node, f):
            continue
        v = getattr(node, f)
        if isinstance(v, list):
            v = [clone(x, fn) if isinstance(x, ast.AST) else x for x in v]
        elif isinstance(v, ast.AST):
            v = clone(v, fn)
        setattr(new, f, v)
    for a in ("lineno", "col_offset", "end_lineno", "end_col_offset"):
        if hasattr(node, a):
            setattr(new, a, getattr(node, a))
    return new


def _plain(e):
    """tag-free copy in which every opaque call instance / versioned heap read is an atom"""
    def fn(n):
        if isinstance(n, ast.Call) and getattr(n, "_inst", None) is not None and not getattr(n, "_pure", False):
            return ast.Name(id="<%s#%d>" % (ast.unparse(clone(n, _fn_inner(n))), n._inst), ctx=ast.Load())
        if isinstance(n, ast.Await) and getattr(n, "_inst", None) is not None:
            return ast.Name(id="<await %s#%d>" % (ast.unparse(clone(n.value, fn)), n._inst), ctx=ast.Load())
        if isinstance(n, ast.Name) and getattr(n, "_inst", None) is not None:
            return ast.Name(id="<%s#%d>" % (n.id, n._inst), ctx=ast.Load())
        if isinstance(n, ast.Attribute) and getattr(n, "_tag", None):
            return ast.Name(id="<%s@%s>" % (ast.unparse(clone(n, _fn_inner(n))), ".".join(str(x) for x in n._tag)), ctx=ast.Load())
        return None

    def _fn_inner(root):
        def g(n):
            if n is root:
                return None
            return fn(n)
        return g
    return clone(e, fn)


def K(e):
    """canonical text of a resolved expression (None for None)"""
    if e is None:
        return None
    k = getattr(e, "_k", None)
    if k is None:
        try:
            k = " ".join(ast.unparse(_plain(e)).split())
        except Exception:
            k = "<?%d>" % id(e)
        try:
            e._k = k
        except Exception:
            pass
    return k


def strip_tags(e):
    """chain() text of a resolved attribute chain ignores versions anyway; this gives a plain copy for pat.match"""
    return clone(e)


def parse(src):
    return ast.parse(src, mode="eval").body


def origin(e):
    return getattr(e, "_o", e)


class Event:
    __slots__ = ("kind", "node", "fi", "func", "args", "kw", "target", "value", "partial", "awaited", "inst", "stack", "maybe", "pure", "expr")

    def __init__(self, kind, node, fi, stack):
        self.kind = kind  # call | await (of something that is not a call) | store | del | raise
        self.node = node  # AST node in the analysed (canonical) tree
        self.fi = fi  # function that node belongs to
        self.stack = stack  # ((caller fi, call node), ...) outermost first
        self.func = None
        self.args = []
        self.kw = {}
        self.target = None
        self.value = None
        self.partial = False  # the statement was left through an exception edge
        self.awaited = False
        self.inst = None
        self.maybe = False  # sits in a conditionally evaluated part of an expression (IfExp arm, later BoolOp operand, comprehension)
        self.pure = False
        self.expr = None  # the resolved Call expression

    def arg(self, name, pos=None):
        if name is not None and name in self.kw:
            return self.kw[name]
        if pos is not None and pos < len(self.args) and not any(isinstance(a, ast.Starred) for a in self.args[: pos + 1]):
            return self.args[pos]
        return None

    def callee(self):
        return chain(self.func) if self.func is not None else None

    def __repr__(self):
        if self.kind in ("call", "await"):
            return "<%s %s%s>" % (self.kind, K(self.expr), " partial" if self.partial else "")
        if self.kind in ("store", "del"):
            return "<%s %s := %s>" % (self.kind, K(self.target), K(self.value))
        return "<%s %s>" % (self.kind, K(self.value))


class Dec:
    __slots__ = ("expr", "val", "key", "pos", "node", "fi")

    def __init__(self, expr, val, key, pos, node, fi):
        self.expr = expr  # resolved atom (positive form as written)
        self.val = val  # truth value of expr on this path
        self.key = key
        self.pos = pos  # number of events before the decision
        self.node = node
        self.fi = fi


class _St:
    __slots__ = ("events", "dec", "decl", "vals", "ver", "epoch", "n", "ret", "exc", "handled", "skip")

    def __init__(self):
        self.events = ()
        self.dec = {}
        self.decl = ()
        self.vals = {}
        self.ver = {}
        self.epoch = 0
        self.n = 0
        self.ret = None
        self.exc = None
        self.handled = None
        self.skip = ()

    def fork(self):
        s = _St()
        s.events = self.events
        s.dec = dict(self.dec)
        s.decl = self.decl
        s.vals = dict(self.vals)
        s.ver = dict(self.ver)
        s.epoch = self.epoch
        s.n = self.n
        s.ret = self.ret
        s.exc = self.exc
        s.handled = self.handled
        return s


class _Frame:
    def __init__(self, fi, clsqn, stack, depth, guarded=False):
        self.guarded = guarded  # some function this was followed from has a handler around the call
        self.fi = fi
        self.cfg = cfg_of(fi)
        self.clsqn = clsqn
        self.stack = stack
        self.depth = depth


class Outcome:
    def __init__(self, kind, value, st, env, walker):
        self.kind = kind  # return | raise
        self.value = value
        self.events = list(st.events)
        self.decisions = list(st.decl)
        self.dec = st.dec
        self.vals = st.vals
        self.env = env
        self.w = walker

    # -- events -----------------------------------------------------------
    def calls(self, pred=None, partial=None):
        out = []
        for i, e in enumerate(self.events):
            if e.kind != "call":
                continue
            if partial is not None and e.partial != partial:
                continue
            if pred is None or pred(e):
                out.append((i, e))
        return out

    def stores(self, pred=None):
        return [(i, e) for i, e in enumerate(self.events) if e.kind in ("store", "del") and (pred is None or pred(e))]

    # -- decisions ----------------------------------------------------------
    def truth(self, e, extra=None):
        """three-valued truth of a (resolved, or free-name) boolean expression under the path's decisions"""
        return self.w._truth(e, self.dec, self.vals, extra)

    def decided(self, pred):
        """[(Dec, positive-form truth)] for decisions whose atom satisfies pred(expr)"""
        return [d for d in self.decisions if pred(d.expr)]

    def is_none(self, pred):
        """truth of `<s> is None` for a subject with pred(s), from any decision of that form (None: undecided)"""
        res = None
        for d in self.decisions:
            t = none_test(d.expr)
            if t is None:
                continue
            s, pol = t
            if pred(s):
                v = d.val == pol
                if res is not None and res != v:
                    return None
                res = v
        return res

    def present(self, v):
        """is the value known to be truthy / not None (True), falsy / None (False), or undecided (None)"""
        t = self.truth(v)
        if t is not None:
            return t
        kv = K(v)
        n = self.is_none(lambda s: K(s) == kv)
        if n is not None:
            return not n
        return None

    def describe(self):
        d = ["%s=%s" % kv for kv in sorted(self.vals.items())]
        d += ["%s%s" % ("" if x.val else "not ", K(x.expr)) for x in self.decisions]
        return ", ".join(d) or "<unconditional>"


def none_test(e):
    """(subject, polarity) when e is `<subject> is None` (pol True) / `is not None` (pol False) / == / !=, through `not`"""
    pol = True
    while isinstance(e, ast.UnaryOp) and isinstance(e.op, ast.Not):
        e = e.operand
        pol = not pol
    if isinstance(e, ast.Compare) and len(e.ops) == 1 and isinstance(e.ops[0], (ast.Is, ast.IsNot, ast.Eq, ast.NotEq)):
        l, r = e.left, e.comparators[0]
        if isinstance(l, ast.Constant) and l.value is None:
            l, r = r, l
        if isinstance(r, ast.Constant) and r.value is None and not (isinstance(l, ast.Constant)):
            if isinstance(e.ops[0], (ast.IsNot, ast.NotEq)):
                pol = not pol
            return l, pol
    return None


def const_test(e, value):
    """(subject, polarity) when e is `<subject> is <value>` for a constant value (False/True/...)"""
    pol = True
    while isinstance(e, ast.UnaryOp) and isinstance(e.op, ast.Not):
        e = e.operand
        pol = not pol
    if isinstance(e, ast.Compare) and len(e.ops) == 1 and isinstance(e.ops[0], (ast.Is, ast.IsNot, ast.Eq, ast.NotEq)):
        l, r = e.left, e.comparators[0]
        if isinstance(l, ast.Constant) and l.value is value and type(l.value) is type(value):
            l, r = r, l
        if isinstance(r, ast.Constant) and r.value is value and type(r.value) is type(value):
            if isinstance(e.ops[0], (ast.IsNot, ast.NotEq)):
                pol = not pol
            return l, pol
    return None


class Walker:
    def __init__(self, prog, subjects=None, loop_bound=1, max_outcomes=6000, max_depth=4, follow_helpers=True, opaque=None, implicit_cls=None):
        self.prog = prog
        # class of the implicit exceptions: None = an arbitrary Exception (every handler may take it, a handler for
        # Exception certainly does); a class name = exactly that class (handlers are selected through the hierarchy)
        self.implicit_cls = implicit_cls
        self.subjects = dict(subjects or {})
        self.loop_bound = loop_bound
        self.max_outcomes = max_outcomes
        self.max_depth = max_depth
        self.follow = follow_helpers
        self.opaque = opaque  # optional predicate FuncInfo -> bool: never follow
        self.base = _inline.baseline()
        self.followed = []  # qualified names of helpers that were followed (evidence)
        self.cuts = 0

    # ------------------------------------------------------------------ public
    def run(self, fi, env=None):
        fr = _Frame(fi, self._clsqn(fi), (), 0)
        outs = []
        for kind, val, st, env2 in self._run(fr, dict(env or {}), _St()):
            outs.append(Outcome(kind, val, st, env2, self))
            if len(outs) > self.max_outcomes:
                raise AnalysisError("symbolic walk of %s: more than %d paths" % (fi.short, self.max_outcomes))
        return outs

    def apply_callable(self, v, args=(), depth=0):
        """values a callable value may return when called with the (resolved) args: list of resolved expressions.
        lambda / nested def: the returned expressions; functools.partial(f, a..): f applied to a.. + args;
        anything else (bound method, function name): the call expression itself."""
        if depth > 4:
            return [None]
        if isinstance(v, ast.Lambda) and hasattr(v, "_cenv"):
            src = origin(v)
            env = dict(v._cenv)
            if not self._bind_lambda(src, v, list(args), {}, env):
                return [None]
            fr = v._fr
            st = _St()
            st.n = 100000
            return [self._R(src.body, env, fr, st, [], quiet=True)]
        if isinstance(v, ast.Name) and hasattr(v, "_closure"):
            fnode, cenv, fi, frp = v._closure
            env = dict(cenv)
            fr = _Frame(fi, frp.clsqn, frp.stack, frp.depth + 1)
            if not self._bind(fnode, None, list(args), {}, env, fr, "plain"):
                return [None]
            st = _St()
            st.n = 100000
            return [val for kind, val, st2, env2 in self._run(fr, env, st) if kind == "return"]
        if isinstance(v, ast.Call) and chain(v.func) in ("functools.partial", "partial") and v.args and not v.keywords:
            return self.apply_callable(v.args[0], list(v.args[1:]) + list(args), depth + 1)
        c = ast.Call(func=v, args=list(args), keywords=[])
        c._fi = getattr(v, "_fi", None)
        c._o = getattr(v, "_o", v)
        c._inst = None
        return [c]

    def cls_of(self, e):
        """qualified name a resolved Name/Attribute chain denotes in the module it was written in"""
        c = chain(e)
        fi = getattr(e, "_fi", None)
        if c is None or fi is None:
            return None
        return self.prog.resolve_in_module(fi.module, c)

    def exception_safe(self, ev, clsname="Exception"):
        """is an exception of class clsname raised by the call event ev taken by a handler -- in the function the call is
        written in, or in one of the functions it was followed from?  -> (frame fi, handler) or None"""
        frames = list(ev.stack) + [(ev.fi, ev.node)]
        for fi, node in reversed(frames):
            cfg = cfg_of(fi)
            child = node
            p = cfg.parent.get(id(node))
            while p is not None and p is not fi.node:
                if isinstance(p, ast.Try) and any(child is s for s in p.body):
                    for h in p.handlers:
                        if self._catches(h, clsname, fi) is True:
                            return fi, h
                if isinstance(p, (ast.FunctionDef, ast.AsyncFunctionDef, ast.Lambda)):
                    break
                child = p
                p = cfg.parent.get(id(p))
        return None

    # ------------------------------------------------------------------ helpers
    def _func_of_node(self, node):
        idx = getattr(self, "_by_node", None)
        if idx is None:
            idx = self._by_node = {id(f.node): f for f in self.prog.funcs.values()}
        return idx.get(id(node))

    def _clsqn(self, fi):
        f = fi
        while f is not None:
            if f.cls is not None:
                return f.cls.qn
            f = f.parent
        return None

    def _catches(self, h, clsq, fi):
        """True / False / None(unknown)"""
        if h.type is None:
            return True
        types = h.type.elts if isinstance(h.type, ast.Tuple) else [h.type]
        unknown = False
        for t in types:
            c = chain(t)
            if c is None:
                unknown = True
                continue
            q = self.prog.resolve_in_module(fi.module, c)
            if q == "BaseException":
                return True
            if clsq is None:
                unknown = True
                continue
            if q == clsq or self.prog.is_subclass(clsq, q):
                return True
            known = (q in self.prog.classes or q in _BUILTINS()) and (clsq in self.prog.classes or clsq in _BUILTINS())
            if not known:
                unknown = True
        return None if unknown else False

    def _narrower(self, h, fi):
        """does the handler name a class below Exception (or one the hierarchy does not know)?"""
        types = h.type.elts if isinstance(h.type, ast.Tuple) else [h.type]
        for t in types:
            c = chain(t)
            q = self.prog.resolve_in_module(fi.module, c) if c is not None else None
            if q is None or not (q in self.prog.classes or q in _BUILTINS()) or self.prog.is_subclass(q, "Exception"):
                return True
        return False

    def _exc_class(self, v):
        if v is None:
            return None
        e = v.func if isinstance(v, ast.Call) else v
        if getattr(v, "_implicit", False):
            return None
        return self.cls_of(e)

    # ------------------------------------------------------------------ resolution
    def _tag(self, new, node, fr):
        new._o = getattr(node, "_o", node)
        new._fi = getattr(node, "_fi", fr.fi)
        return new

    def _R(self, e, env, fr, st, evs, quiet=False, repl=None, maybe=False):
        """resolved copy of expression e under env; call events are appended to evs (unless quiet)"""
        if e is None:
            return None
        if repl and id(e) in repl:
            return repl[id(e)]
        R = lambda x, mb=maybe, en=env: self._R(x, en, fr, st, evs, quiet, repl, mb)
        if isinstance(e, ast.Name):
            if isinstance(e.ctx, ast.Load) and e.id in env and env[e.id] is not None:
                return env[e.id]
            return self._tag(ast.Name(id=e.id, ctx=ast.Load()), e, fr)
        if isinstance(e, ast.Constant):
            return self._tag(ast.Constant(value=e.value), e, fr)
        if isinstance(e, ast.Attribute):
            v = R(e.value)
            new = self._tag(ast.Attribute(value=v, attr=e.attr, ctx=ast.Load()), e, fr)
            kt = K(new)
            ver = st.ver.get(kt, 0)
            root = v
            while isinstance(root, (ast.Attribute, ast.Subscript)):
                root = root.value
            ep = st.epoch if (isinstance(root, ast.Name) and root.id in ("self", "cls") and getattr(root, "_inst", None) is None) else 0
            if ver or ep:
                new._tag = (ver, ep)
                new._k = None
            return new
        if isinstance(e, ast.Await):
            v = R(e.value)
            new = self._tag(ast.Await(value=v), e, fr)
            if isinstance(v, ast.Call) and evs and evs[-1].expr is v:
                evs[-1].awaited = True
            elif not quiet:
                # awaiting something that was created elsewhere (a coroutine object, a future): an event of its own
                ev = Event("await", origin(e), new._fi, fr.stack)
                ev.value, ev.awaited, ev.maybe, ev.expr = v, True, maybe, new
                ev.inst = new._inst = st.n
                st.n += 1
                evs.append(ev)
                st.epoch += 1
            return new
        if isinstance(e, ast.Call):
            func = R(e.func)
            args = [R(a) for a in e.args]
            kws = [self._tag(ast.keyword(arg=k.arg, value=R(k.value)), k, fr) for k in e.keywords]
            for _ in range(3):
                # calling functools.partial(f, a.., k=v..) with (b..) is calling f(a.., b.., k=v..)
                if isinstance(func, ast.Call) and chain(func.func) in ("functools.partial", "partial") and func.args and not any(isinstance(x, ast.Starred) for x in func.args) \
                        and not any(k.arg is None for k in func.keywords):
                    given = {k.arg for k in kws}
                    args = list(func.args[1:]) + args
                    kws = [k for k in func.keywords if k.arg not in given] + kws
                    func = func.args[0]
                else:
                    break
            new = self._tag(ast.Call(func=func, args=args, keywords=kws), e, fr)
            fname = chain(func) or ""
            pure = fname in PURE_FUNCS or (isinstance(func, ast.Attribute) and (func.attr in PURE_METHODS or func.attr.startswith("is_")))
            new._pure = pure
            if quiet:
                new._inst = None
                return new
            new._inst = st.n
            st.n += 1
            ev = Event("call", origin(e), new._fi, fr.stack)
            ev.func, ev.args, ev.kw = func, args, {k.arg: k.value for k in kws if k.arg is not None}
            ev.inst, ev.maybe, ev.pure, ev.expr = new._inst, maybe, pure, new
            evs.append(ev)
            if not pure and not is_log_call(e):
                st.epoch += 1
            return new
        if isinstance(e, ast.Lambda):
            a = e.args
            bound = {x.arg for x in a.posonlyargs + a.args + a.kwonlyargs}
            if a.vararg:
                bound.add(a.vararg.arg)
            if a.kwarg:
                bound.add(a.kwarg.arg)
            env2 = {k: v for k, v in env.items() if k not in bound}
            body = self._R(e.body, env2, fr, st, [], True, repl, maybe)
            new = self._tag(ast.Lambda(args=a, body=body), e, fr)
            new._cenv = env
            new._fr = fr
            new._defaults = [R(d) for d in a.defaults]
            new._kwdefaults = [R(d) if d is not None else None for d in a.kw_defaults]
            return new
        if isinstance(e, (ast.ListComp, ast.SetComp, ast.GeneratorExp, ast.DictComp)):
            env2 = dict(env)
            gens = []
            for g in e.generators:
                it = self._R(g.iter, env2, fr, st, evs, quiet, repl, maybe)
                el = self._elem(it, g.iter, fr, st, quiet)
                self._bind_target(g.target, el, env2, fr, st, None)
                ifs = [self._R(c, env2, fr, st, evs, quiet, repl, True) for c in g.ifs]
                gens.append(self._tag(ast.comprehension(target=clone(g.target), iter=it, ifs=ifs, is_async=g.is_async), g, fr))
            if isinstance(e, ast.DictComp):
                new = ast.DictComp(key=self._R(e.key, env2, fr, st, evs, quiet, repl, True), value=self._R(e.value, env2, fr, st, evs, quiet, repl, True), generators=gens)
            else:
                new = type(e)(elt=self._R(e.elt, env2, fr, st, evs, quiet, repl, True), generators=gens)
            return self._tag(new, e, fr)
        if isinstance(e, ast.NamedExpr):
            v = R(e.value)
            env[e.target.id] = v
            return v
        if isinstance(e, ast.IfExp):
            t = R(e.test)
            tv = self._truth(t, st.dec, st.vals)
            if tv is True:
                return R(e.body)
            if tv is False:
                return R(e.orelse)
            return self._tag(ast.IfExp(test=t, body=R(e.body, True), orelse=R(e.orelse, True)), e, fr)
        if isinstance(e, ast.BoolOp):
            vals = [R(e.values[0])] + [R(v, True) for v in e.values[1:]]
            return self._tag(ast.BoolOp(op=e.op, values=vals), e, fr)
        # generic
        new = type(e)()
        for f in e._fields:
            if not hasattr(e, f):
                continue
            v = getattr(e, f)
            if isinstance(v, list):
                v = [R(x) if isinstance(x, ast.expr) else (self._Rmisc(x, R, fr) if isinstance(x, ast.AST) else x) for x in v]
            elif isinstance(v, ast.expr):
                v = R(v)
            elif isinstance(v, ast.AST):
                v = self._Rmisc(v, R, fr)
            setattr(new, f, v)
        if isinstance(new, (ast.Subscript, ast.Starred, ast.List, ast.Tuple)):
            new.ctx = ast.Load()
        return self._tag(new, e, fr)

    def _Rmisc(self, x, R, fr):
        if isinstance(x, ast.keyword):
            return self._tag(ast.keyword(arg=x.arg, value=R(x.value)), x, fr)
        if isinstance(x, (ast.expr_context, ast.operator, ast.unaryop, ast.boolop, ast.cmpop)):
            return type(x)()
        return clone(x)

    def _elem(self, it, node, fr, st, quiet=False):
        el = ast.Call(func=ast.Name(id="__elem__", ctx=ast.Load()), args=[it], keywords=[])
        el._o = getattr(node, "_o", node)
        el._fi = fr.fi
        el._pure = False
        el._elem_of = it
        if quiet:
            el._inst = None
        else:
            el._inst = st.n
            st.n += 1
        return el

    def _index(self, v, i, node, fr):
        if isinstance(v, (ast.Tuple, ast.List)) and not any(isinstance(x, ast.Starred) for x in v.elts) and i < len(v.elts):
            return v.elts[i]
        s = ast.Subscript(value=v, slice=ast.Constant(value=i), ctx=ast.Load())
        s._o = getattr(node, "_o", node)
        s._fi = fr.fi
        return s

    def _bind_target(self, t, v, env, fr, st, evs, stmt=None):
        """bind assignment target t to resolved value v; attribute / subscript targets become store events"""
        if isinstance(t, ast.Name):
            env[t.id] = v
        elif isinstance(t, (ast.Tuple, ast.List)):
            if any(isinstance(x, ast.Starred) for x in t.elts):
                for x in t.elts:
                    y = x.value if isinstance(x, ast.Starred) else x
                    self._bind_target(y, self._elem(v, t, fr, st), env, fr, st, evs, stmt)
                return
            # right-hand sides are evaluated before any target is bound
            parts = [self._index(v, i, t, fr) for i in range(len(t.elts))]
            for x, p in zip(t.elts, parts):
                self._bind_target(x, p, env, fr, st, evs, stmt)
        elif isinstance(t, (ast.Attribute, ast.Subscript)):
            if evs is None:
                return
            if isinstance(t, ast.Attribute):
                base = self._R(t.value, env, fr, st, evs)
                tgt = self._tag(ast.Attribute(value=base, attr=t.attr, ctx=ast.Load()), t, fr)
            else:
                base = self._R(t.value, env, fr, st, evs)
                sl = self._R(t.slice, env, fr, st, evs)
                tgt = self._tag(ast.Subscript(value=base, slice=sl, ctx=ast.Load()), t, fr)
            ev = Event("store", origin(stmt if stmt is not None else t), fr.fi, fr.stack)
            ev.target, ev.value = tgt, v
            evs.append(ev)
            kt = K(tgt)
            st.ver[kt] = st.ver.get(kt, 0) + 1

    # ------------------------------------------------------------------ truth
    def _static(self, e):
        """truth of e decidable from its form alone, else None"""
        if isinstance(e, ast.Constant):
            return bool(e.value)
        if isinstance(e, ast.UnaryOp) and isinstance(e.op, ast.Not):
            v = self._static(e.operand)
            return None if v is None else not v
        t = none_test(e)
        if t is not None:
            s, pol = t
            nn = self._not_none(s)
            if nn is True:
                return not pol
            if nn is False:
                return pol
            return None
        if isinstance(e, ast.Compare) and len(e.ops) == 1 and isinstance(e.ops[0], (ast.Is, ast.IsNot)):
            l, r = e.left, e.comparators[0]
            if isinstance(l, ast.Constant) and isinstance(r, ast.Constant) and (l.value is None or isinstance(l.value, bool)) and (r.value is None or isinstance(r.value, bool)):
                same = l.value is r.value
                return same if isinstance(e.ops[0], ast.Is) else not same
            for a, b in ((l, r), (r, l)):
                if isinstance(b, ast.Constant) and (b.value is None or isinstance(b.value, bool)) and self._not_none(a) is True and self._is_object(a):
                    return isinstance(e.ops[0], ast.IsNot)
        if isinstance(e, ast.Lambda) or (isinstance(e, ast.Name) and hasattr(e, "_closure")):
            return True
        return None

    def _is_object(self, s):
        """a freshly constructed instance of a package class (is neither None nor a bool)"""
        if isinstance(s, ast.Call):
            q = self.cls_of(s.func)
            return q is not None and q in self.prog.classes
        return False

    def _not_none(self, s):
        """True: s is certainly not None; False: s is None; None: unknown"""
        if isinstance(s, ast.Constant):
            return s.value is not None
        if isinstance(s, (ast.Lambda, ast.Tuple, ast.List, ast.Dict, ast.Set, ast.JoinedStr, ast.ListComp, ast.DictComp, ast.SetComp)):
            return True
        if isinstance(s, ast.Name) and hasattr(s, "_closure"):
            return True
        if self._is_object(s):
            return True
        return None

    def _subject_test(self, e):
        if not self.subjects:
            return None
        pol = True
        while isinstance(e, ast.UnaryOp) and isinstance(e.op, ast.Not):
            e = e.operand
            pol = not pol
        if not (isinstance(e, ast.Compare) and len(e.ops) == 1):
            return None
        op, l, r = e.ops[0], e.left, e.comparators[0]
        s, other = K(l), r
        if s not in self.subjects and isinstance(op, (ast.Eq, ast.NotEq, ast.Is, ast.IsNot)):
            s, other = K(r), l
        if s not in self.subjects:
            return None
        uni = self.subjects[s]
        if isinstance(op, (ast.Eq, ast.Is, ast.NotEq, ast.IsNot)):
            c = chain(other)
            if c is None or c.split(".")[-1] not in uni:
                return None
            vals = {c.split(".")[-1]}
            if isinstance(op, (ast.NotEq, ast.IsNot)):
                vals = set(uni) - vals
        elif isinstance(op, (ast.In, ast.NotIn)) and isinstance(other, (ast.Tuple, ast.List, ast.Set)):
            cs = [chain(x) for x in other.elts]
            if any(c is None or c.split(".")[-1] not in uni for c in cs):
                return None
            vals = {c.split(".")[-1] for c in cs}
            if isinstance(op, ast.NotIn):
                vals = set(uni) - vals
        else:
            return None
        return s, (vals if pol else set(uni) - vals)

    def _truth(self, e, dec, vals, extra=None):
        if isinstance(e, str):
            e = parse(e)
        if isinstance(e, ast.BoolOp):
            vs = [self._truth(v, dec, vals, extra) for v in e.values]
            if isinstance(e.op, ast.And):
                if any(v is False for v in vs):
                    return False
                return True if all(v is True for v in vs) else None
            if any(v is True for v in vs):
                return True
            return False if all(v is False for v in vs) else None
        if isinstance(e, ast.UnaryOp) and isinstance(e.op, ast.Not):
            v = self._truth(e.operand, dec, vals, extra)
            return None if v is None else (not v)
        if isinstance(e, ast.IfExp):
            t = self._truth(e.test, dec, vals, extra)
            if t is None:
                a, b = self._truth(e.body, dec, vals, extra), self._truth(e.orelse, dec, vals, extra)
                return a if a == b else None
            return self._truth(e.body if t else e.orelse, dec, vals, extra)
        if isinstance(e, ast.Compare) and len(e.ops) > 1:
            left, res = e.left, True
            for op, right in zip(e.ops, e.comparators):
                v = self._truth(ast.Compare(left=left, ops=[op], comparators=[right]), dec, vals, extra)
                if v is False:
                    return False
                if v is None:
                    res = None
                left = right
            return res
        if isinstance(e, ast.Call) and chain(e.func) == "bool" and len(e.args) == 1 and not e.keywords:
            return self._truth(e.args[0], dec, vals, extra)
        s = self._static(e)
        if s is not None:
            return s
        stt = self._subject_test(e)
        if stt is not None:
            sub, tv = stt
            if sub in vals:
                return vals[sub] in tv
            return None
        k, pol = atom_key(_plain(e))
        if extra and k in extra:
            return extra[k] == pol
        if k in dec:
            return dec[k] == pol
        return None

    def atoms(self, e, out=None):
        """atom keys of the leaves of a boolean expression"""
        out = [] if out is None else out
        if isinstance(e, ast.BoolOp):
            for v in e.values:
                self.atoms(v, out)
        elif isinstance(e, ast.UnaryOp) and isinstance(e.op, ast.Not):
            self.atoms(e.operand, out)
        elif isinstance(e, ast.IfExp):
            for v in (e.test, e.body, e.orelse):
                self.atoms(v, out)
        elif isinstance(e, ast.Call) and chain(e.func) == "bool" and len(e.args) == 1 and not e.keywords:
            self.atoms(e.args[0], out)
        elif self._static(e) is None:
            k, pol = atom_key(_plain(e))
            if k not in out:
                out.append(k)
        return out

    def equiv(self, o, a, b):
        """are the truth values of a and b equal on outcome o, for every assignment to the atoms o leaves undecided?"""
        if isinstance(a, str):
            a = parse(a)
        if isinstance(b, str):
            b = parse(b)
        free = [k for k in self.atoms(a, self.atoms(b)) if k not in o.dec]
        if len(free) > 8:
            return False
        for m in range(1 << len(free)):
            extra = {k: bool(m >> i & 1) for i, k in enumerate(free)}
            ta, tb = o.truth(a, extra), o.truth(b, extra)
            if ta is None or tb is None or ta != tb:
                return False
        return True

    # ------------------------------------------------------------------ helper resolution
    def _followable(self, fi):
        if not self.follow or fi is None:
            return False
        if fi.qn in self.base or fi.qn.split("#")[0] in self.base:
            return False
        if self.opaque is not None and self.opaque(fi):
            return False
        n = fi.node
        if isinstance(n, ast.Lambda):
            return True
        if n.name.startswith("__") and n.name.endswith("__"):
            return False
        if _inline._decorator_kind(n) is None:
            return False
        a = n.args
        if a.vararg or a.kwarg:
            return False
        for x in _inline._own_nodes(n):
            if isinstance(x, (ast.Yield, ast.YieldFrom)):
                return False
        return True

    def _overridden(self, owner, name):
        n = 0
        for q in set(self.prog.subclasses(owner)) | set(self.prog.mro(owner)):
            ci = self.prog.classes.get(q)
            if ci is not None and name in ci.methods:
                n += 1
        return n > 1

    def _callee(self, call, env, fr):
        """-> (kind, FuncInfo|value, recv expr or None) for a call that is followed, else None.
        kind: plain (no implicit receiver) | method (receiver bound to first parameter) | lambda | closure"""
        f = call.func
        if isinstance(f, ast.Name):
            v = env.get(f.id)
            if isinstance(v, ast.Lambda) and hasattr(v, "_cenv"):
                return ("lambda", v, None)
            if isinstance(v, ast.Name) and hasattr(v, "_closure"):
                fi = v._closure[2]
                return ("closure", v, None) if self._followable(fi) else None
            if v is not None:
                return None
            q = self.prog.resolve_in_module(fr.fi.module, f.id)
            fi = self.prog.funcs.get(q)
            if fi is not None and fi.cls is None and fi.parent is None and self._followable(fi):
                return ("plain", fi, None)
            return None
        if isinstance(f, ast.Attribute):
            recv = f.value
            rv = env.get(recv.id) if isinstance(recv, ast.Name) else None
            rt = chain(rv) if rv is not None else (ast.unparse(recv) if not isinstance(recv, ast.Call) or ast.unparse(recv) in ("type(self)",) else None)
            if rt in ("self", "cls", "type(self)", "self.__class__") and fr.clsqn is not None:
                fi = self.prog.lookup_method(fr.clsqn, f.attr)
                if fi is None or not self._followable(fi) or self._overridden(fi.cls.qn, f.attr):
                    return None
                dk = _inline._decorator_kind(fi.node)
                if dk == "static":
                    return ("plain", fi, None)
                return ("method", fi, recv)
            c = chain(recv)
            if c is not None and rv is None:
                q = self.prog.resolve_in_module(fr.fi.module, c)
                if q in self.prog.classes:
                    fi = self.prog.lookup_method(q, f.attr)
                    if fi is None or not self._followable(fi) or self._overridden(fi.cls.qn, f.attr):
                        return None
                    dk = _inline._decorator_kind(fi.node)
                    if dk == "class":
                        return ("method", fi, recv)
                    return ("plain", fi, None)
                fi = self.prog.funcs.get(q + "." + f.attr)
                if fi is not None and fi.cls is None and fi.parent is None and self._followable(fi):
                    return ("plain", fi, None)
        return None

    def _bind(self, fnode, recv_val, args, kws, env, fr, kind, defaults_env=None):
        a = fnode.args
        ps = [x.arg for x in a.posonlyargs + a.args]
        if kind == "method":
            if not ps:
                return False
            env[ps[0]] = recv_val
            ps = ps[1:]
        if any(isinstance(x, ast.Starred) for x in args) or None in kws:
            return False
        if len(args) > len(ps):
            return False
        bound = set()
        for p, v in zip(ps, args):
            env[p] = v
            bound.add(p)
        names = ps + [x.arg for x in a.kwonlyargs]
        for k, v in kws.items():
            if k not in names or k in bound:
                return False
            env[k] = v
            bound.add(k)
        allps = [x.arg for x in a.posonlyargs + a.args]
        dflt = dict(zip(allps[len(allps) - len(a.defaults):], a.defaults))
        dflt.update({x.arg: d for x, d in zip(a.kwonlyargs, a.kw_defaults) if d is not None})
        st = _St()
        for p in names:
            if p not in bound:
                if p not in dflt:
                    return False
                env[p] = self._R(dflt[p], {}, fr, st, [], quiet=True)
        return True

    def _bind_lambda(self, src, v, args, kws, env):
        a = src.args
        ps = [x.arg for x in a.posonlyargs + a.args]
        if a.vararg or a.kwarg or len(args) > len(ps) or any(isinstance(x, ast.Starred) for x in args):
            return False
        dflt = dict(zip(ps[len(ps) - len(a.defaults):], v._defaults))
        dflt.update({x.arg: d for x, d in zip(a.kwonlyargs, v._kwdefaults) if d is not None})
        names = ps + [x.arg for x in a.kwonlyargs]
        bound = set()
        for p, x in zip(ps, args):
            env[p] = x
            bound.add(p)
        for k, x in kws.items():
            if k not in names or k in bound:
                return False
            env[k] = x
            bound.add(k)
        for p in names:
            if p not in bound:
                if p not in dflt:
                    return False
                env[p] = dflt[p]
        return True

    def _candidates(self, exprs, env, fr):
        """followable calls inside the expressions, innermost / leftmost first -> [(call, await-or-None, callee)]"""
        if not self.follow or fr.depth >= self.max_depth:
            return []
        out = []

        def visit(n, parent):
            if isinstance(n, (ast.Lambda, ast.FunctionDef, ast.AsyncFunctionDef, ast.ClassDef, ast.ListComp, ast.SetComp, ast.DictComp, ast.GeneratorExp)):
                return
            if isinstance(n, (ast.IfExp,)):
                visit(n.test, n)
                return
            if isinstance(n, ast.BoolOp):
                visit(n.values[0], n)
                return
            for c in ast.iter_child_nodes(n):
                visit(c, n)
            if isinstance(n, ast.Call):
                cal = self._callee(n, env, fr)
                if cal is None:
                    return
                kind, target, recv = cal
                fnode = origin(target) if kind == "lambda" else (target._closure[0] if kind == "closure" else target.node)
                is_async = isinstance(fnode, ast.AsyncFunctionDef)
                aw = parent if isinstance(parent, ast.Await) else None
                if is_async != (aw is not None):
                    return
                if any(isinstance(x, ast.Starred) for x in n.args) or any(k.arg is None for k in n.keywords):
                    return
                qn = target.qn if kind in ("plain", "method") else None
                if qn is not None and any(f.qn == qn for f, _ in fr.stack + ((fr.fi, None),)):
                    return  # recursion
                out.append((n, aw, cal))

        for e in exprs:
            if e is not None:
                visit(e, None)
        return out

    def _guarded(self, fr, nid):
        if fr.guarded:
            return True
        if nid is None:
            return False
        return any(l == "exc" and fr.cfg.nodes[d].kind == "handler" for d, l in fr.cfg.succ[nid])

    def _eval(self, fr, exprs, env, st, nid=None):
        """resolve a statement's expressions, following helper calls.
        yields (values, env, st, evs, exc): exc is the value of an explicit exception leaving a followed helper"""
        cands = self._candidates(exprs, env, fr)
        if not cands:
            st2 = st.fork()
            env2 = dict(env)
            evs = []
            vals = [self._R(e, env2, fr, st2, evs) for e in exprs]
            yield vals, env2, st2, evs, None
            return
        yield from self._expand(fr, exprs, env, st, cands, 0, {}, nid)

    def _expand(self, fr, exprs, env, st, cands, i, repl, nid=None):
        if i == len(cands):
            st2 = st.fork()
            env2 = dict(env)
            evs = []
            vals = [self._R(e, env2, fr, st2, evs, repl=repl) for e in exprs]
            st2.skip = tuple(x for call, aw, _c in cands if id(aw if aw is not None else call) in repl for x in (id(call), id(aw)))
            yield vals, env2, st2, evs, None
            return
        call, aw, (kind, target, recv) = cands[i]
        st1 = st.fork()
        evs = []
        env1 = dict(env)
        args = [self._R(a, env1, fr, st1, evs, repl=repl) for a in call.args]
        kws = {k.arg: self._R(k.value, env1, fr, st1, evs, repl=repl) for k in call.keywords}
        st1.events = st1.events + tuple(evs)
        if kind == "lambda":
            cenv = dict(target._cenv)
            if not self._bind_lambda(origin(target), target, args, kws, cenv):
                yield from self._expand(fr, exprs, env, st, cands[:i] + cands[i + 1:], i, repl, nid)
                return
            evs2 = []
            val = self._R(origin(target).body, cenv, target._fr, st1, evs2)
            st1.events = st1.events + tuple(evs2)
            r2 = dict(repl)
            r2[id(aw if aw is not None else call)] = val
            yield from self._expand(fr, exprs, env, st1, cands, i + 1, r2, nid)
            return
        if kind == "closure":
            fnode, cenv0, cfi, frp = target._closure
            cenv = dict(env1)  # late binding: the closure sees the defining frame's current bindings
            ok = self._bind(fnode, None, args, kws, cenv, fr, "plain")
            fr2 = _Frame(cfi, fr.clsqn, fr.stack + ((fr.fi, origin(call)),), fr.depth + 1, self._guarded(fr, nid))
            qn = cfi.qn
        else:
            cfi = target
            cenv = {}
            rv = self._R(recv, env1, fr, st1, [], quiet=True) if recv is not None else None
            fr2 = _Frame(cfi, self._clsqn(cfi), fr.stack + ((fr.fi, origin(call)),), fr.depth + 1, self._guarded(fr, nid))
            ok = self._bind(cfi.node, rv, args, kws, cenv, fr2, kind)
            qn = cfi.qn
        if not ok:
            yield from self._expand(fr, exprs, env, st, cands[:i] + cands[i + 1:], i, repl, nid)
            return
        if qn not in self.followed:
            self.followed.append(qn)
        for okind, val, st2, _env in self._run(fr2, cenv, st1):
            st2 = st2.fork()
            st2.ret = st.ret
            if okind == "return":
                st2.exc = st.exc
                st2.handled = st.handled
                r2 = dict(repl)
                r2[id(aw if aw is not None else call)] = val
                yield from self._expand(fr, exprs, env, st2, cands, i + 1, r2, nid)
            else:
                st2.handled = st.handled
                yield None, dict(env), st2, [], val

    # ------------------------------------------------------------------ the walk
    def _may_raise(self, stmt_exprs, skip=()):
        """may evaluating the expressions raise -- other than inside the followed calls (skip: ids of their Call / Await
        nodes), whose own statements have their own exceptional continuations"""
        for e in stmt_exprs:
            if e is None:
                continue
            for n in ast.walk(e):
                if id(n) in skip:
                    continue
                if isinstance(n, ast.Await) and id(n.value) in skip:
                    continue
                if isinstance(n, (ast.Await, ast.Subscript, ast.BinOp, ast.Yield, ast.YieldFrom)):
                    return True
                if isinstance(n, ast.Call) and not is_log_call(n):
                    return True
        return False

    def _run(self, fr, env0, st0):
        cfg = fr.cfg
        todo = [(cfg.entry, env0, st0, {})]
        produced = 0
        while todo:
            nid, env, st, visits = todo.pop()
            node = cfg.nodes[nid]
            kind = node.kind
            if nid == cfg.exit:
                v = st.ret
                if v is None:
                    v = ast.Constant(value=None)
                    v._fi = fr.fi
                    v._o = fr.fi.node
                produced += 1
                if produced > self.max_outcomes:
                    raise AnalysisError("symbolic walk of %s: more than %d paths" % (fr.fi.short, self.max_outcomes))
                yield "return", v, st, env
                continue
            if nid == cfg.rexit:
                yield "raise", st.exc, st, env
                continue

            def go(labels, env_, st_, vis_=visits):
                for d, l in reversed(cfg.succ[nid]):
                    if l in labels:
                        todo.append((d, env_, st_, vis_))

            if kind in ("entry", "T", "F"):
                go(("next", "back"), env, st)
                continue
            if kind == "join":
                if node.label == "while":
                    n = visits.get(nid, 0)
                    if n > self.loop_bound:
                        self.cuts += 1
                        continue
                    visits = dict(visits)
                    visits[nid] = n + 1
                go(("next", "back"), env, st, visits)
                continue
            if kind == "handler":
                st2 = st.fork()
                env2 = dict(env)
                st2.handled = st.exc
                if node.ast.name:
                    env2[node.ast.name] = st.exc
                st2.exc = None
                go(("next",), env2, st2)
                continue
            a = node.ast
            if kind == "raise":
                exprs = [a.exc, a.cause]
                for vals, env2, st2, evs, exc in self._eval(fr, exprs, env, st, nid):
                    if exc is not None:
                        self._throw(fr, nid, env, st2, exc, not getattr(exc, "_implicit", False), todo, visits)
                        continue
                    v = vals[0] if a.exc is not None else st.handled
                    ev = Event("raise", a, fr.fi, fr.stack)
                    ev.value = v
                    st2.events = st2.events + tuple(evs) + (ev,)
                    self._throw(fr, nid, env2, st2, v, not getattr(v, "_implicit", False), todo, visits)
                continue
            if kind == "test":
                for vals, env2, st2, evs, exc in self._eval(fr, [a], env, st, nid):
                    if exc is not None:
                        self._throw(fr, nid, env, st2, exc, not getattr(exc, "_implicit", False), todo, visits)
                        continue
                    st2.events = st2.events + tuple(evs)
                    self._implicit(fr, nid, env, st, evs, [a], todo, visits, st2.skip)
                    self._decide(fr, node, vals[0], env2, st2, todo, visits)
                continue
            if kind == "for":
                n = visits.get(nid, 0)
                vis2 = dict(visits)
                vis2[nid] = n + 1
                for vals, env2, st2, evs, exc in self._eval(fr, [a.iter], env, st, nid):
                    if exc is not None:
                        self._throw(fr, nid, env, st2, exc, not getattr(exc, "_implicit", False), todo, visits)
                        continue
                    st2.events = st2.events + tuple(evs)
                    self._implicit(fr, nid, env, st, evs, [a.iter], todo, visits, st2.skip)
                    lit = vals[0].elts if isinstance(vals[0], (ast.Tuple, ast.List)) and len(vals[0].elts) <= 8 and not any(isinstance(x, ast.Starred) for x in vals[0].elts) else None
                    for d, l in reversed(cfg.succ[nid]):
                        if l == "F" and (lit is None or n >= len(lit)):
                            todo.append((d, env2, st2, vis2))
                        elif l == "T" and (n < self.loop_bound if lit is None else n < len(lit)):
                            st3 = st2.fork()
                            env3 = dict(env2)
                            # a literal tuple / list is iterated element by element, exactly
                            el = self._elem(vals[0], a, fr, st3) if lit is None else lit[n]
                            evs3 = []
                            self._bind_target(a.target, el, env3, fr, st3, evs3, a)
                            st3.events = st3.events + tuple(evs3)
                            todo.append((d, env3, st3, vis2))
                continue
            if kind == "with":
                exprs = [it.context_expr for it in a.items]
                for vals, env2, st2, evs, exc in self._eval(fr, exprs, env, st, nid):
                    if exc is not None:
                        self._throw(fr, nid, env, st2, exc, not getattr(exc, "_implicit", False), todo, visits)
                        continue
                    for it, v in zip(a.items, vals):
                        if it.optional_vars is not None:
                            en = ast.Call(func=ast.Name(id="__enter__", ctx=ast.Load()), args=[v], keywords=[])
                            en._o, en._fi, en._inst, en._pure = it.context_expr, fr.fi, st2.n, False
                            st2.n += 1
                            self._bind_target(it.optional_vars, en, env2, fr, st2, evs, a)
                    st2.events = st2.events + tuple(evs)
                    self._implicit(fr, nid, env, st, evs, exprs, todo, visits, st2.skip)
                    go(("next",), env2, st2)
                continue
            # stmt / return
            exprs = self._stmt_exprs(a)
            if exprs is None:
                go(("next", "back"), env, st)
                continue
            for vals, env2, st2, evs, exc in self._eval(fr, exprs, env, st, nid):
                if exc is not None:
                    self._throw(fr, nid, env, st2, exc, not getattr(exc, "_implicit", False), todo, visits)
                    continue
                self._effect(fr, a, vals, env2, st2, evs)
                st2.events = st2.events + tuple(evs)
                self._implicit(fr, nid, env, st, evs, exprs, todo, visits, st2.skip)
                go(("next", "back"), env2, st2)

    def _stmt_exprs(self, a):
        if isinstance(a, ast.Assign):
            return [a.value]
        if isinstance(a, ast.AnnAssign):
            return [a.value] if a.value is not None else None
        if isinstance(a, ast.AugAssign):
            return [a.value]
        if isinstance(a, ast.Expr):
            return [a.value]
        if isinstance(a, ast.Return):
            return [a.value]
        if isinstance(a, ast.Match):
            return [a.subject]
        if isinstance(a, ast.Delete):
            return []
        if isinstance(a, (ast.FunctionDef, ast.AsyncFunctionDef)):
            return []
        return None

    def _effect(self, fr, a, vals, env, st, evs):
        if isinstance(a, ast.Assign):
            for t in a.targets:
                self._bind_target(t, vals[0], env, fr, st, evs, a)
        elif isinstance(a, ast.AnnAssign):
            self._bind_target(a.target, vals[0], env, fr, st, evs, a)
        elif isinstance(a, ast.AugAssign):
            old = self._R(_as_load(a.target), env, fr, st, evs)
            v = ast.BinOp(left=old, op=a.op, right=vals[0])
            v._o, v._fi = a, fr.fi
            self._bind_target(a.target, v, env, fr, st, evs, a)
        elif isinstance(a, ast.Return):
            if vals[0] is not None:
                st.ret = vals[0]
            else:
                v = ast.Constant(value=None)
                v._o, v._fi = a, fr.fi
                st.ret = v
        elif isinstance(a, ast.Delete):
            for t in a.targets:
                if isinstance(t, ast.Name):
                    env.pop(t.id, None)
                elif isinstance(t, (ast.Attribute, ast.Subscript)):
                    tg = self._R(_as_load(t), env, fr, st, evs)
                    ev = Event("del", a, fr.fi, fr.stack)
                    ev.target = tg
                    evs.append(ev)
                    kt = K(tg)
                    st.ver[kt] = st.ver.get(kt, 0) + 1
        elif isinstance(a, (ast.FunctionDef, ast.AsyncFunctionDef)):
            v = ast.Name(id=a.name, ctx=ast.Load())
            cfi = self._func_of_node(a)
            v._o, v._fi = a, fr.fi
            if cfi is not None:
                v._closure = (a, env, cfi, fr)
            v._inst = st.n
            st.n += 1
            env[a.name] = v

    def _implicit(self, fr, nid, env, st, evs, exprs, todo, visits, skip=()):
        """the statement raises something: continue in the handlers that may take an arbitrary Exception (here, or --
        inside a followed helper -- in a function this was followed from)"""
        cfg = fr.cfg
        hs = [d for d, l in cfg.succ[nid] if l == "exc" and cfg.nodes[d].kind in ("handler",)]
        if not (hs or fr.guarded) or not self._may_raise(exprs, skip):
            return
        st2 = st.fork()
        pevs = []
        for e in evs:
            if e.kind in ("call", "await"):
                p = Event(e.kind, e.node, e.fi, e.stack)
                p.func, p.args, p.kw, p.inst, p.maybe, p.pure, p.expr, p.awaited, p.value = e.func, e.args, e.kw, e.inst, e.maybe, e.pure, e.expr, e.awaited, e.value
                p.partial = True
                pevs.append(p)
        st2.events = st2.events + tuple(pevs)
        st2.n = st.n + len(evs) + 1
        st2.epoch = st.epoch + 1
        x = ast.Name(id="__exc__", ctx=ast.Load())
        x._o, x._fi, x._inst, x._implicit = cfg.nodes[nid].ast, fr.fi, st2.n, True
        st2.n += 1
        self._throw(fr, nid, env, st2, x, False, todo, visits)

    def _throw(self, fr, nid, env, st, exc, explicit, todo, visits):
        cfg = fr.cfg
        clsq = self._exc_class(exc) if explicit else (self.implicit_cls or "Exception")
        st2 = st.fork()
        st2.exc = exc
        pushed = []
        for d, l in cfg.succ[nid]:
            if l != "exc":
                continue
            dn = cfg.nodes[d]
            if dn.kind == "handler":
                c = self._catches(dn.ast, clsq, fr.fi)
                if not explicit and c is False and self.implicit_cls is None and self._narrower(dn.ast, fr.fi):
                    c = None  # an arbitrary Exception may be of the handler's narrower class
                if c is False:
                    continue
                pushed.append((d, env, st2, visits))
                if c is True:
                    break
            elif explicit or d != cfg.rexit:
                if explicit or cfg.nodes[d].kind == "join":
                    pushed.append((d, env, st2, visits))
        if explicit and not pushed and not any(l == "exc" for _, l in cfg.succ[nid]):
            pushed.append((cfg.rexit, env, st2, visits))
        if not explicit and fr.guarded and not any(cfg.nodes[d].kind == "handler" and self._catches(cfg.nodes[d].ast, self.implicit_cls or "Exception", fr.fi) is True for d, _e, _s, _v in pushed):
            # an arbitrary exception inside a followed helper that nothing here certainly takes reaches the caller's handlers
            pushed.append((cfg.rexit, env, st2, visits))
        todo.extend(reversed(pushed))

    def _decide(self, fr, node, v, env, st, todo, visits):
        cfg = fr.cfg
        nid = node.id
        tnode = fnode = None
        for d, l in cfg.succ[nid]:
            if l == "T":
                tnode = d
            elif l == "F":
                fnode = d
        s = self._static(v)
        if s is not None:
            d = tnode if s else fnode
            if d is not None:
                todo.append((d, env, st, visits))
            return
        stt = self._subject_test(v)
        if stt is not None:
            sub, tv = stt
            if sub in st.vals:
                d = tnode if st.vals[sub] in tv else fnode
                if d is not None:
                    todo.append((d, env, st, visits))
                return
            for val in reversed(self.subjects[sub]):
                st2 = st.fork()
                st2.vals[sub] = val
                d = tnode if val in tv else fnode
                if d is not None:
                    todo.append((d, env, st2, visits))
            return
        k, pol = atom_key(_plain(v))
        if k in st.dec:
            d = tnode if st.dec[k] == pol else fnode
            if d is not None:
                todo.append((d, env, st, visits))
            return
        for outcome, d in ((False, fnode), (True, tnode)):
            if d is None:
                continue
            st2 = st.fork()
            st2.dec[k] = outcome == pol
            st2.decl = st2.decl + (Dec(v, outcome, k, len(st2.events), node.ast, fr.fi),)
            todo.append((d, env, st2, visits))


def _as_load(t):
    new = clone(t)
    for n in ast.walk(new):
        if hasattr(n, "ctx"):
            n.ctx = ast.Load()
    # keep the identity of sub-expressions irrelevant: targets are re-resolved by the caller
    return new


_B = None


def _BUILTINS():
    global _B
    if _B is None:
        from ..model import BUILTIN_EXC
        _B = set(BUILTIN_EXC)
    return _B
