"""Semantic helpers of rules/c03.py (no rule text in here).

Everything works on syntax trees only.  The helpers answer questions about *meaning*
("which expression does this value come from", "which call does this callable perform",
"which accesses of a dict-valued field are there and under which key", "which comparison
facts hold on this path") so that the clauses of C03 do not depend on statement order,
names of locals / helpers, or on one particular spelling of a construct.
"""

import ast
import copy

from ..rulekit import *
from ..model import FuncInfo
from ..norm import Normalizer, Poly
from ..paths import PathModel


# ---------------------------------------------------------------------------
# local canonical view of a function
#
# Engine gap worked around here (see the final report of the C03 hardening): the
# copy propagation of inline.py only looks at `x = <pure>`; a parallel assignment
# `code, mtype = message.code, message.mtype` therefore survives, and neither the
# path model (subject `message.mtype`) nor absdom.Interp (tuple targets become
# opaque "elt" values) see through it.  `view(fi)` returns a FuncInfo over a deep
# copy of the function in which such assignments are split into single ones (only
# when no target is read by any of the values, so evaluation order is immaterial)
# and the engine's own copy propagation has been re-run.


def _split_parallel(body):
    changed = False
    i = 0
    while i < len(body):
        st = body[i]
        if (
            isinstance(st, ast.Assign)
            and len(st.targets) == 1
            and isinstance(st.targets[0], (ast.Tuple, ast.List))
            and isinstance(st.value, (ast.Tuple, ast.List))
            and len(st.targets[0].elts) == len(st.value.elts)
            and all(isinstance(t, ast.Name) for t in st.targets[0].elts)
            and not any(isinstance(v, ast.Starred) for v in st.value.elts)
        ):
            tn = [t.id for t in st.targets[0].elts]
            # sequential `t0 = v0; t1 = v1; ...` equals the parallel form when no value reads a target that
            # the sequence has already rebound (`t, n = t * 2, n + 1` is fine, `a, b = b, a` is not)
            safe = len(set(tn)) == len(tn)
            for j, v in enumerate(st.value.elts):
                if names_in(v) & set(tn[:j]):
                    safe = False
            if safe:
                new = []
                for t, v in zip(st.targets[0].elts, st.value.elts):
                    a = ast.Assign(targets=[ast.Name(id=t.id, ctx=ast.Store())], value=v)
                    ast.copy_location(a, st)
                    ast.fix_missing_locations(a)
                    new.append(a)
                body[i : i + 1] = new
                changed = True
                i += len(new)
                continue
        for field in ("body", "orelse", "finalbody"):
            lst = getattr(st, field, None)
            if isinstance(lst, list) and lst and isinstance(lst[0], ast.stmt):
                if _split_parallel(lst):
                    changed = True
        for h in getattr(st, "handlers", []) or []:
            if _split_parallel(h.body):
                changed = True
        for c in getattr(st, "cases", []) or []:
            if _split_parallel(c.body):
                changed = True
        i += 1
    return changed


def _module_literals(module):
    """Module-level names bound exactly once to a literal tuple/list/set/frozenset of plain names and
    constants (`_ENDING = (ACK, RST)`): a membership test against such a name means the literal."""
    out, count = {}, {}
    for st in module.tree.body:
        tg = []
        if isinstance(st, ast.Assign):
            tg = [t for t in st.targets]
        elif isinstance(st, (ast.AnnAssign, ast.AugAssign)):
            tg = [st.target]
        for t in tg:
            for n in ast.walk(t):
                if isinstance(n, ast.Name):
                    count[n.id] = count.get(n.id, 0) + 1
        if isinstance(st, (ast.Assign, ast.AnnAssign)) and len(tg) == 1 and isinstance(tg[0], ast.Name) and st.value is not None:
            v = st.value
            if isinstance(v, ast.Call) and chain(v.func) in ("frozenset", "set", "tuple") and len(v.args) == 1 and not v.keywords:
                v = v.args[0]
            if isinstance(v, (ast.Tuple, ast.List, ast.Set)) and v.elts and all(chain(x) is not None or isinstance(x, ast.Constant) for x in v.elts):
                out[tg[0].id] = ast.Tuple(elts=list(v.elts), ctx=ast.Load())
    return {k: v for k, v in out.items() if count.get(k) == 1}


def _inline_module_literals(node, module):
    lits = _module_literals(module)
    if not lits:
        return False
    bound = {n.id for n in ast.walk(node) if isinstance(n, ast.Name) and isinstance(n.ctx, (ast.Store, ast.Del))}
    bound |= {a.arg for f in ast.walk(node) if isinstance(f, (ast.FunctionDef, ast.AsyncFunctionDef, ast.Lambda)) for a in f.args.posonlyargs + f.args.args + f.args.kwonlyargs}
    changed = False
    for n in ast.walk(node):
        if isinstance(n, ast.Compare) and len(n.ops) == 1 and isinstance(n.ops[0], (ast.In, ast.NotIn)):
            r = n.comparators[0]
            if isinstance(r, ast.Name) and r.id in lits and r.id not in bound:
                n.comparators[0] = ast.copy_location(copy.deepcopy(lits[r.id]), r)
                ast.fix_missing_locations(n)
                changed = True
    return changed


def view(fi):
    v = getattr(fi, "_c03_view", None)
    if v is not None:
        return v
    node = copy.deepcopy(fi.node)
    v = fi
    lit = _inline_module_literals(node, fi.module)
    if _split_parallel(node.body) or lit:
        try:
            from ..inline import _CopyProp

            _CopyProp(node).run()
        except ImportError:
            pass
        v = FuncInfo(fi.qn, node, fi.module, fi.cls, fi.parent)
    fi._c03_view = v
    return v


# ---------------------------------------------------------------------------
# calls: resolution of the callee, binding of arguments, value of a call


def own_class(fi):
    f = fi
    while f is not None:
        if f.cls is not None:
            return f.cls
        f = f.parent
    return None


def _decorators(fnode):
    out = set()
    for d in getattr(fnode, "decorator_list", []):
        try:
            out.add(ast.unparse(d))
        except Exception:
            out.add("?")
    return out


def is_static(fnode):
    return "staticmethod" in _decorators(fnode)


def resolve_callee(prog, fi, call):
    """FuncInfo of the package function a call statically resolves to, else None
    (dynamically dispatched = overridden methods are not resolved)."""
    f = resolve_local(fi.node, call.func) if isinstance(call.func, ast.Name) else call.func
    if isinstance(f, ast.Attribute):
        recv = resolve_local(fi.node, f.value)
        rt = chain(recv)
        ci = own_class(fi)
        if ci is not None and (rt in ("self", "cls") or (rt is None and stmt_text(recv) in ("type(self)", "self.__class__"))):
            target = prog.lookup_method(ci.qn, f.attr)
            if target is None:
                return None
            for sub in prog.subclasses(ci.qn):
                if sub != ci.qn and sub in prog.classes and f.attr in prog.classes[sub].methods:
                    return None
            return target
        if rt:
            return prog.funcs.get(prog.resolve_in_module(fi.module, rt + "." + f.attr))
        return None
    if isinstance(f, ast.Name):
        return prog.funcs.get(prog.resolve_in_module(fi.module, f.id))
    return None


def bind_args(fnode, call_args, call_keywords, drop_first):
    """{parameter name: argument expression} for a call of the function `fnode`
    (defaults filled in), or None for *args/**kwargs shapes."""
    a = fnode.args
    if a.vararg or a.kwarg:
        return None
    pos = [x.arg for x in a.posonlyargs + a.args]
    defaults = dict(zip(pos[len(pos) - len(a.defaults) :], a.defaults))
    for k, d in zip(a.kwonlyargs, a.kw_defaults):
        if d is not None:
            defaults[k.arg] = d
    if drop_first:
        pos = pos[1:]
    names = pos + [k.arg for k in a.kwonlyargs]
    bound = {}
    for i, arg in enumerate(call_args):
        if isinstance(arg, ast.Starred) or i >= len(pos):
            return None
        bound[pos[i]] = arg
    for kw in call_keywords:
        if kw.arg is None or kw.arg in bound or kw.arg not in names:
            return None
        bound[kw.arg] = kw.value
    for p in names:
        if p not in bound:
            if p not in defaults:
                return None
            bound[p] = defaults[p]
    return bound


def method_args(target_fi, call):
    """Arguments of `recv.method(...)` bound to the parameter names of target_fi (self dropped)."""
    drop = target_fi.cls is not None and not is_static(target_fi.node)
    return bind_args(target_fi.node, call.args, call.keywords, drop)


class _Subst(ast.NodeTransformer):
    def __init__(self, mapping):
        self.mapping = mapping

    def visit_Name(self, n):
        if isinstance(n.ctx, ast.Load) and n.id in self.mapping:
            return ast.copy_location(copy.deepcopy(self.mapping[n.id]), n)
        return n


def subst(e, mapping):
    e = _Subst(mapping).visit(copy.deepcopy(e))
    ast.fix_missing_locations(e)
    return e


def straight_return(fnode):
    """The returned expression of a function whose body is a straight line of
    local bindings (and logging) followed by one `return <expr>`; else None."""
    body = list(fnode.body)
    if body and isinstance(body[0], ast.Expr) and isinstance(body[0].value, ast.Constant) and isinstance(body[0].value.value, str):
        body = body[1:]
    rets = [n for n in walk_no_nested(fnode) if isinstance(n, ast.Return)]
    if len(rets) != 1 or not body or rets[0] is not body[-1] or rets[0].value is None:
        return None
    for st in body[:-1]:
        if isinstance(st, ast.Assign) and len(st.targets) == 1 and isinstance(st.targets[0], ast.Name):
            continue
        if isinstance(st, ast.AnnAssign) and isinstance(st.target, ast.Name):
            continue
        if isinstance(st, ast.Expr) and isinstance(st.value, ast.Call) and is_log_call(st.value):
            continue
        if isinstance(st, ast.Pass):
            continue
        return None
    return rets[0].value


class _Close(ast.NodeTransformer):
    def __init__(self, prog, fi, depth):
        self.prog = prog
        self.fi = fi
        self.depth = depth
        self.env = norm.local_env(fi.node)
        self.stack = set()

    def visit_Name(self, n):
        if isinstance(n.ctx, ast.Load) and n.id in self.env and n.id not in self.stack:
            self.stack.add(n.id)
            try:
                return self.visit(copy.deepcopy(self.env[n.id]))
            finally:
                self.stack.discard(n.id)
        return n

    def _opaque(self, n):
        return n

    def visit_Subscript(self, n):
        self.generic_visit(n)
        # (a, b)[0] -> a
        if isinstance(n.value, (ast.Tuple, ast.List)) and isinstance(n.ctx, ast.Load) and not any(isinstance(x, ast.Starred) for x in n.value.elts):
            try:
                k = norm.consteval(n.slice)
            except norm.NormError:
                return n
            if isinstance(k, int) and not isinstance(k, bool) and -len(n.value.elts) <= k < len(n.value.elts):
                return n.value.elts[k]
        return n

    visit_Lambda = visit_ListComp = visit_SetComp = visit_DictComp = visit_GeneratorExp = _opaque

    def visit_Call(self, n):
        callee = resolve_callee(self.prog, self.fi, n) if self.depth > 0 else None
        self.generic_visit(n)
        if callee is None or callee.node is self.fi.node or callee.is_async:
            return n
        ret = straight_return(callee.node)
        if ret is None:
            return n
        decos = _decorators(callee.node)
        if "classmethod" in decos:
            return n  # not modelled
        is_method = callee.cls is not None and "staticmethod" not in decos
        if is_method and isinstance(n.func, ast.Attribute):
            rc = chain(n.func.value)
            if rc and self.prog.resolve_in_module(self.fi.module, rc) in self.prog.classes:
                return n  # Class.method(obj, ...): not modelled
        b = bind_args(callee.node, n.args, n.keywords, is_method)
        if b is None:
            return n
        inner = closed(self.prog, callee, ret, self.depth - 1)
        if is_method:
            first = (callee.node.args.posonlyargs + callee.node.args.args)[0].arg
            b = dict(b)
            b[first] = n.func.value if isinstance(n.func, ast.Attribute) else ast.Name(id="self", ctx=ast.Load())
        return ast.copy_location(subst(inner, b), n)


def closed(prog, fi, e, depth=3):
    """`e` with single-assignment locals of fi replaced by their defining
    expression and calls of straight-line package helpers replaced by the helper's
    returned expression (parameters bound to the arguments).  The result denotes
    the same value; it is used for comparisons of normal forms only."""
    out = _Close(prog, fi, depth).visit(copy.deepcopy(e))
    ast.fix_missing_locations(out)
    return out


def synthetic_method(ci, name, body_expr):
    """FuncInfo of `def name(self): return <body_expr>` in class ci: gives an expression that lives in the class
    body (the lambda of `NAME = property(lambda self: ...)`) the scope `closed` / `resolve_callee` need."""
    a = ast.arguments(posonlyargs=[], args=[ast.arg(arg="self")], vararg=None, kwonlyargs=[], kw_defaults=[], kwarg=None, defaults=[])
    fn = ast.FunctionDef(name=name, args=a, body=[ast.Return(value=body_expr)], decorator_list=[], returns=None, type_comment=None, type_params=[])
    ast.copy_location(fn, body_expr)
    ast.fix_missing_locations(fn)
    return FuncInfo(ci.qn + "." + name, fn, ci.module, ci, None)


def self_calls(fi, name):
    """Calls `self.<name>(...)` in fi (receiver and bound-method aliases resolved)."""
    out = []
    for c in calls_in(fi.node):
        f = resolve_local(fi.node, c.func)
        if isinstance(f, ast.Attribute) and f.attr == name and chain(resolve_local(fi.node, f.value)) == "self":
            out.append(c)
    return out


def calls_on(fi, recv_chain, names):
    """Calls `<recv_chain>.<name>(...)`, name in names, receiver aliases resolved."""
    out = []
    for c in calls_in(fi.node):
        f = resolve_local(fi.node, c.func)
        if isinstance(f, ast.Attribute) and f.attr in names and chain(resolve_local(fi.node, f.value)) == recv_chain:
            out.append(c)
    return out


def resolved_func_name(prog, fi, func_expr):
    c = chain(resolve_local(fi.node, func_expr))
    return prog.resolve_in_module(fi.module, c) if c else None


# ---------------------------------------------------------------------------
# callables: lambda, nested def, functools.partial, bound method -- one model


def _nested_def(fi, name):
    for n in walk_no_nested(fi.node):
        if isinstance(n, (ast.FunctionDef, ast.AsyncFunctionDef)) and n.name == name and n is not fi.node:
            return n
    return None


def callable_call(prog, fi, cb, extra_args, target_attr):
    """What does calling `cb(*extra_args)` do?  -> (func expr, [args], [keywords], why) of the one call
    of a method named target_attr it performs, all expressed in the scope of fi; (None, .., why) if the
    callable is not understood.  lambda / nested def: parameters are bound to the extra arguments, then to
    their defaults (evaluated in fi's scope when the callable is created); free names are fi's names
    (captured by reference -- the caller must check that they are not rebound)."""
    cbr = resolve_local(fi.node, cb)
    if isinstance(cbr, ast.Call) and resolved_func_name(prog, fi, cbr.func) == "functools.partial" and cbr.args:
        if any(isinstance(x, ast.Starred) for x in cbr.args) or any(k.arg is None for k in cbr.keywords):
            raise AnalysisError("timer callback outside the rule's vocabulary: " + "partial with star arguments")
        f, a, k, why = callable_call(prog, fi, cbr.args[0], list(cbr.args[1:]) + list(extra_args), target_attr)
        if f is None:
            return f, a, k, why
        return f, a, list(cbr.keywords) + list(k), "partial"
    if isinstance(cbr, ast.Attribute):
        if cbr.attr != target_attr:
            return None, None, None, "callback is %s" % stmt_text(cbr)
        return cbr, list(extra_args), [], "bound method"
    fnode = None
    if isinstance(cbr, ast.Lambda):
        fnode = cbr
    elif isinstance(cbr, ast.Name):
        fnode = _nested_def(fi, cbr.id)
    if fnode is None:
        raise AnalysisError("timer callback outside the rule's vocabulary: " + "%s is not a lambda, nested def, partial or bound method" % stmt_text(cb))
    a = fnode.args
    if a.vararg or a.kwarg:
        raise AnalysisError("timer callback outside the rule's vocabulary: " + "callback with *args")
    pos = a.posonlyargs + a.args
    defaults = dict(zip([x.arg for x in pos][len(pos) - len(a.defaults) :], a.defaults))
    for k, d in zip(a.kwonlyargs, a.kw_defaults):
        if d is not None:
            defaults[k.arg] = d
    mapping = {}
    if len(extra_args) > len(pos):
        return None, None, None, "more timer arguments than callback parameters"
    for p, x in zip(pos, extra_args):
        mapping[p.arg] = x
    for p in pos[len(extra_args) :] + a.kwonlyargs:
        if p.arg not in defaults:
            return None, None, None, "callback parameter %s is never bound" % p.arg
        mapping[p.arg] = defaults[p.arg]
    if isinstance(fnode, ast.Lambda):
        top = [fnode.body]
        allcalls = [c for c in ast.walk(fnode.body) if isinstance(c, ast.Call)]
    else:
        top = [st.value for st in fnode.body if isinstance(st, (ast.Expr, ast.Return)) and st.value is not None]
        top = [t.value if isinstance(t, ast.Await) else t for t in top]
        allcalls = [c for st in fnode.body for c in ast.walk(st) if isinstance(c, ast.Call)]
        rebound = {n.id for st in fnode.body for n in ast.walk(st) if isinstance(n, ast.Name) and isinstance(n.ctx, ast.Store)}
        if rebound:
            raise AnalysisError("timer callback outside the rule's vocabulary: " + "callback rebinds names (%s)" % ", ".join(sorted(rebound)))
    hits = [c for c in allcalls if isinstance(c.func, ast.Attribute) and c.func.attr == target_attr]
    if len(hits) > 1:
        raise AnalysisError("timer callback outside the rule's vocabulary: %d calls of %s" % (len(hits), target_attr))
    if not hits:
        return None, None, None, "no call of %s in the callback" % target_attr
    call = hits[0]
    if not any(call is t for t in top):
        raise AnalysisError("timer callback outside the rule's vocabulary: " + "the %s call is not an unconditional statement of the callback" % target_attr)
    if any(isinstance(x, ast.Starred) for x in call.args) or any(k.arg is None for k in call.keywords):
        raise AnalysisError("timer callback outside the rule's vocabulary: " + "star arguments")
    f = subst(call.func, mapping)
    args = [subst(x, mapping) for x in call.args]
    kws = [ast.keyword(arg=k.arg, value=subst(k.value, mapping)) for k in call.keywords]
    return f, args, kws, "callback"


# ---------------------------------------------------------------------------
# accesses of a dict-valued field, every spelling


class Access:
    __slots__ = ("kind", "node", "key", "value", "default", "how")

    def __init__(self, kind, node, key=None, value=None, default=None, how=""):
        self.kind = kind  # read test insert remove iter other
        self.node = node
        self.key = key
        self.value = value  # insert: the stored value expression
        self.default = default  # get/pop: the default expression (None = raises / returns None for get)
        self.how = how

    def __repr__(self):
        return "<%s %s %s>" % (self.kind, self.how, stmt_text(self.node, 60))


def table_accesses(fi, field, nested=True):
    """Every access of the dict `field` (e.g. 'self._active_exchanges') in fi:
    d[k] / d.get(k[, dflt]) / d.__getitem__(k)                      -> read
    k in d / k not in d / d.__contains__(k)                         -> test
    d[k] = v / d.setdefault(k, v) / d.update({k: v}) / __setitem__  -> insert
    d.pop(k[, dflt]) / del d[k] / d.__delitem__(k)                  -> remove
    iteration over d, d.items(), d.keys(), d.values()               -> iter
    clear / popitem / update(<non literal>) / augmented stores       -> other
    Local aliases of the table (`t = self._active_exchanges`) are followed."""
    fnode = fi.node

    def is_tab(e):
        return chain(resolve_local(fnode, e)) == field

    out = []
    seen_sub = set()
    it = ast.walk(fnode) if nested else walk_no_nested(fnode)
    for n in it:
        if isinstance(n, (ast.Assign, ast.AnnAssign)):
            targets = n.targets if isinstance(n, ast.Assign) else [n.target]
            for t in targets:
                if isinstance(t, ast.Subscript) and is_tab(t.value):
                    seen_sub.add(id(t))
                    if getattr(n, "value", None) is not None:
                        out.append(Access("insert", n, t.slice, n.value, how="setitem"))
                elif isinstance(t, (ast.Tuple, ast.List)):
                    for tt in ast.walk(t):
                        if isinstance(tt, ast.Subscript) and is_tab(tt.value):
                            seen_sub.add(id(tt))
                            out.append(Access("insert", n, tt.slice, None, how="setitem(unpacked)"))
        elif isinstance(n, ast.AugAssign):
            t = n.target
            if isinstance(t, ast.Subscript) and is_tab(t.value):
                seen_sub.add(id(t))
                out.append(Access("other", n, t.slice, how="augmented"))
            elif is_tab(t) and isinstance(n.op, ast.BitOr) and isinstance(n.value, ast.Dict) and all(k is not None for k in n.value.keys):
                for k, v in zip(n.value.keys, n.value.values):
                    out.append(Access("insert", n, k, v, how="|="))
        elif isinstance(n, ast.Delete):
            for t in n.targets:
                if isinstance(t, ast.Subscript) and is_tab(t.value):
                    seen_sub.add(id(t))
                    out.append(Access("remove", n, t.slice, how="del"))
        elif isinstance(n, ast.Call) and isinstance(n.func, ast.Attribute) and is_tab(n.func.value):
            m = n.func.attr
            a = n.args
            if m in ("get", "__getitem__") and a:
                out.append(Access("read", n, a[0], default=a[1] if len(a) > 1 else None, how=m))
            elif m == "pop" and a:
                out.append(Access("remove", n, a[0], default=a[1] if len(a) > 1 else None, how="pop"))
            elif m == "__delitem__" and a:
                out.append(Access("remove", n, a[0], how="del"))
            elif m in ("setdefault", "__setitem__") and len(a) >= 1:
                out.append(Access("insert", n, a[0], a[1] if len(a) > 1 else ast.Constant(value=None), how=m))
            elif m == "update" and len(a) == 1 and not n.keywords and isinstance(a[0], ast.Dict) and all(k is not None for k in a[0].keys):
                for k, v in zip(a[0].keys, a[0].values):
                    out.append(Access("insert", n, k, v, how="update"))
            elif m == "__contains__" and a:
                out.append(Access("test", n, a[0], how=m))
            elif m in ("items", "keys", "values", "copy"):
                out.append(Access("iter", n, how=m))
            else:
                out.append(Access("other", n, how=m))
        elif isinstance(n, ast.Compare) and len(n.ops) == 1 and isinstance(n.ops[0], (ast.In, ast.NotIn)) and is_tab(n.comparators[0]):
            out.append(Access("test", n, n.left, how="in"))
        elif isinstance(n, (ast.For, ast.AsyncFor)) and is_tab(n.iter):
            out.append(Access("iter", n, how="for"))
        elif isinstance(n, ast.comprehension) and is_tab(n.iter):
            out.append(Access("iter", n, how="comprehension"))
    it = ast.walk(fnode) if nested else walk_no_nested(fnode)
    for n in it:
        if isinstance(n, ast.Subscript) and id(n) not in seen_sub and is_tab(n.value):
            if isinstance(n.ctx, ast.Load):
                out.append(Access("read", n, n.slice, how="getitem"))
    return out


def possible_values(fi, e, depth=4):
    """The expressions a value may come from: a name is followed through *all* its plain
    assignments (every candidate must satisfy what the caller checks); both arms of a
    conditional expression count.  None if some binding is not a plain assignment."""
    if depth == 0:
        return [e]
    if isinstance(e, ast.IfExp):
        a, b = possible_values(fi, e.body, depth - 1), possible_values(fi, e.orelse, depth - 1)
        return None if a is None or b is None else a + b
    if isinstance(e, ast.Name):
        ws = writes_to_name(fi.node, e.id)
        if not ws:
            return [e]
        out = []
        for w in ws:
            if isinstance(w, ast.Assign) and len(w.targets) == 1 and isinstance(w.targets[0], ast.Name):
                v = possible_values(fi, w.value, depth - 1)
            elif isinstance(w, ast.AnnAssign) and w.value is not None:
                v = possible_values(fi, w.value, depth - 1)
            else:
                return None
            if v is None:
                return None
            out.extend(v)
        return out
    return [e]


def canon_chain(fi, e):
    """Attribute chain of e with local aliases expanded (`msg = message; msg.remote` -> message.remote)."""
    e = resolve_local(fi.node, e)
    if chain(e) is None:
        return None
    return Normalizer(env=norm.local_env(fi.node)).atom_name(e)


# ---------------------------------------------------------------------------
# components of a stored pair


class Pair:
    """Names / expressions that denote the components of a pair-valued expression `src`
    (the value read or popped from the table): `a, b = src`, `x = src; a, b = x`, `x[0]`, `x[1]`."""

    def __init__(self, fi, sources):
        self.fi = fi
        self.sources = list(sources)
        self.holders = set()
        self.comp = {0: set(), 1: set()}
        self.bind_stmts = []
        fnode = fi.node
        changed = True
        while changed:
            changed = False
            for n in walk_no_nested(fnode):
                if isinstance(n, ast.NamedExpr) and self._is_pair(n.value) and n.target.id not in self.holders and len(writes_to_name(fnode, n.target.id)) == 1:
                    self.holders.add(n.target.id)
                    changed = True
                if not (isinstance(n, ast.Assign) and len(n.targets) == 1):
                    continue
                if not self._is_pair(n.value):
                    continue
                t = n.targets[0]
                if isinstance(t, ast.Name):
                    if len(writes_to_name(fnode, t.id)) == 1 and t.id not in self.holders:
                        self.holders.add(t.id)
                        self.bind_stmts.append(n)
                        changed = True
                elif isinstance(t, (ast.Tuple, ast.List)) and len(t.elts) == 2:
                    for i, el in enumerate(t.elts):
                        if isinstance(el, ast.Name) and len(writes_to_name(fnode, el.id)) == 1 and el.id not in self.comp[i]:
                            self.comp[i].add(el.id)
                            changed = True
                    if n not in self.bind_stmts:
                        self.bind_stmts.append(n)

    def _is_pair(self, e):
        if any(e is s for s in self.sources):
            return True
        if isinstance(e, ast.NamedExpr):
            return self._is_pair(e.value)
        return isinstance(e, ast.Name) and e.id in self.holders

    def is_pair(self, e):
        return self._is_pair(e)

    def is_comp(self, e, i):
        if isinstance(e, ast.Name):
            if e.id in self.comp[i]:
                return True
            v = assigned_value(self.fi.node, e.id)
            return v is not None and v is not e and not isinstance(v, ast.Name) and self.is_comp(v, i)
        if isinstance(e, ast.Subscript) and self._is_pair(e.value):
            try:
                k = norm.consteval(e.slice)
            except norm.NormError:
                return False
            return k in (i, i - 2)
        return False


# ---------------------------------------------------------------------------
# comparison facts along a path of the path model


def cmp_at(fi, e, at):
    """Normal form of the branch condition `e` evaluated at CFG node `at`: named conditions are
    resolved, single-assignment locals substituted, re-assigned locals replaced by their value at
    that point (composition of the dominating writes).  None when not expressible."""
    pol = True
    for _ in range(6):
        if isinstance(e, ast.UnaryOp) and isinstance(e.op, ast.Not):
            e = e.operand
            pol = not pol
        elif isinstance(e, ast.Name):
            v = resolve_local(fi.node, e)
            if v is e:
                break
            e = v
        else:
            break
    env = norm.local_env(fi.node)
    penv = {}
    for nm in names_in(e):
        if nm in env:
            continue
        if writes_to_name(fi.node, nm):
            v = value_at(fi, nm, at)
            if v is None:
                return None
            penv[nm] = v
    N = Normalizer(env=env, penv=penv)
    try:
        c = N.cmp(e)
        return c if pol else N.negate(c)
    except norm.NormError:
        return None


class PathFacts:
    """Path model of a function plus, per path, the set of comparison normal forms established by the
    branch outcomes on that path."""

    def __init__(self, fi, subjects=None):
        self.fi = fi
        self.pm = PathModel(fi, subjects=subjects)
        self.cfg = self.pm.cfg
        self._cache = {}
        self._facts = {}

    def paths(self):
        return [p for p in self.pm.paths() if p.end in ("return", "fall")]

    def _outcome(self, nid):
        if nid not in self._cache:
            nd = self.cfg.nodes[nid]
            c = None
            if nd.kind in ("T", "F") and isinstance(nd.ast, ast.expr):
                preds = [p for p, _ in self.cfg.pred[nid]]
                at = preds[0] if preds else nid
                c = cmp_at(self.fi, nd.ast, at)
                if c is not None and nd.kind == "F":
                    try:
                        c = Normalizer().negate(c)
                    except norm.NormError:
                        c = None
            self._cache[nid] = c
        return self._cache[nid]

    def facts(self, path):
        k = id(path)
        if k not in self._facts:
            s = set()
            for nid in path.nodes:
                c = self._outcome(nid)
                if c is not None:
                    s.add(c)
            self._facts[k] = s
        return self._facts[k]

    def nodes_of(self, astnode):
        return set(self.cfg.locate(astnode))

    def describe(self, path):
        return self.pm.describe(path)


def poly_subst_const(p, atom, val):
    """p with the atom replaced by a rational constant."""
    from fractions import Fraction

    out = {}
    for mono, coef in p.t.items():
        c = coef
        rest = []
        for a, k in mono:
            if a == atom:
                c = c * (Fraction(val) ** k)
            else:
                rest.append((a, k))
        key = tuple(rest)
        out[key] = out.get(key, 0) + c
    return Poly(out)


def poly_degree(p, atom):
    d = 0
    for mono in p.t:
        for a, k in mono:
            if a == atom:
                d = max(d, k)
    return d


# ---------------------------------------------------------------------------
# exception classes: the class hierarchy including the builtin classes under every name they go by
#
# Engine gap worked around here: model.Program.mro() knows the builtin exceptions by their bare name only, so a
# base spelled `builtins.TimeoutError` (or imported `from builtins import TimeoutError as X`) is a leaf for it,
# and `IOError` / `socket.error` / `asyncio.TimeoutError` (aliases of OSError / TimeoutError since 3.3 / 3.11,
# the package requires >= 3.11) are classes of their own.

_EXC_ALIAS = {
    "IOError": "OSError",
    "EnvironmentError": "OSError",
    "WindowsError": "OSError",
    "socket.error": "OSError",
    "select.error": "OSError",
    "os.error": "OSError",
    "socket.timeout": "TimeoutError",
    "asyncio.TimeoutError": "TimeoutError",
    "asyncio.exceptions.TimeoutError": "TimeoutError",
    "concurrent.futures.TimeoutError": "TimeoutError",
}


def canon_exc(q):
    if q.startswith("builtins."):
        q = q[len("builtins."):]
    return _EXC_ALIAS.get(q, q)


def exc_mro(prog, qn):
    from ..model import BUILTIN_EXC

    out, seen = [], set()

    def rec(q):
        q = canon_exc(q)
        if q in seen:
            return
        seen.add(q)
        out.append(q)
        if q in prog.classes:
            for b in prog.classes[q].bases:
                rec(b)
        elif BUILTIN_EXC.get(q):
            rec(BUILTIN_EXC[q])

    rec(qn)
    return out


def exc_is_subclass(prog, a, b):
    return canon_exc(b) in exc_mro(prog, a)


def class_aware_interp(E):
    """The small-scope evaluator of rules/_kit_c02.py (E) with `isinstance` / `except` on an individual of known
    class decided by the hierarchy above."""
    from ..model import BUILTIN_EXC

    class _Interp(E.Interp):
        def is_instance(self, v, c, node=None):
            if isinstance(v, E.Obj) and v.cls is not None and isinstance(c, E.ClassRef) and (v.name, c.qn) not in self.isa:
                return exc_is_subclass(self.prog, v.cls, c.qn)
            return super().is_instance(v, c, node)

        def global_ref(self, qn):
            if canon_exc(qn) in BUILTIN_EXC and qn not in self.prog.classes:
                return E.ClassRef(canon_exc(qn))
            return super().global_ref(qn)

    return _Interp


# ---------------------------------------------------------------------------
# where the value of an attribute of a freshly built object comes from


def parent_map(root):
    pm = {}
    for n in ast.walk(root):
        for c in ast.iter_child_nodes(n):
            pm[id(c)] = n
    return pm


def _literal_elts(e):
    if isinstance(e, (ast.Tuple, ast.List, ast.Set)) and e.elts and all(isinstance(x, ast.Constant) for x in e.elts):
        return [x.value for x in e.elts]
    return None


def literal_bindings(root, node, name, parents=None):
    """The constants the name takes at `node` when it is the variable of an enclosing `for name in (c1, c2, ...)`
    statement or comprehension generator over a literal collection of constants (table-driven code); else None."""
    parents = parents or parent_map(root)
    cur = node
    while id(cur) in parents:
        par = parents[id(cur)]
        if isinstance(par, (ast.For, ast.AsyncFor)) and cur is not par.iter and isinstance(par.target, ast.Name) and par.target.id == name:
            it = par.iter
            if isinstance(it, ast.Name) and isinstance(root, (ast.FunctionDef, ast.AsyncFunctionDef)):
                it = resolve_local(root, it)
            return _literal_elts(it)
        if isinstance(par, (ast.ListComp, ast.SetComp, ast.GeneratorExp, ast.DictComp)):
            for g in par.generators:
                if isinstance(g.target, ast.Name) and g.target.id == name and cur is not g.iter:
                    it = g.iter
                    if isinstance(it, ast.Name) and isinstance(root, (ast.FunctionDef, ast.AsyncFunctionDef)):
                        it = resolve_local(root, it)
                    return _literal_elts(it)
        if par is root:
            break
        cur = par
    return None


def const_keys(root, node, key, parents=None):
    """[(constant value, {loop variable: Constant})] the key expression can take at `node`: a constant expression,
    or the variable of an enclosing loop over a literal collection.  None when not determined."""
    try:
        return [(norm.consteval(resolve_local(root, key) if isinstance(root, (ast.FunctionDef, ast.AsyncFunctionDef)) else key), {})]
    except norm.NormError:
        pass
    if isinstance(key, ast.Name):
        vals = literal_bindings(root, node, key.id, parents)
        if vals is not None:
            return [(v, {key.id: ast.Constant(value=v)}) for v in vals]
    return None


def attr_stores(root, attr, unknown=None):
    """[(receiver expr, value expr or None, node)] for every write of `<recv>.<attr>` below root: assignment
    (plain, annotated, as element of a tuple target -> value None), augmented assignment / del (value None),
    setattr(recv, "<attr>", v) -- the attribute name a constant or the variable of an enclosing loop over a
    literal collection of names (the value is then the instance for that name).  setattr calls whose attribute
    name is not determined are collected in `unknown` as (receiver, node)."""
    out = []
    parents = None
    for n in ast.walk(root):
        if isinstance(n, (ast.Assign, ast.AnnAssign)):
            tg = n.targets if isinstance(n, ast.Assign) else [n.target]
            for t in tg:
                if isinstance(t, ast.Attribute) and t.attr == attr:
                    if getattr(n, "value", None) is not None:
                        out.append((t.value, n.value, n))
                elif isinstance(t, (ast.Tuple, ast.List)):
                    for tt in ast.walk(t):
                        if isinstance(tt, ast.Attribute) and tt.attr == attr and isinstance(tt.ctx, ast.Store):
                            out.append((tt.value, None, n))
        elif isinstance(n, ast.AugAssign) and isinstance(n.target, ast.Attribute) and n.target.attr == attr:
            out.append((n.target.value, None, n))
        elif isinstance(n, ast.Delete):
            for t in n.targets:
                if isinstance(t, ast.Attribute) and t.attr == attr:
                    out.append((t.value, None, n))
        elif isinstance(n, ast.Call) and chain(n.func) in ("setattr", "object.__setattr__", "delattr") and not n.keywords and len(n.args) == (2 if chain(n.func) == "delattr" else 3):
            parents = parents or parent_map(root)
            ks = const_keys(root, n, n.args[1], parents)
            if ks is None:
                if unknown is not None:
                    unknown.append((n.args[0], n))
                continue
            for kv, env in ks:
                if kv == attr:
                    out.append((n.args[0], subst(n.args[2], env) if len(n.args) == 3 else None, n))
    return out


def dict_entry(fi, e, key, at, depth=4):
    """The value expression stored under the constant `key` in the dict the expression e builds -- a dict display,
    dict(k=v, ...), a dict comprehension over a literal collection of names (instantiated for `key`), through
    `**` / `|` merges (the last one wins) -- or None when the dict has no such entry.  AnalysisError when the
    dict is not one of these."""
    def refuse():
        raise AnalysisError("%s: the mapping `%s` is built in a way outside the rule's vocabulary" % (fi.short, stmt_text(e, 70)))

    if depth == 0:
        refuse()
    if isinstance(e, ast.Name):
        ws = writes_to_name(fi.node, e.id)
        if len(ws) != 1 or not (isinstance(ws[0], (ast.Assign, ast.AnnAssign)) and getattr(ws[0], "value", None) is not None):
            refuse()
        if [k for k, _n in stores_to(fi.node, e.id) if k != "assign"]:
            refuse()  # the dict is changed after it was built
        return dict_entry(fi, ws[0].value, key, ws[0], depth - 1)
    if isinstance(e, ast.Dict):
        found = None
        for k, v in zip(e.keys, e.values):
            if k is None:
                r = dict_entry(fi, v, key, at, depth - 1)
                found = r if r is not None else found
                continue
            try:
                kv = norm.consteval(resolve_local(fi.node, k))
            except norm.NormError:
                refuse()
            if kv == key:
                found = v
                found._c03_at = at
        return found
    if isinstance(e, ast.Call) and chain(e.func) == "dict" and not e.args:
        found = None
        for k in e.keywords:
            if k.arg is None:
                r = dict_entry(fi, k.value, key, at, depth - 1)
                found = r if r is not None else found
            elif k.arg == key:
                found = k.value
                found._c03_at = at
        return found
    if isinstance(e, ast.BinOp) and isinstance(e.op, ast.BitOr):
        r = dict_entry(fi, e.right, key, at, depth - 1)
        return r if r is not None else dict_entry(fi, e.left, key, at, depth - 1)
    if isinstance(e, ast.DictComp) and len(e.generators) == 1 and not e.generators[0].ifs and isinstance(e.generators[0].target, ast.Name):
        g = e.generators[0]
        it = resolve_local(fi.node, g.iter) if isinstance(g.iter, ast.Name) else g.iter
        vals = _literal_elts(it)
        if vals is None:
            refuse()
        found = None
        for c in vals:
            env = {g.target.id: ast.Constant(value=c)}
            try:
                kv = norm.consteval(subst(e.key, env))
            except norm.NormError:
                refuse()
            if kv == key:
                found = subst(e.value, env)
                found._c03_at = at
        return found
    refuse()


def kwargs_param(fnode):
    return fnode.args.kwarg.arg if fnode.args.kwarg is not None else None


def mapping_read(fi, e, mapping_name):
    """(key value, default expr or None, has_default) when e reads one entry of the (never rebound) mapping
    parameter: m[k], m.get(k[, d]), m.pop(k[, d]); else None.  A non-constant key gives key value None."""
    if mapping_name is None or writes_to_name(fi.node, mapping_name):
        return None
    key = dflt = None
    has = False
    if isinstance(e, ast.Subscript) and chain(resolve_local(fi.node, e.value)) == mapping_name:
        key = e.slice
    elif isinstance(e, ast.Call) and isinstance(e.func, ast.Attribute) and e.func.attr in ("get", "pop", "__getitem__") and chain(resolve_local(fi.node, e.func.value)) == mapping_name and e.args and not e.keywords:
        key = e.args[0]
        if len(e.args) > 1 and e.func.attr != "__getitem__":
            dflt, has = e.args[1], True
        elif e.func.attr == "get":
            dflt, has = ast.Constant(value=None), True
    else:
        return None
    try:
        kv = norm.consteval(resolve_local(fi.node, key))
    except norm.NormError:
        kv = None
    return kv, dflt, has


def reaching_defs(fi, name, use_ast):
    """Definitions of the local `name` that can reach the statement containing use_ast:
    -> [write statement, or None for the value the name has at entry (a parameter)].  A write that every path
    to the use overwrites again does not reach it."""
    cfg = cfg_of(fi)
    use = set(cfg.locate(use_ast))
    ws = writes_to_name(fi.node, name)
    at = [(w, set(cfg.locate(w))) for w in ws]
    allw = set()
    for _, s in at:
        allw |= s
    out = []
    for w, s in at:
        avoid = (allw - s) - use
        if not use or any(u in cfg.reach(s, avoid=avoid) for u in use):
            out.append(w)
    if not use or any(u in cfg.reach({cfg.entry}, avoid=allw - use, include_src=True) for u in use):
        out.append(None)
    return out


def guards_mention(fi, stmt, name):
    """Is the statement dominated by a branch outcome whose condition reads `name`?"""
    cfg = cfg_of(fi)
    for nid in cfg.locate(stmt):
        if any(name in names_in(resolve_local(fi.node, g[0]) if isinstance(g[0], ast.Name) else g[0]) for g in cfg.guards(nid)):
            return True
    return False


# ---------------------------------------------------------------------------
# evaluation of a class at chosen parameter points (C03.g, evaluation route)
#
# `_kit_c04.ClassEval` computes `instance_of(cls).NAME` for the classes the package defines, i.e. at ONE parameter
# point (the defaults).  A derived constant is a *function* of the base parameters, because tunings are made by
# subclassing (`class Slow(TransportTuning): ACK_TIMEOUT = 5`), so it has to be compared with the reference formula at
# several points.  `PointEval` evaluates an instance of a synthetic direct subclass
#
#     class <point>(Base):
#         ACK_TIMEOUT = 7 / 2
#         MAX_RETRANSMIT = 5 ...
#
# which is handed to ClassEval through a view of the program that knows one more class.  Everything else is ClassEval's
# semantics unchanged: `self.X` / `getattr(self, "X")` / `type(self).X` see the point's value, `Base.X` (the class named
# explicitly) and `super().X` see the base's own value -- exactly what Python does for such a subclass.


class EvalRefused(Exception):
    """the evaluator cannot compute the value (its own vocabulary); the clause refuses"""


class _PointProgram:
    """the analysed program plus one synthetic class (read-only view; everything else is delegated)"""

    def __init__(self, prog, base_qn):
        from collections import ChainMap

        self._prog = prog
        self._base = base_qn
        self._extra = {}
        self.classes = ChainMap(self._extra, prog.classes)

    def __getattr__(self, name):
        return getattr(self._prog, name)

    def set_point(self, ci):
        self._extra.clear()
        self._extra[ci.qn] = ci

    def mro(self, qn):
        if qn in self._extra:
            return [qn] + self._prog.mro(self._base)
        return self._prog.mro(qn)

    def is_subclass(self, a, b):
        return b in self.mro(a)


def _fraction_expr(v):
    """expression whose exact value is the Fraction v (`7 / 2`; ClassEval's arithmetic is exact)"""
    from fractions import Fraction

    v = Fraction(v)
    num = ast.Constant(value=abs(v.numerator))
    e = num if v.denominator == 1 else ast.BinOp(left=num, op=ast.Div(), right=ast.Constant(value=v.denominator))
    return ast.UnaryOp(op=ast.USub(), operand=e) if v < 0 else e


class PointEval:
    """value(name, point) -> Fraction: `instance.NAME` for an instance of a subclass of base_qn whose class attributes
    take the values of `point` ({attribute name: Fraction}).  Raises EvalRefused when ClassEval does."""

    def __init__(self, prog, base_qn):
        from ._kit_c04 import ClassEval, Unsupported
        from ..model import ClassInfo

        self._Unsupported = Unsupported
        self._ClassInfo = ClassInfo
        self.base_ci = prog.classes[base_qn]
        self.base_qn = base_qn
        self.qn = base_qn + "<parameter point>"
        self.view = _PointProgram(prog, base_qn)
        self.ev = ClassEval(self.view, self.qn)
        self.deps = {}

    def _install(self, point):
        body = [ast.Assign(targets=[ast.Name(id=k, ctx=ast.Store())], value=_fraction_expr(v)) for k, v in sorted(point.items())] or [ast.Pass()]
        node = ast.parse("class _ParameterPoint(%s):\n    pass\n" % self.base_ci.node.name).body[0]
        node.body = body
        ast.fix_missing_locations(node)
        ci = self._ClassInfo(self.qn, node, self.base_ci.module)
        ci.bases = [self.base_qn]
        ci.attrs = {st.targets[0].id: st.value for st in body if isinstance(st, ast.Assign)}
        self.view.set_point(ci)
        self.ev._members.pop(self.qn, None)
        self.ev._steps = 0

    def value(self, name, point):
        self._install(point)
        try:
            v = self.ev.number(name)
        except self._Unsupported as ex:
            raise EvalRefused(str(ex))
        except RecursionError:
            raise EvalRefused("the evaluation nests too deeply")
        except (ArithmeticError, ValueError, MemoryError) as ex:
            raise EvalRefused("the evaluation fails with %s: %s" % (type(ex).__name__, ex))
        self.deps.update(self.ev.deps)
        return v


def formula_value(src, values):
    """exact value of one of the rule's own reference formulas (`T * (2**N - 1) * F`; + - * / ** over names and
    integer literals) at {name: Fraction}"""
    from fractions import Fraction

    def ev(e):
        if isinstance(e, ast.Constant) and isinstance(e.value, int) and not isinstance(e.value, bool):
            return Fraction(e.value)
        if isinstance(e, ast.Name):
            return Fraction(values[e.id])
        if isinstance(e, ast.UnaryOp) and isinstance(e.op, ast.USub):
            return -ev(e.operand)
        if isinstance(e, ast.BinOp):
            a, b = ev(e.left), ev(e.right)
            if isinstance(e.op, ast.Add):
                return a + b
            if isinstance(e.op, ast.Sub):
                return a - b
            if isinstance(e.op, ast.Mult):
                return a * b
            if isinstance(e.op, ast.Div):
                return a / b
            if isinstance(e.op, ast.Pow) and b.denominator == 1:
                return a ** int(b)
        raise ValueError("reference formula outside + - * / **: %s" % ast.unparse(e))

    return ev(ast.parse(src, mode="eval").body)


def parameter_grid(axes):
    """[{name: value}] -- the full cross product of the axes [(name, [values])], the first value of every axis (the
    default) varying slowest, so that the first points differ from the defaults in as few coordinates as possible"""
    points = [{}]
    for name, vals in axes:
        points = [dict(p, **{name: v}) for p in points for v in vals]
    first = {name: vals[0] for name, vals in axes}
    points.sort(key=lambda p: sum(1 for k in p if p[k] != first[k]))
    return points


def first_difference(pe, name, ref_src, letters, points):
    """The first point at which `instance.name` differs from the reference formula -> (point, got, want), or None when
    they agree at every point.  letters: {formula letter: attribute name}.  EvalRefused (with the point) otherwise."""
    for p in points:
        try:
            got = pe.value(name, p)
        except EvalRefused as ex:
            raise EvalRefused("%s (at %s)" % (ex, show_point(p)))
        want = formula_value(ref_src, {l: p[a] for l, a in letters.items()})
        if got != want:
            return p, got, want
    return None


def show_number(v):
    """an exact Fraction for a message: integers and short exact decimals as such, anything else approximately"""
    if v.denominator == 1:
        return str(v.numerator)
    try:
        f = float(v)
    except OverflowError:
        return "%s%d digits" % ("-" if v < 0 else "", len(str(abs(v.numerator // v.denominator))))
    if type(v)(f) == v and len(repr(f)) <= 12:
        return repr(f)
    return "~%.10g" % f


def show_point(p):
    return ", ".join("%s=%s" % (k, show_number(v)) for k, v in p.items())


# ---------------------------------------------------------------------------------------------------------------------
# Concrete object evaluator (C03.l): __init__ / __eq__ / __hash__ / properties of a package class, interpreted by the
# checker over *concrete* Python values (tuples, strings, ints, bytes, None) -- nothing of the repository is executed;
# the interpreter below walks the syntax trees itself.  Anything outside its vocabulary raises EvalRefused.


class Opaque:
    """a value the evaluator does not model (an interface object, a weak reference to it, ...): only its structural
    identity is known.  Equal structure -> the same run-time object (or an equal one); an Opaque never equals a modelled
    value of another kind (None, tuple, str, int, bytes); two different Opaques cannot be compared -> refusal."""

    def __init__(self, tag):
        self.tag = tag

    def __eq__(self, other):
        if isinstance(other, Opaque):
            if self.tag == other.tag:
                return True
            raise EvalRefused("the result depends on comparing two values the evaluator does not model (%r, %r)" % (self.tag, other.tag))
        return False

    def __ne__(self, other):
        return not self.__eq__(other)

    def __hash__(self):
        return hash(("opaque", self.tag))

    def __repr__(self):
        return "<opaque %s>" % (self.tag,)


class Obj:
    """an instance of a package class in the evaluator's world; == and hash() go through the interpreted methods"""

    def __init__(self, interp, qn):
        self._interp = interp
        self.qn = qn
        self.fields = {}

    def __eq__(self, other):
        return self._interp.eq(self, other)

    def __ne__(self, other):
        return not self._interp.eq(self, other)

    def __hash__(self):
        return self._interp.hash(self)

    def __repr__(self):
        return "<%s %s>" % (self.qn.rsplit(".", 1)[-1], ", ".join("%s=%r" % kv for kv in sorted(self.fields.items())))


class _ClassRef:
    def __init__(self, qn):
        self.qn = qn

    def __eq__(self, other):
        return isinstance(other, _ClassRef) and other.qn == self.qn

    def __hash__(self):
        return hash(("class", self.qn))


class _Bound:
    def __init__(self, obj, fi):
        self.obj = obj
        self.fi = fi


class _Return(Exception):
    def __init__(self, value):
        self.value = value


_BUILTIN_TYPES = {"tuple": tuple, "list": list, "str": str, "int": int, "bytes": bytes, "bool": bool, "dict": dict, "set": set, "frozenset": frozenset}
_PURE_BUILTINS = {"tuple": tuple, "list": list, "len": len, "all": all, "any": any, "zip": zip, "range": range, "enumerate": enumerate,
                  "sorted": sorted, "reversed": reversed, "min": min, "max": max, "sum": sum, "bool": bool, "int": int, "str": str,
                  "frozenset": frozenset, "set": set, "id": None}


class ObjEval:
    """interpreter for the identity protocol of package classes (constructor, __eq__, __hash__, properties and the
    plain methods they call) over concrete values"""

    MAX_STEPS = 200000
    MAX_DEPTH = 12

    def __init__(self, prog):
        self.prog = prog
        self.steps = 0
        self.depth = 0
        self.deps = set()

    # -- class protocol -------------------------------------------------------------------------------------------
    def member(self, qn, name):
        """('method', FuncInfo) | ('attr', expr, ClassInfo) | None: first definition of `name` along the MRO"""
        for q in self.prog.mro(qn):
            ci = self.prog.classes.get(q)
            if ci is None:
                continue
            if name in ci.methods:
                return ("method", ci.methods[name], ci)
            if name in ci.attrs:
                return ("attr", ci.attrs[name], ci)
        return None

    def new(self, qn, args, kwargs):
        o = Obj(self, qn)
        m = self.member(qn, "__init__")
        if m is None:
            if args or kwargs:
                raise EvalRefused("%s has no interpretable constructor" % qn)
            return o
        if m[0] != "method":
            raise EvalRefused("%s.__init__ is not a plain method" % qn)
        if self.member(qn, "__new__") is not None:
            raise EvalRefused("%s defines __new__" % qn)
        self.call_function(m[1], [o] + list(args), dict(kwargs))
        return o

    def eq(self, a, b):
        """Python's `a == b` for two world instances: a.__eq__(b), reflected b.__eq__(a) on NotImplemented, identity last"""
        if not isinstance(b, Obj):
            r = self._eq1(a, b)
            return False if r is NotImplemented else bool(r)
        r = self._eq1(a, b)
        if r is NotImplemented:
            r = self._eq1(b, a)
        if r is NotImplemented:
            return a is b
        return bool(r)

    def _eq1(self, a, b):
        m = self.member(a.qn, "__eq__")
        if m is None:
            return a is b
        if m[0] != "method":
            raise EvalRefused("%s.__eq__ is not a plain method" % a.qn)
        self.deps.add(m[1].short)
        return self.call_function(m[1], [a, b], {})

    def hashable(self, qn):
        """Python's rule: a class body that defines __eq__ without __hash__ sets __hash__ = None"""
        for q in self.prog.mro(qn):
            ci = self.prog.classes.get(q)
            if ci is None:
                continue
            has_hash = "__hash__" in ci.methods or "__hash__" in ci.attrs
            if has_hash:
                if "__hash__" in ci.attrs:
                    e = ci.attrs["__hash__"]
                    if isinstance(e, ast.Constant) and e.value is None:
                        return False
                return True
            if "__eq__" in ci.methods or "__eq__" in ci.attrs:
                return False
        return True

    def hash(self, a):
        if not self.hashable(a.qn):
            raise EvalRefused("%s is unhashable" % a.qn)
        m = self.member(a.qn, "__hash__")
        if m is None:
            return id(a)
        if m[0] == "attr":
            # __hash__ = Base.__hash__ / object.__hash__
            c = chain(m[1])
            if c == "object.__hash__":
                return id(a)
            if c and c.endswith(".__hash__"):
                q = self.prog.resolve_in_module(m[2].module, c[: -len(".__hash__")])
                mm = self.member(q, "__hash__") if q in self.prog.classes else None
                if mm and mm[0] == "method":
                    return self.call_function(mm[1], [a], {})
            raise EvalRefused("%s.__hash__ = %s is outside the evaluator's vocabulary" % (a.qn, ast.unparse(m[1])))
        self.deps.add(m[1].short)
        return self.call_function(m[1], [a], {})

    # -- functions --------------------------------------------------------------------------------------------------
    def call_function(self, fi_or_node, args, kwargs):
        fnode = getattr(fi_or_node, "node", fi_or_node)
        module = getattr(fi_or_node, "module", None)
        if isinstance(fnode, ast.AsyncFunctionDef):
            raise EvalRefused("coroutine in the identity protocol")
        self.depth += 1
        try:
            if self.depth > self.MAX_DEPTH:
                raise EvalRefused("the evaluation nests too deeply")
            env = self.bind(fnode, args, kwargs, module)
            if isinstance(fnode, ast.Lambda):
                return self.ev(fnode.body, env)
            for d in fnode.decorator_list:
                if chain(d) not in ("property", "staticmethod", "functools.cached_property", "cached_property"):
                    raise EvalRefused("decorator %s" % ast.unparse(d))
            for n in ast.walk(fnode):
                if isinstance(n, (ast.Yield, ast.YieldFrom, ast.Await)):
                    raise EvalRefused("generator/await in the identity protocol")
            try:
                self.block(fnode.body, env)
            except _Return as r:
                return r.value
            return None
        finally:
            self.depth -= 1

    def bind(self, fnode, args, kwargs, module):
        a = fnode.args
        env = {"__module__": module}
        pos = list(a.posonlyargs) + list(a.args)
        args = list(args)
        if len(args) > len(pos) and not a.vararg:
            raise EvalRefused("too many arguments for %s" % getattr(fnode, "name", "<lambda>"))
        for p, v in zip(pos, args):
            env[p.arg] = v
        if a.vararg:
            env[a.vararg.arg] = tuple(args[len(pos):])
        defaults = dict(zip([p.arg for p in pos][len(pos) - len(a.defaults):], a.defaults))
        for p, d in zip(a.kwonlyargs, a.kw_defaults):
            if d is not None:
                defaults[p.arg] = d
        kwargs = dict(kwargs)
        for p in pos[len(args):] + list(a.kwonlyargs):
            if p.arg in kwargs:
                if p in a.posonlyargs:
                    raise EvalRefused("positional-only parameter passed by keyword")
                env[p.arg] = kwargs.pop(p.arg)
            elif p.arg in defaults:
                env[p.arg] = self.ev(defaults[p.arg], {"__module__": module})
            else:
                raise EvalRefused("no argument for parameter %s of %s" % (p.arg, getattr(fnode, "name", "<lambda>")))
        if kwargs:
            if not a.kwarg:
                raise EvalRefused("unexpected keyword argument %s" % sorted(kwargs)[0])
            env[a.kwarg.arg] = kwargs
        elif a.kwarg:
            env[a.kwarg.arg] = {}
        return env

    def block(self, body, env):
        for st in body:
            self.stmt(st, env)

    def _tick(self):
        self.steps += 1
        if self.steps > self.MAX_STEPS:
            raise EvalRefused("the evaluation does not finish within the step budget")

    def assign(self, target, value, env):
        if isinstance(target, ast.Name):
            env[target.id] = value
        elif isinstance(target, (ast.Tuple, ast.List)):
            if any(isinstance(t, ast.Starred) for t in target.elts):
                i = [k for k, t in enumerate(target.elts) if isinstance(t, ast.Starred)][0]
                vals = list(value)
                after = len(target.elts) - i - 1
                if len(vals) < len(target.elts) - 1:
                    raise EvalRefused("unpacking fails")
                parts = vals[:i] + [vals[i:len(vals) - after]] + vals[len(vals) - after:]
                for t, v in zip(target.elts, parts):
                    self.assign(t.value if isinstance(t, ast.Starred) else t, v, env)
                return
            try:
                vals = list(value)
            except TypeError:
                raise EvalRefused("unpacking a value that is not a sequence")
            if len(vals) != len(target.elts):
                raise EvalRefused("unpacking %d values into %d targets" % (len(vals), len(target.elts)))
            for t, v in zip(target.elts, vals):
                self.assign(t, v, env)
        elif isinstance(target, ast.Attribute):
            o = self.ev(target.value, env)
            if not isinstance(o, Obj):
                raise EvalRefused("attribute store on a value that is not a world instance")
            m = self.member(o.qn, target.attr)
            if m is not None and self._is_property(m):
                raise EvalRefused("store through the property %s" % target.attr)
            o.fields[target.attr] = value
        else:
            raise EvalRefused("assignment target %s" % ast.unparse(target))

    def stmt(self, st, env):
        self._tick()
        if isinstance(st, ast.Return):
            raise _Return(self.ev(st.value, env) if st.value is not None else None)
        if isinstance(st, ast.Assign):
            v = self.ev(st.value, env)
            for t in st.targets:
                self.assign(t, v, env)
        elif isinstance(st, ast.AnnAssign):
            if st.value is not None:
                self.assign(st.target, self.ev(st.value, env), env)
        elif isinstance(st, ast.If):
            self.block(st.body if self.truth(self.ev(st.test, env)) else st.orelse, env)
        elif isinstance(st, ast.Expr):
            if isinstance(st.value, ast.Constant):
                return
            if isinstance(st.value, ast.Call) and is_log_call(st.value):
                return
            self.ev(st.value, env)
        elif isinstance(st, ast.Pass):
            return
        elif isinstance(st, ast.For):
            if st.orelse:
                raise EvalRefused("for/else")
            for v in self.iterate(self.ev(st.iter, env)):
                self.assign(st.target, v, env)
                self.block(st.body, env)
        elif isinstance(st, ast.Try):
            # nothing raises in the evaluator's world: whatever would raise at run time (missing attribute, index out
            # of range, an explicit raise) is a refusal of the whole evaluation, so the handlers are never entered
            self.block(st.body, env)
            self.block(st.orelse, env)
            self.block(st.finalbody, env)
        elif isinstance(st, ast.Assert):
            if not self.truth(self.ev(st.test, env)):
                raise EvalRefused("an assertion of the identity protocol fails in the evaluator's world: %s" % ast.unparse(st.test))
        else:
            raise EvalRefused("statement %s is outside the evaluator's vocabulary" % type(st).__name__)

    def truth(self, v):
        if isinstance(v, Obj):
            if self.member(v.qn, "__bool__") or self.member(v.qn, "__len__"):
                raise EvalRefused("truth value of an instance with __bool__/__len__")
            return True
        if isinstance(v, Opaque):
            raise EvalRefused("truth value of an unmodelled value")
        if v is NotImplemented:
            raise EvalRefused("truth value of NotImplemented")
        return bool(v)

    def iterate(self, v):
        if isinstance(v, (tuple, list, str, bytes, range, zip, enumerate, frozenset, set, dict)) or hasattr(v, "__next__"):
            return v
        raise EvalRefused("iteration over a value that is not a modelled sequence")

    def _is_property(self, m):
        if m[0] == "method":
            return any(chain(d) in ("property", "functools.cached_property", "cached_property") for d in m[1].node.decorator_list)
        e = m[1]
        return isinstance(e, ast.Call) and chain(e.func) == "property"

    def getattr(self, o, name):
        if isinstance(o, Obj):
            m = self.member(o.qn, name)
            if m is not None and self._is_property(m):
                if m[0] == "method":
                    self.deps.add(m[1].short)
                    return self.call_function(m[1], [o], {})
                e = m[1]
                if not e.args or e.keywords and any(k.arg != "fget" for k in e.keywords):
                    raise EvalRefused("property(...) form of %s" % name)
                getter = self.ev(e.args[0], {"__module__": m[2].module})
                return self.call_value(getter, [o], {})
            if name in o.fields:
                return o.fields[name]
            if name == "__class__":
                return _ClassRef(o.qn)
            if m is None:
                raise EvalRefused("%s has no attribute %s in the evaluator's world" % (o.qn, name))
            if m[0] == "method":
                if any(chain(d) == "staticmethod" for d in m[1].node.decorator_list):
                    return m[1]
                return _Bound(o, m[1])
            return self.ev(m[1], {"__module__": m[2].module})
        if isinstance(o, _ClassRef) and name == "__name__":
            return o.qn.rsplit(".", 1)[-1]
        raise EvalRefused("attribute %s of a value that is not a world instance" % name)

    def call_value(self, f, args, kwargs):
        if isinstance(f, _Bound):
            self.deps.add(f.fi.short)
            return self.call_function(f.fi, [f.obj] + list(args), kwargs)
        if isinstance(f, ast.Lambda) or hasattr(f, "node"):
            return self.call_function(f, args, kwargs)
        if isinstance(f, _ClassRef):
            if f.qn in _BUILTIN_TYPES:
                return _BUILTIN_TYPES[f.qn](*args)
            return self.new(f.qn, args, kwargs)
        raise EvalRefused("call of a value the evaluator does not model")

    def resolve_name(self, name, env):
        module = env.get("__module__")
        if module is not None:
            q = self.prog.resolve_in_module(module, name)
            if q in self.prog.classes:
                return _ClassRef(q)
            if q in self.prog.funcs:
                return self.prog.funcs[q]
            mod = q.rsplit(".", 1)
            if len(mod) == 2:
                m = self.prog.modules.get(mod[0]) if hasattr(self.prog.modules, "get") else None
                if m is None:
                    for mm in self.prog.modules.values():
                        if getattr(mm, "name", None) == mod[0]:
                            m = mm
                            break
                if m is not None:
                    vals = [st.value for st in m.tree.body if isinstance(st, ast.Assign) and len(st.targets) == 1
                            and isinstance(st.targets[0], ast.Name) and st.targets[0].id == mod[1]]
                    if len(vals) == 1:
                        return self.ev(vals[0], {"__module__": m})
        raise EvalRefused("name %s is outside the evaluator's world" % name)

    # -- expressions ------------------------------------------------------------------------------------------------
    def ev(self, e, env):
        self._tick()
        if isinstance(e, ast.Constant):
            return e.value
        if isinstance(e, ast.Name):
            if e.id in env and e.id != "__module__":
                return env[e.id]
            if e.id == "NotImplemented":
                return NotImplemented
            if e.id in _BUILTIN_TYPES:
                return _ClassRef(e.id)
            return self.resolve_name(e.id, env)
        if isinstance(e, ast.Attribute):
            c = chain(e)
            base = c.split(".")[0] if c else None
            if c and base not in env and base not in ("self",):
                # a dotted name of the package (module.Class, module.CONST)
                return self.resolve_name(c, env)
            return self.getattr(self.ev(e.value, env), e.attr)
        if isinstance(e, (ast.Tuple, ast.List)):
            out = []
            for x in e.elts:
                if isinstance(x, ast.Starred):
                    out.extend(self.iterate(self.ev(x.value, env)))
                else:
                    out.append(self.ev(x, env))
            return tuple(out) if isinstance(e, ast.Tuple) else out
        if isinstance(e, ast.Subscript):
            v = self.ev(e.value, env)
            if not isinstance(v, (tuple, list, str, bytes, dict)):
                raise EvalRefused("subscript of a value that is not a modelled sequence: %s" % ast.unparse(e))
            if isinstance(e.slice, ast.Slice):
                parts = [None if p is None else self.ev(p, env) for p in (e.slice.lower, e.slice.upper, e.slice.step)]
                if any(p is not None and not isinstance(p, int) for p in parts):
                    raise EvalRefused("slice bounds")
                return v[slice(*parts)]
            i = self.ev(e.slice, env)
            try:
                return v[i]
            except (IndexError, KeyError, TypeError):
                raise EvalRefused("%s fails in the evaluator's world" % ast.unparse(e))
        if isinstance(e, ast.Compare):
            left = self.ev(e.left, env)
            for op, r in zip(e.ops, e.comparators):
                right = self.ev(r, env)
                if not self.truth(self.compare(op, left, right)):
                    return False
                left = right
            return True
        if isinstance(e, ast.BoolOp):
            v = None
            for x in e.values:
                v = self.ev(x, env)
                t = self.truth(v)
                if isinstance(e.op, ast.And) and not t or isinstance(e.op, ast.Or) and t:
                    return v
            return v
        if isinstance(e, ast.UnaryOp):
            v = self.ev(e.operand, env)
            if isinstance(e.op, ast.Not):
                return not self.truth(v)
            if isinstance(v, int) and isinstance(e.op, ast.USub):
                return -v
            if isinstance(v, int) and isinstance(e.op, ast.Invert):
                return ~v
            raise EvalRefused("unary operator")
        if isinstance(e, ast.BinOp):
            a, b = self.ev(e.left, env), self.ev(e.right, env)
            ok = (int, str, bytes, tuple, list)
            if isinstance(a, bool) or isinstance(b, bool) or not isinstance(a, ok) or not isinstance(b, ok):
                raise EvalRefused("arithmetic on unmodelled values")
            try:
                if isinstance(e.op, ast.Add):
                    return a + b
                if isinstance(e.op, ast.Sub):
                    return a - b
                if isinstance(e.op, ast.Mult) and isinstance(a, int) and isinstance(b, int):
                    return a * b
                if isinstance(e.op, ast.BitXor):
                    return a ^ b
                if isinstance(e.op, ast.BitAnd):
                    return a & b
                if isinstance(e.op, ast.BitOr):
                    return a | b
                if isinstance(e.op, ast.Mod) and isinstance(a, int) and isinstance(b, int) and b:
                    return a % b
            except TypeError:
                pass
            raise EvalRefused("binary operator in %s" % ast.unparse(e))
        if isinstance(e, ast.IfExp):
            return self.ev(e.body if self.truth(self.ev(e.test, env)) else e.orelse, env)
        if isinstance(e, ast.Lambda):
            if env.get("__module__") is None:
                return e
            return e
        if isinstance(e, (ast.GeneratorExp, ast.ListComp, ast.SetComp)):
            out = []
            self.comp(e, 0, dict(env), out)
            return set(out) if isinstance(e, ast.SetComp) else out
        if isinstance(e, ast.Call):
            return self.call(e, env)
        if isinstance(e, ast.JoinedStr):
            raise EvalRefused("formatted string in the identity protocol")
        raise EvalRefused("expression %s is outside the evaluator's vocabulary" % ast.unparse(e))

    def comp(self, e, i, env, out):
        if i == len(e.generators):
            out.append(self.ev(e.elt, env))
            return
        g = e.generators[i]
        if g.is_async:
            raise EvalRefused("async comprehension")
        for v in self.iterate(self.ev(g.iter, env)):
            self.assign(g.target, v, env)
            if all(self.truth(self.ev(c, env)) for c in g.ifs):
                self.comp(e, i + 1, env, out)

    def compare(self, op, a, b):
        if isinstance(op, ast.Is):
            return self.same(a, b)
        if isinstance(op, ast.IsNot):
            return not self.same(a, b)
        if isinstance(op, ast.Eq):
            return self.equal(a, b)
        if isinstance(op, ast.NotEq):
            return not self.truth(self.equal(a, b))
        if isinstance(op, (ast.In, ast.NotIn)):
            r = any(x is a or self.truth(self.equal(x, a)) for x in self.iterate(b))
            return r if isinstance(op, ast.In) else not r
        plain = (int, str, bytes, tuple)
        if isinstance(a, plain) and isinstance(b, plain) and type(a) is type(b):
            try:
                if isinstance(op, ast.Lt):
                    return a < b
                if isinstance(op, ast.LtE):
                    return a <= b
                if isinstance(op, ast.Gt):
                    return a > b
                if isinstance(op, ast.GtE):
                    return a >= b
            except TypeError:
                pass
        raise EvalRefused("ordering comparison of unmodelled values")

    def same(self, a, b):
        if a is None or b is None or isinstance(a, (Obj, bool)) or isinstance(b, (Obj, bool)) or a is NotImplemented or b is NotImplemented:
            return a is b
        if isinstance(a, _ClassRef) and isinstance(b, _ClassRef):
            return a.qn == b.qn
        if isinstance(a, Opaque) and isinstance(b, Opaque):
            return a == b
        raise EvalRefused("identity comparison of values whose identity the evaluator does not model")

    def equal(self, a, b):
        # concrete values, tuples of them, world instances (Obj.__eq__ -> interpreted __eq__) and opaques
        return a == b

    def call(self, e, env):
        fn = chain(e.func)
        args = []
        for x in e.args:
            if isinstance(x, ast.Starred):
                args.extend(self.iterate(self.ev(x.value, env)))
            else:
                args.append(self.ev(x, env))
        if any(k.arg is None for k in e.keywords):
            raise EvalRefused("**kwargs call")
        kwargs = {k.arg: self.ev(k.value, env) for k in e.keywords}
        shadowed = fn in env if fn else False
        if fn and not shadowed:
            if fn == "hash" and len(args) == 1 and not kwargs:
                return self.hash_value(args[0])
            if fn == "isinstance" and len(args) == 2:
                return self.isinstance(args[0], args[1])
            if fn == "type" and len(args) == 1:
                return self.type_of(args[0])
            if fn == "getattr" and len(args) in (2, 3) and isinstance(args[1], str):
                try:
                    return self.getattr(args[0], args[1])
                except EvalRefused:
                    if len(args) == 3 and isinstance(args[0], Obj) and self.member(args[0].qn, args[1]) is None and args[1] not in args[0].fields:
                        return args[2]
                    raise
            if fn == "id" and len(args) == 1:
                if isinstance(args[0], Obj):
                    return id(args[0])
                raise EvalRefused("id() of an unmodelled value")
            if fn in _PURE_BUILTINS and _PURE_BUILTINS[fn] is not None and not kwargs:
                for a in args:
                    if isinstance(a, (Opaque, _ClassRef, _Bound)):
                        raise EvalRefused("%s() of an unmodelled value" % fn)
                try:
                    r = _PURE_BUILTINS[fn](*args)
                except EvalRefused:
                    raise
                except Exception as ex:
                    raise EvalRefused("%s fails in the evaluator's world: %s" % (ast.unparse(e), ex))
                if fn in ("zip", "enumerate", "reversed", "range"):
                    r = list(r)
                return r
            if fn in ("operator.eq", "operator.ne") and len(args) == 2:
                r = self.equal(args[0], args[1])
                return r if fn == "operator.eq" else not r
        if isinstance(e.func, ast.Attribute) and isinstance(e.func.value, ast.Call) and chain(e.func.value.func) == "super":
            raise EvalRefused("super() call in the identity protocol")
        try:
            f = self.ev(e.func, env)
        except EvalRefused:
            # a call the evaluator does not know (weakref.ref(x), socket functions, ...): an unmodelled value
            # determined by the callee's name and the argument values
            try:
                return Opaque(("call", fn or ast.unparse(e.func), tuple(args), tuple(sorted(kwargs.items()))))
            except TypeError:
                raise EvalRefused("call %s with unhashable arguments" % ast.unparse(e)[:60])
        if isinstance(f, Opaque):
            return Opaque(("result", f.tag, tuple(args)))
        return self.call_value(f, args, kwargs)

    def hash_value(self, v):
        if isinstance(v, (Obj, Opaque, int, str, bytes, type(None), _ClassRef)) or v is NotImplemented:
            return hash(v)
        if isinstance(v, (tuple, frozenset)):
            for x in v:
                self.hash_value(x)
            return hash(v)
        raise EvalRefused("hash() of an unhashable or unmodelled value")

    def type_of(self, v):
        if isinstance(v, Obj):
            return _ClassRef(v.qn)
        for n, t in _BUILTIN_TYPES.items():
            if type(v) is t:
                return _ClassRef(n)
        if v is None:
            return _ClassRef("NoneType")
        raise EvalRefused("type() of an unmodelled value")

    def isinstance(self, v, c):
        if isinstance(c, tuple):
            return any(self.isinstance(v, x) for x in c)
        if not isinstance(c, _ClassRef):
            raise EvalRefused("isinstance against a value that is not a class")
        if c.qn in _BUILTIN_TYPES:
            return isinstance(v, _BUILTIN_TYPES[c.qn]) and not isinstance(v, (Obj, Opaque))
        if isinstance(v, Obj):
            return c.qn in self.prog.mro(v.qn)
        if isinstance(v, Opaque):
            raise EvalRefused("isinstance of an unmodelled value")
        return False
