"""Semantic helpers of rules/c03.py (no rule text in here).

Everything works on syntax trees only.  The helpers answer questions about *meaning*
("which expression does this value come from", "which call does this callable perform",
"which accesses of a dict-valued field are there and under which key", "which comparison
facts hold on this path") so that the clauses of C03 do not depend on statement order,
names of locals / helpers, or on one particular spelling of a construct.
"""

import ast
import copy

from ..rulekit import *
from ..model import FuncInfo
from ..norm import Normalizer, Poly
from ..paths import PathModel


# ---------------------------------------------------------------------------
# local canonical view of a function
#
# Engine gap worked around here (see the final report of the C03 hardening): the
# copy propagation of inline.py only looks at `x = <pure>`; a parallel assignment
# `code, mtype = message.code, message.mtype` therefore survives, and neither the
# path model (subject `message.mtype`) nor absdom.Interp (tuple targets become
# opaque "elt" values) see through it.  `view(fi)` returns a FuncInfo over a deep
# copy of the function in which such assignments are split into single ones (only
# when no target is read by any of the values, so evaluation order is immaterial)
# and the engine's own copy propagation has been re-run.


def _split_parallel(body):
    changed = False
    i = 0
    while i < len(body):
        st = body[i]
        if (
            isinstance(st, ast.Assign)
            and len(st.targets) == 1
            and isinstance(st.targets[0], (ast.Tuple, ast.List))
            and isinstance(st.value, (ast.Tuple, ast.List))
            and len(st.targets[0].elts) == len(st.value.elts)
            and all(isinstance(t, ast.Name) for t in st.targets[0].elts)
            and not any(isinstance(v, ast.Starred) for v in st.value.elts)
        ):
            tn = [t.id for t in st.targets[0].elts]
            # sequential `t0 = v0; t1 = v1; ...` equals the parallel form when no value reads a target that
            # the sequence has already rebound (`t, n = t * 2, n + 1` is fine, `a, b = b, a` is not)
            safe = len(set(tn)) == len(tn)
            for j, v in enumerate(st.value.elts):
                if names_in(v) & set(tn[:j]):
                    safe = False
            if safe:
                new = []
                for t, v in zip(st.targets[0].elts, st.value.elts):
                    a = ast.Assign(targets=[ast.Name(id=t.id, ctx=ast.Store())], value=v)
                    ast.copy_location(a, st)
                    ast.fix_missing_locations(a)
                    new.append(a)
                body[i : i + 1] = new
                changed = True
                i += len(new)
                continue
        for field in ("body", "orelse", "finalbody"):
            lst = getattr(st, field, None)
            if isinstance(lst, list) and lst and isinstance(lst[0], ast.stmt):
                if _split_parallel(lst):
                    changed = True
        for h in getattr(st, "handlers", []) or []:
            if _split_parallel(h.body):
                changed = True
        for c in getattr(st, "cases", []) or []:
            if _split_parallel(c.body):
                changed = True
        i += 1
    return changed


def _module_literals(module):
    """Module-level names bound exactly once to a literal tuple/list/set/frozenset of plain names and
    constants (`_ENDING = (ACK, RST)`): a membership test against such a name means the literal."""
    out, count = {}, {}
    for st in module.tree.body:
        tg = []
        if isinstance(st, ast.Assign):
            tg = [t for t in st.targets]
        elif isinstance(st, (ast.AnnAssign, ast.AugAssign)):
            tg = [st.target]
        for t in tg:
            for n in ast.walk(t):
                if isinstance(n, ast.Name):
                    count[n.id] = count.get(n.id, 0) + 1
        if isinstance(st, (ast.Assign, ast.AnnAssign)) and len(tg) == 1 and isinstance(tg[0], ast.Name) and st.value is not None:
            v = st.value
            if isinstance(v, ast.Call) and chain(v.func) in ("frozenset", "set", "tuple") and len(v.args) == 1 and not v.keywords:
                v = v.args[0]
            if isinstance(v, (ast.Tuple, ast.List, ast.Set)) and v.elts and all(chain(x) is not None or isinstance(x, ast.Constant) for x in v.elts):
                out[tg[0].id] = ast.Tuple(elts=list(v.elts), ctx=ast.Load())
    return {k: v for k, v in out.items() if count.get(k) == 1}


def _inline_module_literals(node, module):
    lits = _module_literals(module)
    if not lits:
        return False
    bound = {n.id for n in ast.walk(node) if isinstance(n, ast.Name) and isinstance(n.ctx, (ast.Store, ast.Del))}
    bound |= {a.arg for f in ast.walk(node) if isinstance(f, (ast.FunctionDef, ast.AsyncFunctionDef, ast.Lambda)) for a in f.args.posonlyargs + f.args.args + f.args.kwonlyargs}
    changed = False
    for n in ast.walk(node):
        if isinstance(n, ast.Compare) and len(n.ops) == 1 and isinstance(n.ops[0], (ast.In, ast.NotIn)):
            r = n.comparators[0]
            if isinstance(r, ast.Name) and r.id in lits and r.id not in bound:
                n.comparators[0] = ast.copy_location(copy.deepcopy(lits[r.id]), r)
                ast.fix_missing_locations(n)
                changed = True
    return changed


def view(fi):
    v = getattr(fi, "_c03_view", None)
    if v is not None:
        return v
    node = copy.deepcopy(fi.node)
    v = fi
    lit = _inline_module_literals(node, fi.module)
    if _split_parallel(node.body) or lit:
        try:
            from ..inline import _CopyProp

            _CopyProp(node).run()
        except ImportError:
            pass
        v = FuncInfo(fi.qn, node, fi.module, fi.cls, fi.parent)
    fi._c03_view = v
    return v


# ---------------------------------------------------------------------------
# calls: resolution of the callee, binding of arguments, value of a call


def own_class(fi):
    f = fi
    while f is not None:
        if f.cls is not None:
            return f.cls
        f = f.parent
    return None


def _decorators(fnode):
    out = set()
    for d in getattr(fnode, "decorator_list", []):
        try:
            out.add(ast.unparse(d))
        except Exception:
            out.add("?")
    return out


def is_static(fnode):
    return "staticmethod" in _decorators(fnode)


def resolve_callee(prog, fi, call):
    """FuncInfo of the package function a call statically resolves to, else None
    (dynamically dispatched = overridden methods are not resolved)."""
    f = resolve_local(fi.node, call.func) if isinstance(call.func, ast.Name) else call.func
    if isinstance(f, ast.Attribute):
        recv = resolve_local(fi.node, f.value)
        rt = chain(recv)
        ci = own_class(fi)
        if ci is not None and (rt in ("self", "cls") or (rt is None and stmt_text(recv) in ("type(self)", "self.__class__"))):
            target = prog.lookup_method(ci.qn, f.attr)
            if target is None:
                return None
            for sub in prog.subclasses(ci.qn):
                if sub != ci.qn and sub in prog.classes and f.attr in prog.classes[sub].methods:
                    return None
            return target
        if rt:
            return prog.funcs.get(prog.resolve_in_module(fi.module, rt + "." + f.attr))
        return None
    if isinstance(f, ast.Name):
        return prog.funcs.get(prog.resolve_in_module(fi.module, f.id))
    return None


def bind_args(fnode, call_args, call_keywords, drop_first):
    """{parameter name: argument expression} for a call of the function `fnode`
    (defaults filled in), or None for *args/**kwargs shapes."""
    a = fnode.args
    if a.vararg or a.kwarg:
        return None
    pos = [x.arg for x in a.posonlyargs + a.args]
    defaults = dict(zip(pos[len(pos) - len(a.defaults) :], a.defaults))
    for k, d in zip(a.kwonlyargs, a.kw_defaults):
        if d is not None:
            defaults[k.arg] = d
    if drop_first:
        pos = pos[1:]
    names = pos + [k.arg for k in a.kwonlyargs]
    bound = {}
    for i, arg in enumerate(call_args):
        if isinstance(arg, ast.Starred) or i >= len(pos):
            return None
        bound[pos[i]] = arg
    for kw in call_keywords:
        if kw.arg is None or kw.arg in bound or kw.arg not in names:
            return None
        bound[kw.arg] = kw.value
    for p in names:
        if p not in bound:
            if p not in defaults:
                return None
            bound[p] = defaults[p]
    return bound


def method_args(target_fi, call):
    """Arguments of `recv.method(...)` bound to the parameter names of target_fi (self dropped)."""
    drop = target_fi.cls is not None and not is_static(target_fi.node)
    return bind_args(target_fi.node, call.args, call.keywords, drop)


class _Subst(ast.NodeTransformer):
    def __init__(self, mapping):
        self.mapping = mapping

    def visit_Name(self, n):
        if isinstance(n.ctx, ast.Load) and n.id in self.mapping:
            return ast.copy_location(copy.deepcopy(self.mapping[n.id]), n)
        return n


def subst(e, mapping):
    e = _Subst(mapping).visit(copy.deepcopy(e))
    ast.fix_missing_locations(e)
    return e


def straight_return(fnode):
    """The returned expression of a function whose body is a straight line of
    local bindings (and logging) followed by one `return <expr>`; else None."""
    body = list(fnode.body)
    if body and isinstance(body[0], ast.Expr) and isinstance(body[0].value, ast.Constant) and isinstance(body[0].value.value, str):
        body = body[1:]
    rets = [n for n in walk_no_nested(fnode) if isinstance(n, ast.Return)]
    if len(rets) != 1 or not body or rets[0] is not body[-1] or rets[0].value is None:
        return None
    for st in body[:-1]:
        if isinstance(st, ast.Assign) and len(st.targets) == 1 and isinstance(st.targets[0], ast.Name):
            continue
        if isinstance(st, ast.AnnAssign) and isinstance(st.target, ast.Name):
            continue
        if isinstance(st, ast.Expr) and isinstance(st.value, ast.Call) and is_log_call(st.value):
            continue
        if isinstance(st, ast.Pass):
            continue
        return None
    return rets[0].value


class _Close(ast.NodeTransformer):
    def __init__(self, prog, fi, depth):
        self.prog = prog
        self.fi = fi
        self.depth = depth
        self.env = norm.local_env(fi.node)
        self.stack = set()

    def visit_Name(self, n):
        if isinstance(n.ctx, ast.Load) and n.id in self.env and n.id not in self.stack:
            self.stack.add(n.id)
            try:
                return self.visit(copy.deepcopy(self.env[n.id]))
            finally:
                self.stack.discard(n.id)
        return n

    def _opaque(self, n):
        return n

    def visit_Subscript(self, n):
        self.generic_visit(n)
        # (a, b)[0] -> a
        if isinstance(n.value, (ast.Tuple, ast.List)) and isinstance(n.ctx, ast.Load) and not any(isinstance(x, ast.Starred) for x in n.value.elts):
            try:
                k = norm.consteval(n.slice)
            except norm.NormError:
                return n
            if isinstance(k, int) and not isinstance(k, bool) and -len(n.value.elts) <= k < len(n.value.elts):
                return n.value.elts[k]
        return n

    visit_Lambda = visit_ListComp = visit_SetComp = visit_DictComp = visit_GeneratorExp = _opaque

    def visit_Call(self, n):
        callee = resolve_callee(self.prog, self.fi, n) if self.depth > 0 else None
        self.generic_visit(n)
        if callee is None or callee.node is self.fi.node or callee.is_async:
            return n
        ret = straight_return(callee.node)
        if ret is None:
            return n
        decos = _decorators(callee.node)
        if "classmethod" in decos:
            return n  # not modelled
        is_method = callee.cls is not None and "staticmethod" not in decos
        if is_method and isinstance(n.func, ast.Attribute):
            rc = chain(n.func.value)
            if rc and self.prog.resolve_in_module(self.fi.module, rc) in self.prog.classes:
                return n  # Class.method(obj, ...): not modelled
        b = bind_args(callee.node, n.args, n.keywords, is_method)
        if b is None:
            return n
        inner = closed(self.prog, callee, ret, self.depth - 1)
        if is_method:
            first = (callee.node.args.posonlyargs + callee.node.args.args)[0].arg
            b = dict(b)
            b[first] = n.func.value if isinstance(n.func, ast.Attribute) else ast.Name(id="self", ctx=ast.Load())
        return ast.copy_location(subst(inner, b), n)


def closed(prog, fi, e, depth=3):
    """`e` with single-assignment locals of fi replaced by their defining
    expression and calls of straight-line package helpers replaced by the helper's
    returned expression (parameters bound to the arguments).  The result denotes
    the same value; it is used for comparisons of normal forms only."""
    out = _Close(prog, fi, depth).visit(copy.deepcopy(e))
    ast.fix_missing_locations(out)
    return out


def synthetic_method(ci, name, body_expr):
    """FuncInfo of `def name(self): return <body_expr>` in class ci: gives an expression that lives in the class
    body (the lambda of `NAME = property(lambda self: ...)`) the scope `closed` / `resolve_callee` need."""
    a = ast.arguments(posonlyargs=[], args=[ast.arg(arg="self")], vararg=None, kwonlyargs=[], kw_defaults=[], kwarg=None, defaults=[])
    fn = ast.FunctionDef(name=name, args=a, body=[ast.Return(value=body_expr)], decorator_list=[], returns=None, type_comment=None, type_params=[])
    ast.copy_location(fn, body_expr)
    ast.fix_missing_locations(fn)
    return FuncInfo(ci.qn + "." + name, fn, ci.module, ci, None)


def self_calls(fi, name):
    """Calls `self.<name>(...)` in fi (receiver and bound-method aliases resolved)."""
    out = []
    for c in calls_in(fi.node):
        f = resolve_local(fi.node, c.func)
        if isinstance(f, ast.Attribute) and f.attr == name and chain(resolve_local(fi.node, f.value)) == "self":
            out.append(c)
    return out


def calls_on(fi, recv_chain, names):
    """Calls `<recv_chain>.<name>(...)`, name in names, receiver aliases resolved."""
    out = []
    for c in calls_in(fi.node):
        f = resolve_local(fi.node, c.func)
        if isinstance(f, ast.Attribute) and f.attr in names and chain(resolve_local(fi.node, f.value)) == recv_chain:
            out.append(c)
    return out


def resolved_func_name(prog, fi, func_expr):
    c = chain(resolve_local(fi.node, func_expr))
    return prog.resolve_in_module(fi.module, c) if c else None


# ---------------------------------------------------------------------------
# callables: lambda, nested def, functools.partial, bound method -- one model


def _nested_def(fi, name):
    for n in walk_no_nested(fi.node):
        if isinstance(n, (ast.FunctionDef, ast.AsyncFunctionDef)) and n.name == name and n is not fi.node:
            return n
    return None


def callable_call(prog, fi, cb, extra_args, target_attr):
    """What does calling `cb(*extra_args)` do?  -> (func expr, [args], [keywords], why) of the one call
    of a method named target_attr it performs, all expressed in the scope of fi; (None, .., why) if the
    callable is not understood.  lambda / nested def: parameters are bound to the extra arguments, then to
    their defaults (evaluated in fi's scope when the callable is created); free names are fi's names
    (captured by reference -- the caller must check that they are not rebound)."""
    cbr = resolve_local(fi.node, cb)
    if isinstance(cbr, ast.Call) and resolved_func_name(prog, fi, cbr.func) == "functools.partial" and cbr.args:
        if any(isinstance(x, ast.Starred) for x in cbr.args) or any(k.arg is None for k in cbr.keywords):
            raise AnalysisError("timer callback outside the rule's vocabulary: " + "partial with star arguments")
        f, a, k, why = callable_call(prog, fi, cbr.args[0], list(cbr.args[1:]) + list(extra_args), target_attr)
        if f is None:
            return f, a, k, why
        return f, a, list(cbr.keywords) + list(k), "partial"
    if isinstance(cbr, ast.Attribute):
        if cbr.attr != target_attr:
            return None, None, None, "callback is %s" % stmt_text(cbr)
        return cbr, list(extra_args), [], "bound method"
    fnode = None
    if isinstance(cbr, ast.Lambda):
        fnode = cbr
    elif isinstance(cbr, ast.Name):
        fnode = _nested_def(fi, cbr.id)
    if fnode is None:
        raise AnalysisError("timer callback outside the rule's vocabulary: " + "%s is not a lambda, nested def, partial or bound method" % stmt_text(cb))
    a = fnode.args
    if a.vararg or a.kwarg:
        raise AnalysisError("timer callback outside the rule's vocabulary: " + "callback with *args")
    pos = a.posonlyargs + a.args
    defaults = dict(zip([x.arg for x in pos][len(pos) - len(a.defaults) :], a.defaults))
    for k, d in zip(a.kwonlyargs, a.kw_defaults):
        if d is not None:
            defaults[k.arg] = d
    mapping = {}
    if len(extra_args) > len(pos):
        return None, None, None, "more timer arguments than callback parameters"
    for p, x in zip(pos, extra_args):
        mapping[p.arg] = x
    for p in pos[len(extra_args) :] + a.kwonlyargs:
        if p.arg not in defaults:
            return None, None, None, "callback parameter %s is never bound" % p.arg
        mapping[p.arg] = defaults[p.arg]
    if isinstance(fnode, ast.Lambda):
        top = [fnode.body]
        allcalls = [c for c in ast.walk(fnode.body) if isinstance(c, ast.Call)]
    else:
        top = [st.value for st in fnode.body if isinstance(st, (ast.Expr, ast.Return)) and st.value is not None]
        top = [t.value if isinstance(t, ast.Await) else t for t in top]
        allcalls = [c for st in fnode.body for c in ast.walk(st) if isinstance(c, ast.Call)]
        rebound = {n.id for st in fnode.body for n in ast.walk(st) if isinstance(n, ast.Name) and isinstance(n.ctx, ast.Store)}
        if rebound:
            raise AnalysisError("timer callback outside the rule's vocabulary: " + "callback rebinds names (%s)" % ", ".join(sorted(rebound)))
    hits = [c for c in allcalls if isinstance(c.func, ast.Attribute) and c.func.attr == target_attr]
    if len(hits) > 1:
        raise AnalysisError("timer callback outside the rule's vocabulary: %d calls of %s" % (len(hits), target_attr))
    if not hits:
        return None, None, None, "no call of %s in the callback" % target_attr
    call = hits[0]
    if not any(call is t for t in top):
        raise AnalysisError("timer callback outside the rule's vocabulary: " + "the %s call is not an unconditional statement of the callback" % target_attr)
    if any(isinstance(x, ast.Starred) for x in call.args) or any(k.arg is None for k in call.keywords):
        raise AnalysisError("timer callback outside the rule's vocabulary: " + "star arguments")
    f = subst(call.func, mapping)
    args = [subst(x, mapping) for x in call.args]
    kws = [ast.keyword(arg=k.arg, value=subst(k.value, mapping)) for k in call.keywords]
    return f, args, kws, "callback"


# ---------------------------------------------------------------------------
# accesses of a dict-valued field, every spelling


class Access:
    __slots__ = ("kind", "node", "key", "value", "default", "how")

    def __init__(self, kind, node, key=None, value=None, default=None, how=""):
        self.kind = kind  # read test insert remove iter other
        self.node = node
        self.key = key
        self.value = value  # insert: the stored value expression
        self.default = default  # get/pop: the default expression (None = raises / returns None for get)
        self.how = how

    def __repr__(self):
        return "<%s %s %s>" % (self.kind, self.how, stmt_text(self.node, 60))


def table_accesses(fi, field, nested=True):
    """Every access of the dict `field` (e.g. 'self._active_exchanges') in fi:
    d[k] / d.get(k[, dflt]) / d.__getitem__(k)                      -> read
    k in d / k not in d / d.__contains__(k)                         -> test
    d[k] = v / d.setdefault(k, v) / d.update({k: v}) / __setitem__  -> insert
    d.pop(k[, dflt]) / del d[k] / d.__delitem__(k)                  -> remove
    iteration over d, d.items(), d.keys(), d.values()               -> iter
    clear / popitem / update(<non literal>) / augmented stores       -> other
    Local aliases of the table (`t = self._active_exchanges`) are followed."""
    fnode = fi.node

    def is_tab(e):
        return chain(resolve_local(fnode, e)) == field

    out = []
    seen_sub = set()
    it = ast.walk(fnode) if nested else walk_no_nested(fnode)
    for n in it:
        if isinstance(n, (ast.Assign, ast.AnnAssign)):
            targets = n.targets if isinstance(n, ast.Assign) else [n.target]
            for t in targets:
                if isinstance(t, ast.Subscript) and is_tab(t.value):
                    seen_sub.add(id(t))
                    if getattr(n, "value", None) is not None:
                        out.append(Access("insert", n, t.slice, n.value, how="setitem"))
                elif isinstance(t, (ast.Tuple, ast.List)):
                    for tt in ast.walk(t):
                        if isinstance(tt, ast.Subscript) and is_tab(tt.value):
                            seen_sub.add(id(tt))
                            out.append(Access("insert", n, tt.slice, None, how="setitem(unpacked)"))
        elif isinstance(n, ast.AugAssign):
            t = n.target
            if isinstance(t, ast.Subscript) and is_tab(t.value):
                seen_sub.add(id(t))
                out.append(Access("other", n, t.slice, how="augmented"))
            elif is_tab(t) and isinstance(n.op, ast.BitOr) and isinstance(n.value, ast.Dict) and all(k is not None for k in n.value.keys):
                for k, v in zip(n.value.keys, n.value.values):
                    out.append(Access("insert", n, k, v, how="|="))
        elif isinstance(n, ast.Delete):
            for t in n.targets:
                if isinstance(t, ast.Subscript) and is_tab(t.value):
                    seen_sub.add(id(t))
                    out.append(Access("remove", n, t.slice, how="del"))
        elif isinstance(n, ast.Call) and isinstance(n.func, ast.Attribute) and is_tab(n.func.value):
            m = n.func.attr
            a = n.args
            if m in ("get", "__getitem__") and a:
                out.append(Access("read", n, a[0], default=a[1] if len(a) > 1 else None, how=m))
            elif m == "pop" and a:
                out.append(Access("remove", n, a[0], default=a[1] if len(a) > 1 else None, how="pop"))
            elif m == "__delitem__" and a:
                out.append(Access("remove", n, a[0], how="del"))
            elif m in ("setdefault", "__setitem__") and len(a) >= 1:
                out.append(Access("insert", n, a[0], a[1] if len(a) > 1 else ast.Constant(value=None), how=m))
            elif m == "update" and len(a) == 1 and not n.keywords and isinstance(a[0], ast.Dict) and all(k is not None for k in a[0].keys):
                for k, v in zip(a[0].keys, a[0].values):
                    out.append(Access("insert", n, k, v, how="update"))
            elif m == "__contains__" and a:
                out.append(Access("test", n, a[0], how=m))
            elif m in ("items", "keys", "values", "copy"):
                out.append(Access("iter", n, how=m))
            else:
                out.append(Access("other", n, how=m))
        elif isinstance(n, ast.Compare) and len(n.ops) == 1 and isinstance(n.ops[0], (ast.In, ast.NotIn)) and is_tab(n.comparators[0]):
            out.append(Access("test", n, n.left, how="in"))
        elif isinstance(n, (ast.For, ast.AsyncFor)) and is_tab(n.iter):
            out.append(Access("iter", n, how="for"))
        elif isinstance(n, ast.comprehension) and is_tab(n.iter):
            out.append(Access("iter", n, how="comprehension"))
    it = ast.walk(fnode) if nested else walk_no_nested(fnode)
    for n in it:
        if isinstance(n, ast.Subscript) and id(n) not in seen_sub and is_tab(n.value):
            if isinstance(n.ctx, ast.Load):
                out.append(Access("read", n, n.slice, how="getitem"))
    return out


def possible_values(fi, e, depth=4):
    """The expressions a value may come from: a name is followed through *all* its plain
    assignments (every candidate must satisfy what the caller checks); both arms of a
    conditional expression count.  None if some binding is not a plain assignment."""
    if depth == 0:
        return [e]
    if isinstance(e, ast.IfExp):
        a, b = possible_values(fi, e.body, depth - 1), possible_values(fi, e.orelse, depth - 1)
        return None if a is None or b is None else a + b
    if isinstance(e, ast.Name):
        ws = writes_to_name(fi.node, e.id)
        if not ws:
            return [e]
        out = []
        for w in ws:
            if isinstance(w, ast.Assign) and len(w.targets) == 1 and isinstance(w.targets[0], ast.Name):
                v = possible_values(fi, w.value, depth - 1)
            elif isinstance(w, ast.AnnAssign) and w.value is not None:
                v = possible_values(fi, w.value, depth - 1)
            else:
                return None
            if v is None:
                return None
            out.extend(v)
        return out
    return [e]


def canon_chain(fi, e):
    """Attribute chain of e with local aliases expanded (`msg = message; msg.remote` -> message.remote)."""
    e = resolve_local(fi.node, e)
    if chain(e) is None:
        return None
    return Normalizer(env=norm.local_env(fi.node)).atom_name(e)


# ---------------------------------------------------------------------------
# components of a stored pair


class Pair:
    """Names / expressions that denote the components of a pair-valued expression `src`
    (the value read or popped from the table): `a, b = src`, `x = src; a, b = x`, `x[0]`, `x[1]`."""

    def __init__(self, fi, sources):
        self.fi = fi
        self.sources = list(sources)
        self.holders = set()
        self.comp = {0: set(), 1: set()}
        self.bind_stmts = []
        fnode = fi.node
        changed = True
        while changed:
            changed = False
            for n in walk_no_nested(fnode):
                if isinstance(n, ast.NamedExpr) and self._is_pair(n.value) and n.target.id not in self.holders and len(writes_to_name(fnode, n.target.id)) == 1:
                    self.holders.add(n.target.id)
                    changed = True
                if not (isinstance(n, ast.Assign) and len(n.targets) == 1):
                    continue
                if not self._is_pair(n.value):
                    continue
                t = n.targets[0]
                if isinstance(t, ast.Name):
                    if len(writes_to_name(fnode, t.id)) == 1 and t.id not in self.holders:
                        self.holders.add(t.id)
                        self.bind_stmts.append(n)
                        changed = True
                elif isinstance(t, (ast.Tuple, ast.List)) and len(t.elts) == 2:
                    for i, el in enumerate(t.elts):
                        if isinstance(el, ast.Name) and len(writes_to_name(fnode, el.id)) == 1 and el.id not in self.comp[i]:
                            self.comp[i].add(el.id)
                            changed = True
                    if n not in self.bind_stmts:
                        self.bind_stmts.append(n)

    def _is_pair(self, e):
        if any(e is s for s in self.sources):
            return True
        if isinstance(e, ast.NamedExpr):
            return self._is_pair(e.value)
        return isinstance(e, ast.Name) and e.id in self.holders

    def is_pair(self, e):
        return self._is_pair(e)

    def is_comp(self, e, i):
        if isinstance(e, ast.Name):
            if e.id in self.comp[i]:
                return True
            v = assigned_value(self.fi.node, e.id)
            return v is not None and v is not e and not isinstance(v, ast.Name) and self.is_comp(v, i)
        if isinstance(e, ast.Subscript) and self._is_pair(e.value):
            try:
                k = norm.consteval(e.slice)
            except norm.NormError:
                return False
            return k in (i, i - 2)
        return False


# ---------------------------------------------------------------------------
# comparison facts along a path of the path model


def cmp_at(fi, e, at):
    """Normal form of the branch condition `e` evaluated at CFG node `at`: named conditions are
    resolved, single-assignment locals substituted, re-assigned locals replaced by their value at
    that point (composition of the dominating writes).  None when not expressible."""
    pol = True
    for _ in range(6):
        if isinstance(e, ast.UnaryOp) and isinstance(e.op, ast.Not):
            e = e.operand
            pol = not pol
        elif isinstance(e, ast.Name):
            v = resolve_local(fi.node, e)
            if v is e:
                break
            e = v
        else:
            break
    env = norm.local_env(fi.node)
    penv = {}
    for nm in names_in(e):
        if nm in env:
            continue
        if writes_to_name(fi.node, nm):
            v = value_at(fi, nm, at)
            if v is None:
                return None
            penv[nm] = v
    N = Normalizer(env=env, penv=penv)
    try:
        c = N.cmp(e)
        return c if pol else N.negate(c)
    except norm.NormError:
        return None


class PathFacts:
    """Path model of a function plus, per path, the set of comparison normal forms established by the
    branch outcomes on that path."""

    def __init__(self, fi, subjects=None):
        self.fi = fi
        self.pm = PathModel(fi, subjects=subjects)
        self.cfg = self.pm.cfg
        self._cache = {}
        self._facts = {}

    def paths(self):
        return [p for p in self.pm.paths() if p.end in ("return", "fall")]

    def _outcome(self, nid):
        if nid not in self._cache:
            nd = self.cfg.nodes[nid]
            c = None
            if nd.kind in ("T", "F") and isinstance(nd.ast, ast.expr):
                preds = [p for p, _ in self.cfg.pred[nid]]
                at = preds[0] if preds else nid
                c = cmp_at(self.fi, nd.ast, at)
                if c is not None and nd.kind == "F":
                    try:
                        c = Normalizer().negate(c)
                    except norm.NormError:
                        c = None
            self._cache[nid] = c
        return self._cache[nid]

    def facts(self, path):
        k = id(path)
        if k not in self._facts:
            s = set()
            for nid in path.nodes:
                c = self._outcome(nid)
                if c is not None:
                    s.add(c)
            self._facts[k] = s
        return self._facts[k]

    def nodes_of(self, astnode):
        return set(self.cfg.locate(astnode))

    def describe(self, path):
        return self.pm.describe(path)


def poly_subst_const(p, atom, val):
    """p with the atom replaced by a rational constant."""
    from fractions import Fraction

    out = {}
    for mono, coef in p.t.items():
        c = coef
        rest = []
        for a, k in mono:
            if a == atom:
                c = c * (Fraction(val) ** k)
            else:
                rest.append((a, k))
        key = tuple(rest)
        out[key] = out.get(key, 0) + c
    return Poly(out)


def poly_degree(p, atom):
    d = 0
    for mono in p.t:
        for a, k in mono:
            if a == atom:
                d = max(d, k)
    return d


# ---------------------------------------------------------------------------
# exception classes: the class hierarchy including the builtin classes under every name they go by
#
# Engine gap worked around here: model.Program.mro() knows the builtin exceptions by their bare name only, so a
# base spelled `builtins.TimeoutError` (or imported `from builtins import TimeoutError as X`) is a leaf for it,
# and `IOError` / `socket.error` / `asyncio.TimeoutError` (aliases of OSError / TimeoutError since 3.3 / 3.11,
# the package requires >= 3.11) are classes of their own.

_EXC_ALIAS = {
    "IOError": "OSError",
    "EnvironmentError": "OSError",
    "WindowsError": "OSError",
    "socket.error": "OSError",
    "select.error": "OSError",
    "os.error": "OSError",
    "socket.timeout": "TimeoutError",
    "asyncio.TimeoutError": "TimeoutError",
    "asyncio.exceptions.TimeoutError": "TimeoutError",
    "concurrent.futures.TimeoutError": "TimeoutError",
}


def canon_exc(q):
    if q.startswith("builtins."):
        q = q[len("builtins."):]
    return _EXC_ALIAS.get(q, q)


def exc_mro(prog, qn):
    from ..model import BUILTIN_EXC

    out, seen = [], set()

    def rec(q):
        q = canon_exc(q)
        if q in seen:
            return
        seen.add(q)
        out.append(q)
        if q in prog.classes:
            for b in prog.classes[q].bases:
                rec(b)
        elif BUILTIN_EXC.get(q):
            rec(BUILTIN_EXC[q])

    rec(qn)
    return out


def exc_is_subclass(prog, a, b):
    return canon_exc(b) in exc_mro(prog, a)


def class_aware_interp(E):
    """The small-scope evaluator of rules/_kit_c02.py (E) with `isinstance` / `except` on an individual of known
    class decided by the hierarchy above."""
    from ..model import BUILTIN_EXC

    class _Interp(E.Interp):
        def is_instance(self, v, c, node=None):
            if isinstance(v, E.Obj) and v.cls is not None and isinstance(c, E.ClassRef) and (v.name, c.qn) not in self.isa:
                return exc_is_subclass(self.prog, v.cls, c.qn)
            return super().is_instance(v, c, node)

        def global_ref(self, qn):
            if canon_exc(qn) in BUILTIN_EXC and qn not in self.prog.classes:
                return E.ClassRef(canon_exc(qn))
            return super().global_ref(qn)

    return _Interp


# ---------------------------------------------------------------------------
# where the value of an attribute of a freshly built object comes from


def parent_map(root):
    pm = {}
    for n in ast.walk(root):
        for c in ast.iter_child_nodes(n):
            pm[id(c)] = n
    return pm


def _literal_elts(e):
    if isinstance(e, (ast.Tuple, ast.List, ast.Set)) and e.elts and all(isinstance(x, ast.Constant) for x in e.elts):
        return [x.value for x in e.elts]
    return None


def literal_bindings(root, node, name, parents=None):
    """The constants the name takes at `node` when it is the variable of an enclosing `for name in (c1, c2, ...)`
    statement or comprehension generator over a literal collection of constants (table-driven code); else None."""
    parents = parents or parent_map(root)
    cur = node
    while id(cur) in parents:
        par = parents[id(cur)]
        if isinstance(par, (ast.For, ast.AsyncFor)) and cur is not par.iter and isinstance(par.target, ast.Name) and par.target.id == name:
            it = par.iter
            if isinstance(it, ast.Name) and isinstance(root, (ast.FunctionDef, ast.AsyncFunctionDef)):
                it = resolve_local(root, it)
            return _literal_elts(it)
        if isinstance(par, (ast.ListComp, ast.SetComp, ast.GeneratorExp, ast.DictComp)):
            for g in par.generators:
                if isinstance(g.target, ast.Name) and g.target.id == name and cur is not g.iter:
                    it = g.iter
                    if isinstance(it, ast.Name) and isinstance(root, (ast.FunctionDef, ast.AsyncFunctionDef)):
                        it = resolve_local(root, it)
                    return _literal_elts(it)
        if par is root:
            break
        cur = par
    return None


def const_keys(root, node, key, parents=None):
    """[(constant value, {loop variable: Constant})] the key expression can take at `node`: a constant expression,
    or the variable of an enclosing loop over a literal collection.  None when not determined."""
    try:
        return [(norm.consteval(resolve_local(root, key) if isinstance(root, (ast.FunctionDef, ast.AsyncFunctionDef)) else key), {})]
    except norm.NormError:
        pass
    if isinstance(key, ast.Name):
        vals = literal_bindings(root, node, key.id, parents)
        if vals is not None:
            return [(v, {key.id: ast.Constant(value=v)}) for v in vals]
    return None


def attr_stores(root, attr, unknown=None):
    """[(receiver expr, value expr or None, node)] for every write of `<recv>.<attr>` below root: assignment
    (plain, annotated, as element of a tuple target -> value None), augmented assignment / del (value None),
    setattr(recv, "<attr>", v) -- the attribute name a constant or the variable of an enclosing loop over a
    literal collection of names (the value is then the instance for that name).  setattr calls whose attribute
    name is not determined are collected in `unknown` as (receiver, node)."""
    out = []
    parents = None
    for n in ast.walk(root):
        if isinstance(n, (ast.Assign, ast.AnnAssign)):
            tg = n.targets if isinstance(n, ast.Assign) else [n.target]
            for t in tg:
                if isinstance(t, ast.Attribute) and t.attr == attr:
                    if getattr(n, "value", None) is not None:
                        out.append((t.value, n.value, n))
                elif isinstance(t, (ast.Tuple, ast.List)):
                    for tt in ast.walk(t):
                        if isinstance(tt, ast.Attribute) and tt.attr == attr and isinstance(tt.ctx, ast.Store):
                            out.append((tt.value, None, n))
        elif isinstance(n, ast.AugAssign) and isinstance(n.target, ast.Attribute) and n.target.attr == attr:
            out.append((n.target.value, None, n))
        elif isinstance(n, ast.Delete):
            for t in n.targets:
                if isinstance(t, ast.Attribute) and t.attr == attr:
                    out.append((t.value, None, n))
        elif isinstance(n, ast.Call) and chain(n.func) in ("setattr", "object.__setattr__", "delattr") and not n.keywords and len(n.args) == (2 if chain(n.func) == "delattr" else 3):
            parents = parents or parent_map(root)
            ks = const_keys(root, n, n.args[1], parents)
            if ks is None:
                if unknown is not None:
                    unknown.append((n.args[0], n))
                continue
            for kv, env in ks:
                if kv == attr:
                    out.append((n.args[0], subst(n.args[2], env) if len(n.args) == 3 else None, n))
    return out


def dict_entry(fi, e, key, at, depth=4):
    """The value expression stored under the constant `key` in the dict the expression e builds -- a dict display,
    dict(k=v, ...), a dict comprehension over a literal collection of names (instantiated for `key`), through
    `**` / `|` merges (the last one wins) -- or None when the dict has no such entry.  AnalysisError when the
    dict is not one of these."""
    def refuse():
        raise AnalysisError("%s: the mapping `%s` is built in a way outside the rule's vocabulary" % (fi.short, stmt_text(e, 70)))

    if depth == 0:
        refuse()
    if isinstance(e, ast.Name):
        ws = writes_to_name(fi.node, e.id)
        if len(ws) != 1 or not (isinstance(ws[0], (ast.Assign, ast.AnnAssign)) and getattr(ws[0], "value", None) is not None):
            refuse()
        if [k for k, _n in stores_to(fi.node, e.id) if k != "assign"]:
            refuse()  # the dict is changed after it was built
        return dict_entry(fi, ws[0].value, key, ws[0], depth - 1)
    if isinstance(e, ast.Dict):
        found = None
        for k, v in zip(e.keys, e.values):
            if k is None:
                r = dict_entry(fi, v, key, at, depth - 1)
                found = r if r is not None else found
                continue
            try:
                kv = norm.consteval(resolve_local(fi.node, k))
            except norm.NormError:
                refuse()
            if kv == key:
                found = v
                found._c03_at = at
        return found
    if isinstance(e, ast.Call) and chain(e.func) == "dict" and not e.args:
        found = None
        for k in e.keywords:
            if k.arg is None:
                r = dict_entry(fi, k.value, key, at, depth - 1)
                found = r if r is not None else found
            elif k.arg == key:
                found = k.value
                found._c03_at = at
        return found
    if isinstance(e, ast.BinOp) and isinstance(e.op, ast.BitOr):
        r = dict_entry(fi, e.right, key, at, depth - 1)
        return r if r is not None else dict_entry(fi, e.left, key, at, depth - 1)
    if isinstance(e, ast.DictComp) and len(e.generators) == 1 and not e.generators[0].ifs and isinstance(e.generators[0].target, ast.Name):
        g = e.generators[0]
        it = resolve_local(fi.node, g.iter) if isinstance(g.iter, ast.Name) else g.iter
        vals = _literal_elts(it)
        if vals is None:
            refuse()
        found = None
        for c in vals:
            env = {g.target.id: ast.Constant(value=c)}
            try:
                kv = norm.consteval(subst(e.key, env))
            except norm.NormError:
                refuse()
            if kv == key:
                found = subst(e.value, env)
                found._c03_at = at
        return found
    refuse()


def kwargs_param(fnode):
    return fnode.args.kwarg.arg if fnode.args.kwarg is not None else None


def mapping_read(fi, e, mapping_name):
    """(key value, default expr or None, has_default) when e reads one entry of the (never rebound) mapping
    parameter: m[k], m.get(k[, d]), m.pop(k[, d]); else None.  A non-constant key gives key value None."""
    if mapping_name is None or writes_to_name(fi.node, mapping_name):
        return None
    key = dflt = None
    has = False
    if isinstance(e, ast.Subscript) and chain(resolve_local(fi.node, e.value)) == mapping_name:
        key = e.slice
    elif isinstance(e, ast.Call) and isinstance(e.func, ast.Attribute) and e.func.attr in ("get", "pop", "__getitem__") and chain(resolve_local(fi.node, e.func.value)) == mapping_name and e.args and not e.keywords:
        key = e.args[0]
        if len(e.args) > 1 and e.func.attr != "__getitem__":
            dflt, has = e.args[1], True
        elif e.func.attr == "get":
            dflt, has = ast.Constant(value=None), True
    else:
        return None
    try:
        kv = norm.consteval(resolve_local(fi.node, key))
    except norm.NormError:
        kv = None
    return kv, dflt, has


def reaching_defs(fi, name, use_ast):
    """Definitions of the local `name` that can reach the statement containing use_ast:
    -> [write statement, or None for the value the name has at entry (a parameter)].  A write that every path
    to the use overwrites again does not reach it."""
    cfg = cfg_of(fi)
    use = set(cfg.locate(use_ast))
    ws = writes_to_name(fi.node, name)
    at = [(w, set(cfg.locate(w))) for w in ws]
    allw = set()
    for _, s in at:
        allw |= s
    out = []
    for w, s in at:
        avoid = (allw - s) - use
        if not use or any(u in cfg.reach(s, avoid=avoid) for u in use):
            out.append(w)
    if not use or any(u in cfg.reach({cfg.entry}, avoid=allw - use, include_src=True) for u in use):
        out.append(None)
    return out


def guards_mention(fi, stmt, name):
    """Is the statement dominated by a branch outcome whose condition reads `name`?"""
    cfg = cfg_of(fi)
    for nid in cfg.locate(stmt):
        if any(name in names_in(resolve_local(fi.node, g[0]) if isinstance(g[0], ast.Name) else g[0]) for g in cfg.guards(nid)):
            return True
    return False


# ---------------------------------------------------------------------------
# evaluation of a class at chosen parameter points (C03.g, evaluation route)
#
# `_kit_c04.ClassEval` computes `instance_of(cls).NAME` for the classes the package defines, i.e. at ONE parameter
# point (the defaults).  A derived constant is a *function* of the base parameters, because tunings are made by
# subclassing (`class Slow(TransportTuning): ACK_TIMEOUT = 5`), so it has to be compared with the reference formula at
# several points.  `PointEval` evaluates an instance of a synthetic direct subclass
#
#     class <point>(Base):
#         ACK_TIMEOUT = 7 / 2
#         MAX_RETRANSMIT = 5 ...
#
# which is handed to ClassEval through a view of the program that knows one more class.  Everything else is ClassEval's
# semantics unchanged: `self.X` / `getattr(self, "X")` / `type(self).X` see the point's value, `Base.X` (the class named
# explicitly) and `super().X` see the base's own value -- exactly what Python does for such a subclass.


class EvalRefused(Exception):
    """the evaluator cannot compute the value (its own vocabulary); the clause refuses"""


class _PointProgram:
    """the analysed program plus one synthetic class (read-only view; everything else is delegated)"""

    def __init__(self, prog, base_qn):
        from collections import ChainMap

        self._prog = prog
        self._base = base_qn
        self._extra = {}
        self.classes = ChainMap(self._extra, prog.classes)

    def __getattr__(self, name):
        return getattr(self._prog, name)

    def set_point(self, ci):
        self._extra.clear()
        self._extra[ci.qn] = ci

    def mro(self, qn):
        if qn in self._extra:
            return [qn] + self._prog.mro(self._base)
        return self._prog.mro(qn)

    def is_subclass(self, a, b):
        return b in self.mro(a)


def _fraction_expr(v):
    """expression whose exact value is the Fraction v (`7 / 2`; ClassEval's arithmetic is exact)"""
    from fractions import Fraction

    v = Fraction(v)
    num = ast.Constant(value=abs(v.numerator))
    e = num if v.denominator == 1 else ast.BinOp(left=num, op=ast.Div(), right=ast.Constant(value=v.denominator))
    return ast.UnaryOp(op=ast.USub(), operand=e) if v < 0 else e


class PointEval:
    """value(name, point) -> Fraction: `instance.NAME` for an instance of a subclass of base_qn whose class attributes
    take the values of `point` ({attribute name: Fraction}).  Raises EvalRefused when ClassEval does."""

    def __init__(self, prog, base_qn):
        from ._kit_c04 import ClassEval, Unsupported
        from ..model import ClassInfo

        self._Unsupported = Unsupported
        self._ClassInfo = ClassInfo
        self.base_ci = prog.classes[base_qn]
        self.base_qn = base_qn
        self.qn = base_qn + "<parameter point>"
        self.view = _PointProgram(prog, base_qn)
        self.ev = ClassEval(self.view, self.qn)
        self.deps = {}

    def _install(self, point):
        body = [ast.Assign(targets=[ast.Name(id=k, ctx=ast.Store())], value=_fraction_expr(v)) for k, v in sorted(point.items())] or [ast.Pass()]
        node = ast.parse("class _ParameterPoint(%s):\n    pass\n" % self.base_ci.node.name).body[0]
        node.body = body
        ast.fix_missing_locations(node)
        ci = self._ClassInfo(self.qn, node, self.base_ci.module)
        ci.bases = [self.base_qn]
        ci.attrs = {st.targets[0].id: st.value for st in body if isinstance(st, ast.Assign)}
        self.view.set_point(ci)
        self.ev._members.pop(self.qn, None)
        self.ev._steps = 0

    def value(self, name, point):
        self._install(point)
        try:
            v = self.ev.number(name)
        except self._Unsupported as ex:
            raise EvalRefused(str(ex))
        except RecursionError:
            raise EvalRefused("the evaluation nests too deeply")
        except (ArithmeticError, ValueError, MemoryError) as ex:
            raise EvalRefused("the evaluation fails with %s: %s" % (type(ex).__name__, ex))
        self.deps.update(self.ev.deps)
        return v


def formula_value(src, values):
    """exact value of one of the rule's own reference formulas (`T * (2**N - 1) * F`; + - * / ** over names and
    integer literals) at {name: Fraction}"""
    from fractions import Fraction

    def ev(e):
        if isinstance(e, ast.Constant) and isinstance(e.value, int) and not isinstance(e.value, bool):
            return Fraction(e.value)
        if isinstance(e, ast.Name):
            return Fraction(values[e.id])
        if isinstance(e, ast.UnaryOp) and isinstance(e.op, ast.USub):
            return -ev(e.operand)
        if isinstance(e, ast.BinOp):
            a, b = ev(e.left), ev(e.right)
            if isinstance(e.op, ast.Add):
                return a + b
            if isinstance(e.op, ast.Sub):
                return a - b
            if isinstance(e.op, ast.Mult):
                return a * b
            if isinstance(e.op, ast.Div):
                return a / b
            if isinstance(e.op, ast.Pow) and b.denominator == 1:
                return a ** int(b)
        raise ValueError("reference formula outside + - * / **: %s" % ast.unparse(e))

    return ev(ast.parse(src, mode="eval").body)


def parameter_grid(axes):
    """[{name: value}] -- the full cross product of the axes [(name, [values])], the first value of every axis (the
    default) varying slowest, so that the first points differ from the defaults in as few coordinates as possible"""
    points = [{}]
    for name, vals in axes:
        points = [dict(p, **{name: v}) for p in points for v in vals]
    first = {name: vals[0] for name, vals in axes}
    points.sort(key=lambda p: sum(1 for k in p if p[k] != first[k]))
    return points


def first_difference(pe, name, ref_src, letters, points):
    """The first point at which `instance.name` differs from the reference formula -> (point, got, want), or None when
    they agree at every point.  letters: {formula letter: attribute name}.  EvalRefused (with the point) otherwise."""
    for p in points:
        try:
            got = pe.value(name, p)
        except EvalRefused as ex:
            raise EvalRefused("%s (at %s)" % (ex, show_point(p)))
        want = formula_value(ref_src, {l: p[a] for l, a in letters.items()})
        if got != want:
            return p, got, want
    return None


def show_number(v):
    """an exact Fraction for a message: integers and short exact decimals as such, anything else approximately"""
    if v.denominator == 1:
        return str(v.numerator)
    try:
        f = float(v)
    except OverflowError:
        return "%s%d digits" % ("-" if v < 0 else "", len(str(abs(v.numerator // v.denominator))))
    if type(v)(f) == v and len(repr(f)) <= 12:
        return repr(f)
    return "~%.10g" % f


def show_point(p):
    return ", ".join("%s=%s" % (k, show_number(v)) for k, v in p.items())
