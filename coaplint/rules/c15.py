"""C15 CoAP over TCP: framing independent of segmentation, signalling rules enforced."""

import ast
import copy

from ..rulekit import *
from ..norm import Normalizer, Poly, NormError, INF
from ..exc import EscapeAnalysis, Esc

R = Rules(
    "C15",
    explanation=(
        "Structural clauses of the RFC 8323 stream transport decided on the syntax trees of "
        "transports/tcp.py, transports/rfc8323common.py, numbers/codes.py, options.py and optiontypes.py: "
        "the piecewise length tables of the writer (_encode_length) and the reader (_extract_message_size) are "
        "extracted by the checker's own path evaluator (reader: one evaluation per value of the length nibble, "
        "writer: integer intervals of the path conditions) and compared with each other and with the table of "
        "RFC 8323 section 3.2 (13/269/65805, 1/2/4 bytes big endian, nibbles 13/14/15); the frame layout of "
        "_serialize and _decode_message is compared as bit-field / slice normal forms; data_received is checked "
        "to keep the spool as its only framing state, to cut and to advance by the same total, to leave the loop "
        "when a frame is incomplete and to pass the size, parse and CSM gates before anything is dispatched; the "
        "exceptions escaping _decode_message are computed and must be UnparsableMessage only; Abort is written "
        "before the transport is closed; the signalling arms are evaluated over the finite code domain; and the "
        "composition data_received -> _dispatch_incoming is evaluated for every code value 0..255 x CSM seen/not "
        "seen and compared with the reference dispatch table (empty messages have no effect).  Paper step: with "
        "the reader table equal to the writer table and the spool the only state, the sequence of frames cut "
        "from the concatenated stream does not depend on chunk boundaries.  Run-time chunking is not exercised.  "
        "Shape independence: the codec evaluator forks on conditional expressions, folds divmod / power-of-two division, "
        "immutable module-level tables and unrolls `for` over constant sequences; a framing loop that was split into a loop "
        "and step / per-frame function(s) -- wherever the iteration was cut: before the sizing, after the cut, after the decoding -- is put back "
        "together by exact inlining at loop level (return -> rest of the iteration; continue), so that an abort-and-return which only leaves "
        "the per-frame function shows as what it is for the loop (the next frame is processed after Abort); the frame decoded is followed back "
        "to the statement that cut it from the spool, the advance may stand before or after the decoding; "
        "tests on locals that were just assigned a constant are decided at the assignment; locals are replaced by their unique "
        "reaching definition only while the attributes they read are not stored again; constructor keywords and attribute "
        "assignments on a fresh Message are the same fact.  The peer's settings are followed as an object: a must-alias / "
        "nullness data-flow of self._remote_settings per signalling code decides which locals are the settings dictionary at a store, "
        "whether that dictionary is still the one the field holds at the normal exit (stores through an alias, or into a dictionary "
        "that is published afterwards, are stores into the settings), and that the field is not None at the normal exit of a CSM.  "
        "Constructor arguments and attributes are tied together by evaluating Message.__init__ itself (C15.j): for every Message(...) "
        "construction of the stream transport (Pong, Abort, CSM, Release, the decoded frame) the constructor is run by the path evaluator "
        "in object mode on the arguments of that site (opaque symbols, defaults filled in, stores to self tracked as fields, `a or b` forked "
        "on its value) and the code / token argument must be what the attribute read by _serialize and the dispatcher holds on every "
        "feasible completing path, whatever deprecation shim or public / underscore spelling lies between."
    ),
    rule_text=(
        "piecewise tables from a path evaluator over a restricted statement language (intervals via DNF normal forms), "
        "bit-field and polynomial normal forms, reaching definitions on per-function CFGs, dominance / must-pass path rules, "
        "exception-escape sets, finite-domain evaluation of dispatch guards over all 256 code values, symbolic evaluation of the "
        "Message constructor per construction site (argument -> attribute)"
    ),
)

TCP = "transports.tcp."
@R.clause("C15.i", "Release/Abort fail *every* pending request of the connection: the token manager's error fan-out (shared with C02.e)")
def i_shared(ctx):
    from . import c02
    c02.e(ctx)


i = i_shared  # every clause is callable as c15.<letter>(ctx)


F_TCP = "aiocoap/transports/tcp.py"
F_COMMON = "aiocoap/transports/rfc8323common.py"

# RFC 8323 section 3.2: (lo, hi, nibble or None for "inline", offset, extension bytes)
REF_8323 = [
    (0, 12, None, 0, 0),
    (13, 268, 13, 13, 1),
    (269, 65804, 14, 269, 2),
    (65805, 65805 + 2 ** 32 - 1, 15, 65805, 4),
]
REF_BY_NIBBLE = {13: (13, 1), 14: (269, 2), 15: (65805, 4)}
MAX_TKL = 8

# RFC 7252 section 12.1 / RFC 8323 (Appendix A.6)
CODE_CLASSES = {
    "is_request": set(range(1, 32)),
    "is_response": set(range(64, 192)),
    "is_signalling": set(range(224, 256)),
    "is_successful": set(range(64, 96)),
}
SIGNALLING = {"CSM": 225, "PING": 226, "PONG": 227, "RELEASE": 228, "ABORT": 229}


# ---------------------------------------------------------------------------
# expression helpers: substitution, folding, a path evaluator for loop-free
# functions (the checker's own interpretation of a restricted statement language)


from . import _kit_c15 as K
from ._kit_c15 import txt as _txt, subst as _subst, fold as _fold


def _consts_of(prog, fi):
    """resolver of immutable module-level constants of the module of fi (names
    that are parameters or locals of fi are never constants)"""
    local = set(params(fi, skip_self=False))
    for n in walk_no_nested(fi.node):
        if isinstance(n, ast.Name) and isinstance(n.ctx, (ast.Store, ast.Del)):
            local.add(n.id)

    def consts(name):
        if name in local:
            return None
        return K.module_const(prog, fi.module, name)

    return consts


def _enumerate_paths(fnode, hook=None, what="function", max_paths=96, consts=None):
    return K.enumerate_paths(fnode, hook=hook, what=what, max_paths=max_paths, consts=consts)


def _dnf_of_conds(N, conds):
    """DNF (list of conjunct sets) of the conjunction of path conditions."""
    res = [frozenset()]
    for t, pol in conds:
        e = t if pol else ast.UnaryOp(op=ast.Not(), operand=t)
        d = N.dnf(e)
        res = [a | b for a in res for b in d]
    return res


def _interval(conj, var, truth_of=None):
    """Bounds on atom `var` implied by the comparisons in conj that mention
    only `var`; comparisons about anything else are ignored.  `truth_of`:
    atom whose truthiness means var >= 1 (a sequence and its length)."""
    lo, hi = -INF, INF
    for c in conj:
        if c[0] in ("truth", "nottruth") and truth_of is not None and c[1] == truth_of:
            if c[0] == "truth":
                lo = max(lo, 1)
            else:
                hi = min(hi, 0)
            continue
        if c[0] == "ne" and isinstance(c[1], Poly) and c[1].atoms() == {var}:
            # var != k : only usable at a bound; handled for k == 0 with var >= 0
            k = norm.interval_of([("eq", c[1])], var)
            if k is not None and k[0] == 0:
                lo = max(lo, 1)
            continue
        if c[0] in ("lt", "eq") and isinstance(c[1], Poly) and c[1].atoms() == {var}:
            iv = norm.interval_of([c], var)
            if iv is not None:
                lo, hi = max(lo, iv[0]), min(hi, iv[1])
    return lo, hi


# ---------------------------------------------------------------------------
# reaching definitions on the CFG (locals that are assigned more than once)


def _reaching(fi, cfg, name, nid):
    """Write statements of local `name` that can reach CFG node nid without an
    intervening write ('entry' when the entry reaches it unwritten)."""
    writes = [(w, wn) for w in writes_to_name(fi.node, name) for wn in cfg.locate(w)]
    wnodes = {wn for _, wn in writes}
    out = []
    for w, wn in writes:
        if nid in cfg.reach({wn}, avoid=(wnodes - {wn}) - {nid}):
            out.append((w, wn))
    if nid in cfg.reach({cfg.entry}, avoid=wnodes - {nid}, include_src=True):
        out.append(("entry", cfg.entry))
    return out


def _stale(fi, cfg, w, wn, nid):
    """The value written by statement w (at node wn) reads an attribute chain
    `self.X...` that may be stored again before the use at nid: the local is then
    a snapshot, not an alias, and must not be replaced by its definition."""
    val = getattr(w, "value", None)
    if val is None:
        return False
    chains = {chain(x) for x in ast.walk(val) if isinstance(x, ast.Attribute) and chain(x)}
    for c in chains:
        if "." not in c:
            continue
        for _k, st in stores_to(fi.node, c, nested=False):
            for sn in cfg.locate(st):
                if sn == wn:
                    continue
                if sn == nid:
                    if nid in cfg.reach({nid}, avoid={wn}):
                        return True
                    continue
                if sn in cfg.reach({wn}, avoid={nid}) and nid in cfg.reach({sn}, avoid={wn}):
                    return True
    return False


def _resolve_at(fi, cfg, e, nid, depth=6):
    """Replace locals by their unique reaching definition (recursively)."""
    if depth == 0:
        return e

    class T(ast.NodeTransformer):
        def visit_Lambda(self, n):
            return n

        def visit_Name(self, n):
            if not isinstance(n.ctx, ast.Load):
                return n
            defs = _reaching(fi, cfg, n.id, nid)
            if len(defs) != 1 or defs[0][0] == "entry":
                return n
            w, wn = defs[0]
            if _stale(fi, cfg, w, wn, nid):
                return n
            if isinstance(w, ast.Assign) and len(w.targets) == 1:
                t = w.targets[0]
                if isinstance(t, ast.Name):
                    return _resolve_at(fi, cfg, copy.deepcopy(w.value), wn, depth - 1)
                if isinstance(t, (ast.Tuple, ast.List)):
                    idx = [i for i, x in enumerate(t.elts) if isinstance(x, ast.Name) and x.id == n.id]
                    if len(idx) == 1:
                        v = w.value
                        if isinstance(v, (ast.Tuple, ast.List)) and len(v.elts) == len(t.elts):
                            return _resolve_at(fi, cfg, copy.deepcopy(v.elts[idx[0]]), wn, depth - 1)
                        return ast.Subscript(value=_resolve_at(fi, cfg, copy.deepcopy(v), wn, depth - 1), slice=ast.Constant(value=idx[0]), ctx=ast.Load())
            if isinstance(w, ast.AnnAssign) and w.value is not None and isinstance(w.target, ast.Name):
                return _resolve_at(fi, cfg, copy.deepcopy(w.value), wn, depth - 1)
            return n

    return T().visit(copy.deepcopy(e))


def _possible_values(fi, cfg, e, nid, depth=4):
    """The expressions whose value e may have at nid: every reaching definition
    of a multiply-assigned local, both arms of a conditional expression.  None
    when some possibility is unknown (the name may reach nid unassigned, or is
    bound by something that is not a plain assignment)."""
    if depth == 0:
        return None
    if isinstance(e, ast.IfExp):
        a = _possible_values(fi, cfg, e.body, nid, depth - 1)
        b = _possible_values(fi, cfg, e.orelse, nid, depth - 1)
        return None if a is None or b is None else a + b
    if isinstance(e, ast.Name):
        defs = _reaching(fi, cfg, e.id, nid)
        if not defs:
            return [e]
        out = []
        for w, wn in defs:
            if w == "entry" or not (isinstance(w, (ast.Assign, ast.AnnAssign)) and getattr(w, "value", None) is not None):
                return None
            tgts = w.targets if isinstance(w, ast.Assign) else [w.target]
            if not (len(tgts) == 1 and isinstance(tgts[0], ast.Name)):
                return None
            if _stale(fi, cfg, w, wn, nid):
                return None
            r = _possible_values(fi, cfg, w.value, wn, depth - 1)
            if r is None:
                return None
            out += r
        return out
    return [_resolve_at(fi, cfg, e, nid)]


def _def_stmt(fi, cfg, name_node, nid):
    """The unique reaching write statement of a Name at nid, or None."""
    if not isinstance(name_node, ast.Name):
        return None
    defs = _reaching(fi, cfg, name_node.id, nid)
    if len(defs) == 1 and defs[0][0] != "entry":
        return defs[0][0]
    return None


def _other_side(cfg, pseudo):
    """The sibling pseudo node (opposite outcome) of a T/F node."""
    tests = [p for p, _ in cfg.pred[pseudo]]
    out = []
    for t in tests:
        for s, lab in cfg.succ[t]:
            if s != pseudo and cfg.nodes[s].kind in ("T", "F"):
                out.append(s)
    return out


def _test_node_of(cfg, pseudo):
    return [p for p, _ in cfg.pred[pseudo]][0]


def _callee_is(prog, fi, call, qn):
    c = chain(call.func)
    return c is not None and prog.resolve_in_module(fi.module, c) == qn


# ---------------------------------------------------------------------------
# C15.a  length tables


def _bytes_order(call, pos):
    """byteorder argument of int.from_bytes / int.to_bytes ('big' is the default since 3.11)."""
    v = None
    if len(call.args) > pos:
        v = call.args[pos]
    for k in call.keywords:
        if k.arg == "byteorder":
            v = k.value
    if v is None:
        return "big"
    return v.value if isinstance(v, ast.Constant) else None


def _writer_table(ctx, fi):
    """[(lo, hi, nibble|None, offset, width, order, path)] of _encode_length,
    plus (index of the nibble, index of the extension) in the returned pair."""
    p = params(fi)
    ctx.need(len(p) == 1, "_encode_length takes one length parameter")
    var = p[0]
    ctx.need(not writes_to_name(fi.node, var), "_encode_length rebinds its parameter")
    N = Normalizer()
    rows = []
    positions = set()
    for path in _enumerate_paths(fi.node, what="_encode_length", consts=_consts_of(ctx.prog, fi)):
        out = None
        # paths whose conditions no length >= 0 satisfies do not exist
        ivs = []
        for conj in _dnf_of_conds(N, path.conds):
            iv = norm.interval_of(conj, var)
            ctx.need(iv is not None, "_encode_length: a branch condition is not a comparison of the length with constants: %s" % "; ".join(_txt(t) for t, _ in path.conds))
            if max(iv[0], 0) <= iv[1]:
                ivs.append((max(iv[0], 0), iv[1]))
        if not ivs:
            continue
        if path.kind == "return" and (path.value is None or (isinstance(path.value, ast.Constant) and path.value.value is None)):
            # falls off the end / returns None for these lengths: no encoding (reported by C15.a)
            for lo, hi in ivs:
                rows.append((lo, hi, None, path))
            continue
        if path.kind == "return":
            v = path.value
            ctx.need(isinstance(v, ast.Tuple) and len(v.elts) == 2, "_encode_length returns something other than a (nibble, extension) pair: %s" % (_txt(v) if v is not None else None))
            ext_i = [i for i, x in enumerate(v.elts) if (isinstance(x, ast.Constant) and isinstance(x.value, bytes)) or (isinstance(x, ast.Call) and isinstance(x.func, ast.Attribute) and x.func.attr == "to_bytes")
                     or _single_byte(x) is not None]
            ctx.need(len(ext_i) == 1, "cannot tell the extension bytes from the nibble in %s" % _txt(v))
            ei = ext_i[0]
            positions.add((1 - ei, ei))
            nib, ext = v.elts[1 - ei], v.elts[ei]
            if isinstance(nib, ast.Constant) and isinstance(nib.value, int):
                nibble = nib.value
            else:
                ctx.need(N.poly(nib) == Poly.atom(var), "nibble expression %s is neither a constant nor the length itself" % _txt(nib))
                nibble = None
            if isinstance(ext, ast.Constant):
                ctx.need(ext.value == b"", "constant non-empty extension %r" % (ext.value,))
                width, off, order = 0, 0, "big"
            else:
                if isinstance(ext.func, ast.Attribute) and ext.func.attr == "to_bytes":
                    ctx.need(len(ext.args) >= 1 or any(k.arg == "length" for k in ext.keywords), "to_bytes without a length")
                    wnode = ext.args[0] if ext.args else [k.value for k in ext.keywords if k.arg == "length"][0]
                    try:
                        width = norm.consteval(wnode)
                    except NormError:
                        width = None
                    ctx.need(isinstance(width, int), "extension width %s is not constant" % _txt(wnode))
                    order = _bytes_order(ext, 1)
                    extval = ext.func.value
                else:
                    # bytes((x,)): one byte, trivially big endian
                    width, order, extval = 1, "big", _single_byte(ext)
                pv = N.poly(extval)
                coef = pv.t.get(((var, 1),), 0)
                rest = set(pv.t) - {((var, 1),), ()}
                ctx.need(coef == 1 and not rest, "extension value %s is not (length - constant)" % _txt(extval))
                off = -pv.t.get((), 0)
                ctx.need(off.denominator == 1, "non-integer offset")
                off = int(off)
            out = (nibble, off, width, order)
        for lo, hi in ivs:
            rows.append((lo, hi, out, path))
    ctx.need(len(positions) == 1, "_encode_length returns the nibble at varying positions")
    rows.sort(key=lambda r: r[0])
    return rows, positions.pop()


def _reader_table(ctx, fi):
    """Evaluate _extract_message_size once per value of the length nibble.
    -> {n: dict(tokenoffset, tkl_expr, const, width, order, start, need, path)}, positions"""
    p = params(fi)
    ctx.need(len(p) == 1, "_extract_message_size takes one parameter")
    P = p[0]
    ctx.need(not writes_to_name(fi.node, P), "_extract_message_size rebinds its parameter")
    b0 = "%s[0]" % P
    N = Normalizer()
    lenatom = "len(%s)" % P
    table = {}
    used_hook = [False]

    def tkl_field(e):
        try:
            f = norm.bitfields(e)
        except NormError:
            return False
        return len(f) == 1 and f[0] == (b0, 0, 4, 0)

    def low_field(e):
        try:
            f = norm.bitfields(e)
        except NormError:
            return False
        return len(f) == 1 and f[0][0] == b0 and f[0][1] == 0 and f[0][3] == 0 and f[0][2] is not None

    raw = {}
    for n in range(16):
        def hook(e, n=n):
            if not isinstance(e, ast.BinOp):
                return None
            try:
                f = norm.bitfields(e)
            except NormError:
                return None
            if len(f) == 1 and f[0][0] == b0 and f[0][1] == 4 and f[0][2] in (None, 4) and f[0][3] == 0:
                used_hook[0] = True
                return ast.Constant(value=n)
            return None

        paths = _enumerate_paths(fi.node, hook=hook, what="_extract_message_size", consts=_consts_of(ctx.prog, fi))
        tuples = [x for x in paths if x.kind == "return" and x.value is not None and not (isinstance(x.value, ast.Constant) and x.value.value is None)]
        nones = [x for x in paths if x.kind == "return" and (x.value is None or (isinstance(x.value, ast.Constant) and x.value.value is None))]
        ctx.need(len(tuples) == 1 and len(tuples) + len(nones) == len(paths), "_extract_message_size: for length nibble %d there is not exactly one path returning a size (paths: %d)" % (n, len(paths)))
        t = tuples[0]
        ctx.need(isinstance(t.value, ast.Tuple) and len(t.value.elts) == 3, "_extract_message_size does not return a triple")
        raw[n] = (t, nones)
    ctx.need(used_hook[0], "_extract_message_size never reads the length nibble as bits 7..4 of byte 0")
    # positions: decided where the three are distinguishable (nibbles 13..15)
    pos = set()
    for n in (13, 14, 15):
        elts = raw[n][0].value.elts
        tk = [i for i, x in enumerate(elts) if low_field(x)]
        co = [i for i, x in enumerate(elts) if isinstance(x, ast.Constant) and isinstance(x.value, int)]
        if len(tk) == 1 and len(co) == 1:
            pos.add((co[0], tk[0], 3 - co[0] - tk[0]))
    ctx.need(len(pos) == 1, "_extract_message_size: cannot identify (header size, token length, body length) in the returned triple")
    pos = pos.pop()
    for n in range(16):
        t, nones = raw[n]
        elts = t.value.elts
        to, tk, ln = elts[pos[0]], elts[pos[1]], elts[pos[2]]
        ent = {"path": t, "tkl_ok": tkl_field(tk), "tokenoffset": to.value if isinstance(to, ast.Constant) else None}
        # body length = const + int.from_bytes(P[a:b], order)
        calls = [c for c in ast.walk(ln) if isinstance(c, ast.Call) and chain(c.func) == "int.from_bytes"]
        idx = [x for x in ast.walk(ln) if isinstance(x, ast.Subscript) and chain(x.value) == P and not isinstance(x.slice, ast.Slice)]
        if not calls and len(idx) == 1:
            # one extension byte read by plain indexing: P[k] + constant
            pv = N.poly(ln)
            atom = N.atom_name(idx[0])
            try:
                k = norm.consteval(idx[0].slice)
            except NormError:
                k = None
            ctx.need(set(pv.t) <= {((atom, 1),), ()} and pv.t.get(((atom, 1),)) == 1 and isinstance(k, int), "body length %s is not input[k] + constant" % _txt(ln))
            ent.update(const=int(pv.t.get((), 0)), width=1, order="big", start=k)
        elif not calls:
            try:
                ent.update(const=norm.consteval(ln), width=0, order="big", start=None)
            except NormError:
                ctx.need(False, "body length %s for nibble %d is neither constant nor int.from_bytes(...)+constant" % (_txt(ln), n))
        else:
            ctx.need(len(calls) == 1, "several int.from_bytes in the body length")
            c = calls[0]
            pv = N.poly(ln)
            atom = N.atom_name(c)
            ctx.need(set(pv.t) <= {((atom, 1),), ()} and pv.t.get(((atom, 1),)) == 1, "body length %s is not int.from_bytes(...)+constant" % _txt(ln))
            sl = c.args[0] if c.args else None
            ctx.need(isinstance(sl, ast.Subscript) and chain(sl.value) == P and isinstance(sl.slice, ast.Slice) and sl.slice.step is None, "extended length is not read from a slice of the input")
            try:
                a = norm.consteval(sl.slice.lower) if sl.slice.lower is not None else 0
                b = norm.consteval(sl.slice.upper) if sl.slice.upper is not None else None
            except NormError:
                a = b = None
            ctx.need(isinstance(a, int) and isinstance(b, int), "extended length slice bounds are not constant for nibble %d: %s" % (n, _txt(sl)))
            ent.update(const=int(pv.t.get((), 0)), width=b - a, order=_bytes_order(c, 1), start=a)
        # bytes that must be present on the size-returning path
        need = INF
        for conj in _dnf_of_conds(N, t.conds):
            lo, _hi = _interval(conj, lenatom, truth_of=P)
            need = min(need, lo)
        ent["have"] = need
        table[n] = ent
    return table, pos


def _tables(ctx):
    cache = getattr(ctx, "_c15_tables", None)
    if cache is None:
        wfi = ctx.prog.func(TCP + "_encode_length")
        rfi = ctx.prog.func(TCP + "_extract_message_size")
        w, wpos = _writer_table(ctx, wfi)
        r, rpos = _reader_table(ctx, rfi)
        cache = ctx._c15_tables = (wfi, rfi, w, wpos, r, rpos)
    return cache


@R.clause("C15.a", "length tables of _encode_length and _extract_message_size agree with each other and with RFC 8323 section 3.2")
def a(ctx):
    wfi, rfi, wrows, wpos, rtab, rpos = _tables(ctx)
    # writer against the RFC table, on elementary segments
    cuts = sorted({r[0] for r in REF_8323} | {r[1] + 1 for r in REF_8323} | {r[0] for r in wrows if r[0] != -INF} | {r[1] + 1 for r in wrows if r[1] != INF})
    for lo, hi, nib, off, width in REF_8323:
        bad = None
        for s, e in zip(cuts, cuts[1:] + [INF]):
            s2, e2 = max(s, lo), min(e - 1, hi)
            if s2 > e2:
                continue
            cover = [r for r in wrows if r[0] <= s2 and e2 <= r[1]]
            if len(cover) != 1 or cover[0][2] is None:
                bad = (s2, e2, cover[0] if cover else None, "no encoding" if not cover or cover[0][2] is None else "ambiguous")
                break
            got = cover[0][2]
            if got != (nib, off if nib is not None else 0, width, "big"):
                bad = (s2, e2, cover[0], "nibble %s, offset %s, %s byte(s) %s endian" % (got[0] if got[0] is not None else "inline", got[1], got[2], got[3]))
                break
        want = "inline in the nibble" if nib is None else "nibble %d + %d byte(s) big endian of (length - %d)" % (nib, width, off)
        node = bad[2][3].node if bad and bad[2] is not None else wfi.node
        ctx.ob("writer: lengths %d..%d are encoded %s" % (lo, hi, want), bad is None, wfi, node,
               detail=None if bad is None else "lengths %s..%s: %s" % (bad[0], bad[1], bad[3]),
               construct=None if (bad and bad[2] is not None) else "_encode_length")
    ctx.note("writer table: %s" % [(r[0], r[1], r[2]) for r in wrows])
    # reader against the RFC table
    inline_bad = [n for n in range(13) if not (rtab[n]["width"] == 0 and rtab[n]["const"] == n and rtab[n]["tokenoffset"] == 2)]
    ctx.ob("reader: nibbles 0..12 are the body length itself, header is 2 bytes", not inline_bad, rfi, rtab[inline_bad[0]]["path"].node if inline_bad else rfi.node,
           detail="nibble(s) %s" % inline_bad if inline_bad else None, construct=None if inline_bad else "_extract_message_size")
    for n in (13, 14, 15):
        off, width = REF_BY_NIBBLE[n]
        e = rtab[n]
        node = e["path"].node
        ctx.ob("reader: nibble %d reads %d extension byte(s)" % (n, width), e["width"] == width, rfi, node, detail="width %s" % e["width"], construct="nibble %d: %s" % (n, _txt(e["path"].value)))
        ctx.ob("reader: nibble %d adds %d" % (n, off), e["const"] == off, rfi, node, detail="offset %s" % e["const"], construct="nibble %d: %s" % (n, _txt(e["path"].value)))
        ctx.ob("reader: nibble %d extension is big endian and starts at byte 1" % n, e["order"] == "big" and e["start"] == 1, rfi, node, detail="order %s, start %s" % (e["order"], e["start"]), construct="nibble %d: %s" % (n, _txt(e["path"].value)))
        ctx.ob("reader: nibble %d header size is 2 + extension bytes" % n, e["tokenoffset"] == 2 + width, rfi, node, detail="header size %s" % e["tokenoffset"], construct="nibble %d: %s" % (n, _txt(e["path"].value)))
    for n in range(16):
        e = rtab[n]
        if n in (0, 13, 14, 15):
            ctx.ob("reader: a size is returned for nibble %d only when byte 0 and all extension bytes are present" % n, e["have"] >= 1 + e["width"], rfi, e["path"].node,
                   detail="bytes known present: %s, needed: %s" % (e["have"], 1 + e["width"]), construct="nibble %d: %s" % (n, _txt(e["path"].value)))
    ctx.ob("reader: token length is bits 3..0 of byte 0 for every nibble", all(rtab[n]["tkl_ok"] for n in range(16)), rfi, rfi.node, construct="_extract_message_size")
    # writer against reader
    for lo, hi, out, path in wrows:
        if out is None:
            continue
        nib, off, width, order = out
        if nib is None:
            ok = all(0 <= n <= 15 and rtab[n]["width"] == 0 and rtab[n]["const"] == n for n in range(int(lo), int(min(hi, 15)) + 1)) and hi <= 15
            ctx.ob("writer/reader: inline lengths are read back unchanged", ok, wfi, path.node)
        else:
            e = rtab.get(nib)
            ok = e is not None and (e["width"], e["const"], e["order"]) == (width, off, order)
            ctx.ob("writer/reader: nibble %s is written and read with the same width, offset and byte order" % nib, ok, wfi, path.node,
                   detail=None if ok else "writer (%s, %s, %s) reader %s" % (width, off, order, (e["width"], e["const"], e["order"]) if e else None))


# ---------------------------------------------------------------------------
# C15.b  frame layout


def _flatten_concat(e):
    """Parts of a bytes concatenation: b"".join(<list/tuple display>) (nested),
    `+`, bytes(<concatenation>) -- with empty bytes constants dropped (the
    neutral element; `x + b""` is `x`)."""
    if isinstance(e, ast.Call) and isinstance(e.func, ast.Attribute) and e.func.attr == "join" and isinstance(e.func.value, ast.Constant) and isinstance(e.func.value.value, bytes) and e.func.value.value == b"" \
            and len(e.args) == 1 and not e.keywords and isinstance(e.args[0], (ast.List, ast.Tuple)) and not any(isinstance(x, ast.Starred) for x in e.args[0].elts):
        out = []
        for x in e.args[0].elts:
            out.extend(_flatten_concat(x))
        return out
    if isinstance(e, ast.BinOp) and isinstance(e.op, ast.Add):
        return _flatten_concat(e.left) + _flatten_concat(e.right)
    if isinstance(e, ast.Constant) and e.value == b"" and isinstance(e.value, bytes):
        return []
    return [e]


def _single_byte(e):
    """x for the one-byte strings bytes((x,)) / bytes([x]) / x.to_bytes(1, <any order>), else None."""
    if isinstance(e, ast.Call) and chain(e.func) == "bytes" and len(e.args) == 1 and not e.keywords and isinstance(e.args[0], (ast.Tuple, ast.List)) and len(e.args[0].elts) == 1 \
            and not isinstance(e.args[0].elts[0], ast.Starred):
        return e.args[0].elts[0]
    if isinstance(e, ast.Call) and isinstance(e.func, ast.Attribute) and e.func.attr == "to_bytes":
        w = e.args[0] if e.args else next((k.value for k in e.keywords if k.arg == "length"), None)
        try:
            if w is not None and norm.consteval(w) == 1 and not any(k.arg == "signed" for k in e.keywords):
                return e.func.value
        except NormError:
            return None
    return None


def _sub(value, i):
    return ast.Subscript(value=value, slice=ast.Constant(value=i), ctx=ast.Load())


@R.clause("C15.b", "frame layout: (len<<4)|tkl, extension, code, token, options [0xFF payload]; reader slices agree; token length above 8 refused on both sides")
def b(ctx):
    prog = ctx.prog
    wfi, rfi, wrows, wpos, rtab, rpos = _tables(ctx)
    # ---- writer
    sfi = prog.func(TCP + "_serialize")
    sp = params(sfi)
    ctx.need(len(sp) == 1 and not writes_to_name(sfi.node, sp[0]), "_serialize(msg) signature changed")
    M = sp[0]
    N = Normalizer()
    paths = _enumerate_paths(sfi.node, what="_serialize", consts=_consts_of(prog, sfi))
    rets = [p for p in paths if p.kind == "return"]
    raises = [p for p in paths if p.kind == "raise"]
    ctx.floor("returning paths of _serialize", len(rets), 1)
    tklatom = "len(%s.token)" % M
    seen_states = set()
    for p in rets:
        ctx.need(p.value is not None, "_serialize falls off its end")
        parts = _flatten_concat(p.value)
        node = p.node
        ctx.need(len(parts) >= 5, "_serialize result is not a concatenation of at least five parts: %s" % _txt(p.value))
        first, ext, code, token, body = parts[0], parts[1], parts[2], parts[3], parts[4:]
        # payload state of the path
        lo, hi = INF, -INF
        for conj in _dnf_of_conds(N, p.conds):
            l, h = _interval(conj, "len(%s.payload)" % M, truth_of="%s.payload" % M)
            lo, hi = min(lo, l), max(hi, h)
        state = "nonempty" if lo >= 1 else "empty" if hi <= 0 else "unknown"
        seen_states.add(state)
        opt_ok = len(body) >= 1 and match("%s.opt.encode()" % M, body[0]) is not None
        ctx.ob("writer: the body starts with the encoded options of the message", opt_ok, sfi, node)
        tail = body[1:]
        marker = len(tail) == 2 and isinstance(tail[0], ast.Constant) and tail[0].value == b"\xff" and chain(tail[1]) == M + ".payload"
        if state == "nonempty":
            ctx.ob("writer: a non-empty payload is preceded by the 0xFF marker", marker, sfi, node, detail="body tail: %s" % [_txt(x) for x in tail])
        elif state == "empty":
            ctx.ob("writer: no payload marker without payload", not tail, sfi, node, detail="body tail: %s" % [_txt(x) for x in tail])
        else:
            ctx.ob("writer: the payload marker is written iff the payload is non-empty", False, sfi, node, detail="the path does not test the payload; body tail: %s" % [_txt(x) for x in tail])
        # extension part: _encode_length(len(<body>))[ext index]
        enc = ext.value if isinstance(ext, ast.Subscript) and isinstance(ext.value, ast.Call) and _callee_is(prog, sfi, ext.value, "aiocoap.transports.tcp._encode_length") else None
        ext_ok = enc is not None and isinstance(ext.slice, ast.Constant) and ext.slice.value == wpos[1]
        ctx.ob("writer: byte 1.. is the extension returned by _encode_length", ext_ok, sfi, node, detail="second part: %s" % _txt(ext))
        if enc is not None:
            arg_ok = len(enc.args) == 1 and isinstance(enc.args[0], ast.Call) and chain(enc.args[0].func) == "len" and len(enc.args[0].args) == 1 and \
                [dump(x) for x in _flatten_concat(enc.args[0].args[0])] == [dump(x) for x in body]
            ctx.ob("writer: the encoded length is the length of options + marker + payload as written", arg_ok, sfi, node, detail="argument: %s" % _txt(enc.args[0]) if enc.args else None)
            fb = _single_byte(first)
            fields = None
            if fb is not None:
                try:
                    fields = sorted(norm.bitfields(fb), key=lambda f: -f[3])
                except NormError:
                    fields = None
            want_hi = _txt(_sub(enc, wpos[0]))
            ok = fields is not None and len(fields) == 2 and fields[0][0] == want_hi and fields[0][1] == 0 and fields[0][3] == 4 and fields[0][2] in (None, 4) \
                and fields[1][0] == tklatom and fields[1][1] == 0 and fields[1][3] == 0 and fields[1][2] in (None, 4)
            ctx.ob("writer: byte 0 is (length nibble << 4) | token length", ok, sfi, node, detail="first part %s, fields %s" % (_txt(first), fields))
        cb = _single_byte(code)
        ctx.ob("writer: the code byte follows the extension", cb is not None and chain(cb) == M + ".code", sfi, node, detail="third part: %s" % _txt(code))
        ctx.ob("writer: the token follows the code", chain(token) == M + ".token", sfi, node, detail="fourth part: %s" % _txt(token))
        his = [_interval(conj, tklatom)[1] for conj in _dnf_of_conds(N, p.conds)]
        ctx.ob("writer: nothing is serialised with a token longer than 8 bytes", all(h <= MAX_TKL for h in his), sfi, node, detail="token length bound on this path: %s" % his)
    ctx.ob("writer: both the payload and the no-payload layout exist", {"nonempty", "empty"} <= seen_states or "unknown" in seen_states, sfi, sfi.node, construct="_serialize")
    los = [_interval(conj, tklatom)[0] for p in raises for conj in _dnf_of_conds(N, p.conds)]
    ctx.ob("writer: token lengths from 9 up are refused", bool(los) and min(los) == MAX_TKL + 1, sfi, raises[0].node if raises else sfi.node, detail="refused from %s" % (min(los) if los else None),
           construct=None if raises else "_serialize")

    # ---- reader
    dfi = prog.func(TCP + "_decode_message")
    dp = params(dfi)
    ctx.need(len(dp) == 1 and not writes_to_name(dfi.node, dp[0]), "_decode_message(data) signature changed")
    P = dp[0]
    extcall = ast.parse("_extract_message_size(%s)" % P, mode="eval").body
    TO = Poly.atom(_txt(_sub(extcall, rpos[0])))
    TKname = _txt(_sub(extcall, rpos[1]))
    TK = Poly.atom(TKname)
    paths = _enumerate_paths(dfi.node, what="_decode_message", consts=_consts_of(prog, dfi))
    for p in paths:
        for x in ast.walk(ast.Module(body=[ast.Expr(value=v) for v in ([p.value] if p.value is not None else []) + [t for t, _ in p.conds]], type_ignores=[])):
            if isinstance(x, ast.Call) and chain(x.func) and chain(x.func).endswith("_extract_message_size"):
                ctx.need(dump(x) == dump(extcall) and _callee_is(prog, dfi, x, "aiocoap.transports.tcp._extract_message_size"), "_decode_message sizes something other than its input: %s" % _txt(x))
    rets = [p for p in paths if p.kind == "return"]
    raises = [p for p in paths if p.kind == "raise"]
    ctx.floor("returning paths of _decode_message", len(rets), 1)

    def poly(e):
        try:
            return N.poly(e)
        except NormError:
            return None

    for p in rets:
        node = p.node
        v = p.value
        is_msg = isinstance(v, ast.Call) and chain(v.func) is not None and prog.resolve_in_module(dfi.module, chain(v.func)) == "aiocoap.message.Message"
        ctx.need(is_msg, "_decode_message does not return a freshly constructed Message: %s" % (_txt(v) if v is not None else None))
        kw = {k.arg: k.value for k in v.keywords}
        # a constructor keyword and an attribute assignment on the fresh message
        # before it is returned are the same fact (the last one wins)
        for tgt, val in p.stores:
            if isinstance(tgt, ast.Attribute) and tgt.attr in ("code", "token", "_token") and dump(tgt.value) == dump(v):
                kw[tgt.attr] = val
        c = kw.get("code")
        ok = isinstance(c, ast.Subscript) and chain(c.value) == P and not isinstance(c.slice, ast.Slice) and poly(c.slice) == TO - Poly.const(1)
        ctx.ob("reader: the code is the byte before the token offset", ok, dfi, node, detail="code = %s" % (_txt(c) if c is not None else None))
        t = kw.get("_token", kw.get("token"))
        ok = isinstance(t, ast.Subscript) and chain(t.value) == P and isinstance(t.slice, ast.Slice) and t.slice.step is None and t.slice.lower is not None and t.slice.upper is not None \
            and poly(t.slice.lower) == TO and poly(t.slice.upper) == TO + TK
        ctx.ob("reader: the token is [tokenoffset : tokenoffset + tkl]", ok, dfi, node, detail="token = %s" % (_txt(t) if t is not None else None))
        st_ok = False
        seen = None
        for tgt, val in p.stores:
            if isinstance(tgt, ast.Attribute) and tgt.attr == "payload" and dump(tgt.value) == dump(v):
                seen = val
                if isinstance(val, ast.Call) and isinstance(val.func, ast.Attribute) and val.func.attr == "decode" and isinstance(val.func.value, ast.Attribute) and val.func.value.attr == "opt" and dump(val.func.value.value) == dump(v) and len(val.args) == 1:
                    a0 = val.args[0]
                    st_ok = isinstance(a0, ast.Subscript) and chain(a0.value) == P and isinstance(a0.slice, ast.Slice) and a0.slice.upper is None and a0.slice.step is None and a0.slice.lower is not None and poly(a0.slice.lower) == TO + TK
        ctx.ob("reader: options and payload are parsed from everything after the token", st_ok, dfi, node, detail="payload = %s" % (_txt(seen) if seen is not None else None))
        his = [_interval(conj, TKname)[1] for conj in _dnf_of_conds(N, p.conds)]
        ctx.ob("reader: no message is produced for a token length above 8", all(h <= MAX_TKL for h in his), dfi, node, detail="token length bound on this path: %s" % his)
    los = []
    cls_ok = True
    for p in raises:
        for conj in _dnf_of_conds(N, p.conds):
            los.append(_interval(conj, TKname)[0])
        e = p.value.func if isinstance(p.value, ast.Call) else p.value
        q = prog.resolve_in_module(dfi.module, chain(e) or "?") if e is not None else None
        cls_ok = cls_ok and q == "aiocoap.error.UnparsableMessage"
    ctx.ob("reader: token lengths from 9 up are refused with UnparsableMessage", bool(los) and min(los) == MAX_TKL + 1 and cls_ok, dfi, raises[0].node if raises else dfi.node,
           detail="refused from %s" % (min(los) if los else None), construct=None if raises else "_decode_message")


# ---------------------------------------------------------------------------
# data_received: the framing loop


class _Loop:
    pass


def _frame_loop(ctx):
    L = getattr(ctx, "_c15_loop", None)
    if L is not None:
        return L
    prog = ctx.prog
    L = _Loop()
    fi0 = prog.func(TCP + "TcpConnection.data_received")

    def calls_to(f, qn):
        return [c for c in calls_in(f.node) if _callee_is(prog, f, c, qn)]

    def has_sizing(f):
        return bool(calls_to(f, "aiocoap.transports.tcp._extract_message_size"))

    def has_decoding(f):
        return bool(calls_to(f, "aiocoap.transports.tcp._decode_message"))

    def has_dispatch(f):
        return any(isinstance(c.func, ast.Attribute) and c.func.attr == "_dispatch_incoming" for c in calls_in(f.node))

    def has_signalling(f):
        return any(True for _ in find("self._process_signaling($*a)", f.node))

    # the framing loop may have been split into a loop and step function(s), at any
    # point of the iteration: `while self._step(): pass` (sizing, gates, decoding and
    # dispatch in the step), or the loop keeps the framing and hands each frame to a
    # per-frame function (decoding, signalling, CSM gate and dispatch there).  The
    # rules look at the loop put back together -- for every anchor of the iteration,
    # so that what a `return` of such a function means for the *loop* (rest of the
    # iteration, then the next frame) is what the gates of C15.c/d are decided on.
    # The sizing must exist; a decode / dispatch / signalling site that exists
    # nowhere is left to the clauses (floors, C15.h).
    fi, fused = fi0, []
    for anchor, required in ((has_sizing, True), (has_decoding, False), (has_dispatch, False), (has_signalling, False)):
        fi, log = K.fuse(prog, fi, anchor, required=required)
        fused += log
    if fused:
        ctx.note("data_received: step function(s) %s expanded into the framing loop" % ", ".join(fused))
    # tests on a local that was just assigned a constant (loop flags left behind by
    # helper expansion) are moved to the assignment and decided there
    fi, thr = K.threaded(fi)
    if thr:
        ctx.note("data_received: tests on constant-assigned locals threaded")
    L.fi = fi
    p = params(fi)
    ctx.need(len(p) == 1 and not writes_to_name(fi.node, p[0]), "data_received(self, data) signature changed")
    L.D = p[0]
    ctx.need(is_plain_sync(fi), "data_received is not a plain synchronous function")
    cfg = L.cfg = cfg_of(fi)
    ext = [c for c in calls_in(fi.node) if _callee_is(prog, fi, c, "aiocoap.transports.tcp._extract_message_size")]
    ctx.need(len(ext) == 1, "data_received sizes the spool at %d sites (expected exactly one)" % len(ext))
    L.ext = ext[0]
    L.E = cfg.loc1(L.ext)
    ctx.need(len(L.ext.args) == 1 and not L.ext.keywords and chain(_resolve_at(fi, cfg, L.ext.args[0], L.E)) == "self._spool", "_extract_message_size is not applied to self._spool")
    ctx.need(L.E in cfg.reach({L.E}), "the sizing of the spool is not inside a loop")
    dec = [c for c in calls_in(fi.node) if _callee_is(prog, fi, c, "aiocoap.transports.tcp._decode_message")]
    ctx.need(len(dec) == 1 and len(dec[0].args) == 1, "data_received decodes frames at %d sites (expected exactly one)" % len(dec))
    L.dec = dec[0]
    L.DEC = cfg.loc1(L.dec)
    L.aborts = [c for c, _ in find("self.abort($*a, $**k)", fi.node)]
    L.abort_nodes = {cfg.loc1(c) for c in L.aborts}
    L.dispatch = [c for c in calls_in(fi.node) if isinstance(c.func, ast.Attribute) and c.func.attr == "_dispatch_incoming"]
    L.signalling = [c for c, _ in find("self._process_signaling($*a)", fi.node)]
    L.dispatch_nodes = {cfg.loc1(c) for c in L.dispatch}
    L.signalling_nodes = {cfg.loc1(c) for c in L.signalling}
    L.effects = L.dispatch_nodes | L.signalling_nodes
    extdump = dump(_resolve_at(fi, cfg, L.ext, L.E))
    N = L.N = Normalizer()
    want_total = Poly.atom("EXT__[0]") + Poly.atom("EXT__[1]") + Poly.atom("EXT__[2]")

    def canon(e):
        class A(ast.NodeTransformer):
            def visit_Call(self, n):
                if dump(n) == extdump:
                    return ast.Name(id="EXT__", ctx=ast.Load())
                return self.generic_visit(n)

        e = A().visit(copy.deepcopy(e))

        class B(ast.NodeTransformer):
            def visit(self, n):
                if isinstance(n, ast.Call) and chain(n.func) == "sum" and len(n.args) == 1 and not n.keywords and chain(n.args[0]) == "EXT__":
                    return ast.Name(id="TOTAL__", ctx=ast.Load())
                if isinstance(n, ast.BinOp):
                    try:
                        if N.poly(n) == want_total:
                            return ast.Name(id="TOTAL__", ctx=ast.Load())
                    except NormError:
                        pass
                return super().visit(n)

        return B().visit(e)

    L.canon = canon

    def at(e, nid):
        return canon(_resolve_at(fi, cfg, e, nid))

    L.at = at

    def guard_facts(nid):
        """[(normal form, pseudo node, source test)] of the branch outcomes dominating nid,
        with locals resolved at the test."""
        out = []
        for e, pol, pseudo in cfg.guards(nid):
            if not isinstance(e, ast.expr):
                continue
            tn = _test_node_of(cfg, pseudo)
            r = at(e, tn)
            try:
                c = N.cmp(r)
            except NormError:
                continue
            out.append((c if pol else N.negate(c), pseudo, e))
        return out

    L.guard_facts = guard_facts
    ctx._c15_loop = L
    return L


def _is_decoded(L, e, nid, depth=4):
    """e, used at CFG node nid, denotes the message returned by the (one)
    _decode_message call: the call itself, or a local whose unique reaching
    definition is an assignment from it, possibly through plain copies."""
    if e is L.dec:
        return True
    if not isinstance(e, ast.Name) or depth == 0:
        return False
    w = _def_stmt(L.fi, L.cfg, e, nid)
    if not (isinstance(w, ast.Assign) and len(w.targets) == 1 and isinstance(w.targets[0], ast.Name)):
        return False
    if w.value is L.dec:
        return True
    if isinstance(w.value, ast.Name):
        return _is_decoded(L, w.value, L.cfg.loc1(w), depth - 1)
    return False


def _stored_value(st, field):
    """Expression whose value statement st stores into the attribute chain
    `field` (plain, augmented or element-wise tuple assignment), else None."""
    if isinstance(st, ast.AugAssign) and chain(st.target) == field:
        tgt = copy.deepcopy(st.target)
        tgt.ctx = ast.Load()
        return ast.BinOp(left=tgt, op=st.op, right=st.value)
    if isinstance(st, ast.AnnAssign) and chain(st.target) == field:
        return st.value
    if isinstance(st, ast.Assign):
        for t in st.targets:
            if chain(t) == field:
                return st.value
            if isinstance(t, (ast.Tuple, ast.List)) and isinstance(st.value, (ast.Tuple, ast.List)) and len(t.elts) == len(st.value.elts) \
                    and not any(isinstance(x, ast.Starred) for x in list(t.elts) + list(st.value.elts)):
                for tt, vv in zip(t.elts, st.value.elts):
                    if chain(tt) == field:
                        return vv
    return None


def _gate(ctx, facts, want, what):
    """Dominating branch outcomes equal to the wanted normal form.  When there
    is none but a dominating test is an opaque call on self / a plain function
    (a helper the rule does not look into), the rule cannot interpret the
    code: analysis error instead of a verdict."""
    hits = [(c_, ps, e) for c_, ps, e in facts if c_ == want]
    if not hits:
        for c_, ps, e in facts:
            if c_[0] in ("truth", "nottruth"):
                for x in ast.walk(e):
                    if isinstance(x, ast.Call) and (isinstance(x.func, ast.Name) or (isinstance(x.func, ast.Attribute) and chain(x.func.value) == "self")) and not is_log_call(x):
                        ctx.need(False, "%s: a dominating test calls %s, which the rule does not look into" % (what, _txt(x.func)))
    return hits


def _leaves_quietly(L, pseudo):
    """From this branch outcome the function is left without sizing again,
    decoding, dispatching or aborting."""
    r = L.cfg.reach({pseudo}, skip_labels=("exc",))
    return not (r & ({L.E, L.DEC} | L.effects | L.abort_nodes)) and L.cfg.exit in r


def _aborts_and_stops(L, src):
    """Every normal path from src passes an abort and none reaches a further
    sizing, decoding or dispatch."""
    r = L.cfg.reach({src}, skip_labels=("exc",))
    return bool(L.abort_nodes) and L.cfg.must_pass(src, L.abort_nodes) and not (r & ({L.E, L.DEC} | L.effects))


@R.clause("C15.c", "data_received: the spool is the only framing state; the frame is cut and the spool advanced by tokenoffset+tkl+length; the loop leaves on an incomplete frame")
def c(ctx):
    L = _frame_loop(ctx)
    fi, cfg, N = L.fi, L.cfg, L.N
    # carried state
    stored = {}
    loaded = {}
    for n in walk_no_nested(fi.node):
        if isinstance(n, ast.Attribute) and chain(n.value) == "self":
            (stored if isinstance(n.ctx, (ast.Store, ast.Del)) else loaded).setdefault(n.attr, []).append(n)
    for k, nd in stores_to(fi.node, "self._spool", nested=False):
        pass
    ctx.need("_spool" in stored, "data_received never stores self._spool")
    for attr, nodes in sorted(stored.items()):
        if attr == "_spool":
            continue
        ctx.ob("no attribute other than the spool is both written and read by the framing loop", attr not in loaded, fi, nodes[0], detail="self.%s is written here and read in the same function" % attr)
    spool_stores = [(k, n) for k, n in stores_to(fi.node, "self._spool", nested=False)]
    appends, advances = [], []
    for kind, st in spool_stores:
        nid = cfg.loc1(st)
        # the value stored, whatever the spelling of the store: `S = v`, `S += v` (= S + v),
        # `a, S = x, v` (element-wise; the right-hand side is evaluated before any store)
        val = _stored_value(st, "self._spool") if kind == "assign" else None
        rv = L.at(val, nid) if val is not None else None
        parts = _flatten_concat(rv) if rv is not None else []
        is_append = len(parts) == 2 and chain(parts[0]) == "self._spool" and isinstance(parts[1], ast.Name) and parts[1].id == L.D
        if is_append:
            ok = cfg.dominates(nid, L.E) and nid not in cfg.reach({nid})
            ctx.ob("the received chunk is appended to the spool once, before the framing loop", ok, fi, st)
            appends.append(nid)
            continue
        is_adv = rv is not None and match("self._spool[TOTAL__:]", rv) is not None
        ctx.ob("the spool is only ever advanced by the total size of the frame just cut (tokenoffset + tkl + length)", is_adv, fi, st,
               detail="stored value resolves to %s" % _txt(rv) if rv is not None else kind)
        if is_adv:
            advances.append(nid)
    ctx.ob("the chunk is appended to the spool", len(appends) == 1, fi, fi.node, construct="data_received", detail="%d append site(s)" % len(appends))
    # the frame handed to _decode_message: the argument, followed back through plain
    # copies (`frame = S[:n]` ... `m = frame` ... `_decode_message(m)`) to the statement
    # that takes the bytes out of the spool -- the *cut*.  The copies are snapshots: the
    # value is the one the expression had at the cut (locals in it resolved there), no
    # matter whether the spool is advanced before or after the frame is decoded.
    frame_e, S = L.dec.args[0], L.DEC
    for _ in range(8):
        w = _def_stmt(fi, cfg, frame_e, S) if isinstance(frame_e, ast.Name) else None
        v = None
        if isinstance(w, ast.Assign) and len(w.targets) == 1:
            t = w.targets[0]
            if isinstance(t, ast.Name):
                v = w.value
            elif isinstance(t, (ast.Tuple, ast.List)) and isinstance(w.value, (ast.Tuple, ast.List)) and len(t.elts) == len(w.value.elts) \
                    and not any(isinstance(x, ast.Starred) for x in list(t.elts) + list(w.value.elts)):
                idx = [i for i, x in enumerate(t.elts) if isinstance(x, ast.Name) and x.id == frame_e.id]
                v = w.value.elts[idx[0]] if len(idx) == 1 else None
        elif isinstance(w, ast.AnnAssign) and isinstance(w.target, ast.Name):
            v = w.value
        if v is None:
            break
        frame_e, S = v, cfg.loc1(w)
    frame = L.at(frame_e, S)
    ok = match("self._spool[:TOTAL__]", frame) is not None or match("self._spool[0:TOTAL__]", frame) is not None
    ctx.ob("the frame decoded is the first tokenoffset + tkl + length bytes of the spool", ok, fi, L.dec, detail="frame resolves to %s" % _txt(frame))
    store_nodes = {cfg.loc1(st) for _, st in spool_stores}
    region = cfg.reach({L.E}, avoid={L.E, S})
    # (a store in the cutting statement itself happens after its right-hand side was evaluated)
    dirty = [n for n in store_nodes if n in region and n != S and S in cfg.reach({n}, avoid={L.E})]
    ctx.ob("the spool is not modified between sizing it and cutting the frame", not dirty, fi, cfg.nodes[dirty[0]].ast if dirty else L.dec)
    # every round trip sizing -> decoding -> sizing passes an advance (before or after the
    # decoding: the decoder works on the cut, not on the spool): there is no advance-free
    # path from the sizing to the decoding that continues advance-free to the next sizing
    adv = set(advances)
    unadvanced = L.DEC in cfg.reach({L.E}, avoid=adv | {L.E}, skip_labels=("exc",)) and L.E in cfg.reach({L.DEC}, avoid=adv, skip_labels=("exc",))
    ctx.ob("after a frame is decoded the spool is advanced before the next frame is sized", bool(advances) and not unadvanced, fi, L.dec,
           detail="%d advance site(s)" % len(advances))
    twice = [a for a in advances if cfg.reach({a}, avoid={L.E}) & set(advances)]
    ctx.ob("the spool is advanced at most once per frame", not twice, fi, cfg.nodes[twice[0]].ast if twice else L.dec)
    # leaving on incomplete input
    facts = L.guard_facts(L.DEC)
    want_some = ("isnot", "EXT__", "None")
    want_full = ("lt", Poly.atom("TOTAL__") - Poly.atom("len(self._spool)") - Poly.const(1))
    for want, what in ((want_some, "no size can be read yet"), (want_full, "the frame is not yet complete")):
        hits = _gate(ctx, facts, want, "completeness gate")
        ctx.ob("decoding happens only when it is not the case that %s" % what, bool(hits), fi, L.dec, detail="dominating facts: %s" % sorted(repr(f[0]) for f in facts))
        for c_, ps, e in hits:
            quiet = all(_leaves_quietly(L, o) for o in _other_side(cfg, ps))
            ctx.ob("when %s the loop is left without dispatching, aborting or spinning" % what, quiet, fi, e)


@R.clause("C15.d", "gates before dispatch: oversized frame, unparsable frame and non-signalling message before the CSM each abort and stop")
def d(ctx):
    L = _frame_loop(ctx)
    fi, cfg, N = L.fi, L.cfg, L.N
    prog = ctx.prog
    ctx.floor("_dispatch_incoming sites in data_received", len(L.dispatch), 1)
    facts = L.guard_facts(L.DEC)
    want = ("lt", Poly.atom("TOTAL__") - Poly.atom("self._my_max_message_size") - Poly.const(1))
    hits = _gate(ctx, facts, want, "size gate")
    ctx.ob("decoding is dominated by the gate 'announced size <= own maximum message size'", bool(hits), fi, L.dec, detail="dominating facts: %s" % sorted(repr(f[0]) for f in facts))
    for c_, ps, e in hits:
        ok = all(_aborts_and_stops(L, o) for o in _other_side(cfg, ps))
        ctx.ob("an oversized frame aborts the connection and nothing further is decoded or dispatched", ok, fi, e)
    # parse gate
    handlers = [h for h, lab in cfg.succ[L.DEC] if lab == "exc" and cfg.nodes[h].kind == "handler"]
    good = []
    for h in handlers:
        hn = cfg.nodes[h].ast
        types = [] if hn.type is None else (hn.type.elts if isinstance(hn.type, ast.Tuple) else [hn.type])
        catches = hn.type is None or any(chain(t) and prog.is_subclass("aiocoap.error.UnparsableMessage", prog.resolve_in_module(fi.module, chain(t))) for t in types)
        if catches:
            good.append(h)
    ctx.ob("UnparsableMessage from _decode_message is caught in data_received", bool(good), fi, L.dec)
    for h in good[:1]:
        ctx.ob("an unparsable frame aborts the connection and nothing further is decoded or dispatched", _aborts_and_stops(L, h), fi, cfg.nodes[h].ast,
               construct="except %s" % (_txt(cfg.nodes[h].ast.type) if cfg.nodes[h].ast.type is not None else ""))
    # CSM gate
    for call in L.dispatch:
        nid = cfg.loc1(call)
        gf = L.guard_facts(nid)
        hits = _gate(ctx, gf, ("isnot", "self._remote_settings", "None"), "CSM gate")
        ctx.ob("dispatch is dominated by 'the peer's CSM has been received'", bool(hits), fi, call, detail="dominating facts: %s" % sorted(repr(f[0]) for f in gf))
        for c_, ps, e in hits:
            ok = all(_aborts_and_stops(L, o) for o in _other_side(cfg, ps))
            ctx.ob("a request or response before the CSM aborts the connection and is not dispatched", ok, fi, e)
        ctx.ob("dispatch happens only after the frame was decoded", cfg.dominates(L.DEC, nid), fi, call)
        a = call.args[-1] if call.args else None
        ctx.ob("the message dispatched is the one just decoded", a is not None and not call.keywords and _is_decoded(L, a, nid), fi, call)


# ---------------------------------------------------------------------------
# C15.e  escape set of _decode_message


def _locate(prog, esc):
    """(FuncInfo, node) of the construct an escape record points at."""
    try:
        fi = prog.func(esc.func)
    except AnchorError:
        return None, None
    best = None
    for n in ast.walk(fi.node):
        if getattr(n, "lineno", None) == esc.line and isinstance(n, (ast.expr, ast.stmt)):
            if stmt_text(n, 80) == esc.text or stmt_text(n, 100) == esc.text:
                return fi, n
            if best is None and isinstance(n, ast.stmt):
                best = n
    return fi, best


class _EnumAwareEscapes(EscapeAnalysis):
    """Escape analysis that knows what constructing an enumeration by value does.

    `Cls(value)` on an Enum class is a *lookup*: the metaclass looks the value up in the member table and,
    when it is not there, calls the `_missing_` hook found along the MRO of Cls (enum.Enum.__new__); whatever that
    hook raises leaves the constructor call.  The engine resolves a class call to __new__/__init__ only, so the
    hook -- the one piece of package code an enum lookup runs -- is added here: for every call the resolver
    classifies as a class construction of a class with an Enum ancestor, the escape set of the `_missing_` the
    package defines for it (bound to that class, so that super()._missing_ resolves along its MRO) joins the
    escapes of the call.  This over-approximates ("the value may be unknown to the table"), which is the sound
    direction for "nothing but UnparsableMessage leaves the parser"; it is not applied where the engine's lemma L4
    proved the argument to range over member values only (then the hook is never entered).  Nothing here depends
    on which enum, which hook or which exception: an open enum whose hook accepts every value contributes no escape.
    """

    ENUM_ROOTS = ("Enum", "IntEnum", "IntFlag", "Flag", "StrEnum", "ReprEnum")

    def _is_enum(self, c):
        return any(x.split(".")[-1] in self.ENUM_ROOTS for x in self.prog.mro(c)[1:])

    BUILTIN_TYPES = ("int", "str", "bytes", "float", "object", "tuple", "frozenset", "bool")

    def _call(self, fi, call, shape, st):
        f = call.func
        # `int.__new__(cls, value)` -- the allocation step of a builtin base type, as enum hooks and
        # immutable subclasses spell it -- is the builtin's constructor, not a method of the package: the engine's
        # unique-method-name fallback would bind it to the only `__new__` the package happens to define.  It raises
        # what `int(value)` raises (the engine's rule: ValueError when the argument is string-like).
        if (isinstance(f, ast.Attribute) and f.attr == "__new__" and isinstance(f.value, ast.Name) and f.value.id in self.BUILTIN_TYPES
                and not self.res._is_local(fi, f.value.id) and not self.res.class_of_name(fi, f.value.id)):
            out = set()
            for a_ in call.args:
                out |= set(self._expr(fi, a_, shape, st))
            if f.value.id in ("int", "float") and len(call.args) >= 2 and (self._strish(fi, call.args[1]) or len(call.args) > 2):
                out.add(Esc("ValueError", fi.short, call.lineno, stmt_text(call, 80)))
            return out
        out = EscapeAnalysis._call(self, fi, call, shape, st)
        if id(call) in self.dead_nodes or not call.args or not chain(call.func):
            return out
        if isinstance(call.func, ast.Name) and call.func.id == "int":
            return out
        try:
            callees, kind = self.res.resolve_callees(fi, call)
        except Exception:
            return out
        if kind != "class":
            return out
        c = self.res.class_of_name(fi, chain(call.func))
        if not c or not self._is_enum(c):
            return out
        hook = self.prog.lookup_method(c, "_missing_")
        if hook is None:
            return out
        if self._closed_enum(c) and self._enum_arg_in_range(fi, c, call.args[0]):
            return out
        self.enum_hooks.append("%s: %s -> %s" % (fi.short, stmt_text(call, 60), hook.short))
        return set(out) | {x.with_via(fi.short) for x in self.escapes(hook, self.shape_for(fi, call, hook), c)}

    enum_hooks = None

    def __init__(self, *a, **kw):
        EscapeAnalysis.__init__(self, *a, **kw)
        self.enum_hooks = []


@R.clause("C15.e", "no exception other than UnparsableMessage escapes _decode_message")
def e(ctx):
    prog = ctx.prog
    fi = prog.func(TCP + "_decode_message")
    formats = [q for q in prog.subclasses("aiocoap.optiontypes.OptionType")]
    ctx.floor("option format classes (subclasses of optiontypes.OptionType)", len(formats), 6)
    prog.func("numbers.optionnumbers.OptionNumber.create_option")
    EA = _EnumAwareEscapes(prog, hints={("numbers.optionnumbers.OptionNumber.create_option", "option"): formats})
    # premise for exempting a `self.D[k]` KeyError site: the key is known to be present
    # (membership test / insertion of the same key on every path, nothing in between
    # that could remove it) -- see _kit_c15.present_key_reads
    exempt = []
    for f_ in prog.funcs.values():
        for sub in K.present_key_reads(f_):
            EA.dead_nodes.add(id(sub))
            exempt.append("%s: %s" % (f_.short, _txt(sub)))
    escs = EA.escapes(fi)
    ctx.need(not EA.unresolved, "calls in the decoding region could not be resolved: %s" % EA.unresolved[:5])
    allowed = "aiocoap.error.UnparsableMessage"
    good = [x for x in escs if x.cls == allowed or prog.is_subclass(x.cls, allowed)]
    bad = [x for x in escs if x not in good]
    reached = {f for x in escs for f in x.via} | {x.func for x in escs}
    ctx.need("options.Options.decode" in reached, "the escape analysis did not enter Options.decode")
    for x in sorted(good, key=lambda x: (x.func, x.text)):
        ctx.ob("raise site reachable from _decode_message raises (a subclass of) UnparsableMessage", True, None, None, construct="%s: %s" % (x.func, x.text))
    seen = set()
    for x in sorted(bad, key=lambda x: (x.func, x.text, x.cls)):
        if (x.func, x.text, x.cls) in seen:
            continue
        seen.add((x.func, x.text, x.cls))
        ofi, node = _locate(prog, x)
        ctx.ob("only UnparsableMessage may leave _decode_message (data_received converts nothing else into an Abort)", False, ofi, node,
               detail="%s raised here escapes via %s" % (x.cls, " > ".join(x.via) if x.via else fi.short), construct=x.text)
    ctx.ob("escape set of _decode_message is a subset of {UnparsableMessage}", not bad, None, None, construct="_decode_message") if not bad else None
    ctx.extra["escape_analysis_c15"] = {
        "region_root": fi.short,
        "escapes": sorted(repr(x) for x in escs),
        "resolved_edges": EA.resolved_edges,
        "unresolved": EA.unresolved,
        "external_calls": EA.external_calls,
        "implicit_sites": sorted(set(EA.implicit_sites)),
        "lemmas_used": EA.lemmas_used,
        "by_unique_name": EA.res.by_unique_name,
        "format_dispatch_hint": formats,
        "key_present_reads_exempted": sorted(exempt),
        "enum_lookup_hooks_entered": sorted(set(EA.enum_hooks)),
    }
    ctx.floor("enumeration lookups by value in the decoding region whose _missing_ hook was analysed", len(set(EA.enum_hooks)), 1)
    ctx.floor("UnparsableMessage raise sites reached from _decode_message", len(good), 3)


# ---------------------------------------------------------------------------
# C15.f  abort sends the Abort message, then closes


def _code_member(prog, module, e):
    """Integer value when the expression names a member of numbers.codes.Code
    (via an imported module-level alias or Code.X), else None."""
    c = chain(e)
    if c is None:
        return None
    ci = prog.cls("numbers.codes.Code")
    q = prog.resolve_in_module(module, c)
    name = q.split(".")[-1]
    if not (q == "aiocoap.numbers.codes." + name or q == "aiocoap.numbers.codes.Code." + name or q == "aiocoap.numbers.Code." + name or q == "aiocoap.Code." + name or q == "aiocoap." + name or q == "aiocoap.numbers." + name):
        return None
    if q.split(".")[-2] != "Code":
        # module-level alias NAME = Code.NAME
        try:
            v = prog.module_const("numbers.codes", name)
        except AnchorError:
            return None
        if chain(v) != "Code." + name:
            return None
    if name not in ci.attrs:
        return None
    try:
        v = norm.consteval(ci.attrs[name])
    except NormError:
        return None
    return v if isinstance(v, int) else None


def _is_message_ctor(prog, fi, e):
    return isinstance(e, ast.Call) and chain(e.func) is not None and prog.resolve_in_module(fi.module, chain(e.func)) == "aiocoap.message.Message"


def _message_fields(prog, fi, cfg, e, nid):
    """{field: value expression | None} of the message denoted by expression e at
    CFG node nid, or None when e does not resolve to a Message(...) construction.
    A constructor keyword and an attribute assignment `<the same local>.field = v`
    that is executed on every path from the construction to nid are the same fact
    (the assignment wins); a field that is assigned only on some paths is unknown
    (None)."""
    m = _resolve_at(fi, cfg, e, nid)
    if not _is_message_ctor(prog, fi, m) or m.args or any(k.arg is None for k in m.keywords):
        return None
    fields = {k.arg: k.value for k in m.keywords}
    if isinstance(e, ast.Name):
        w = _def_stmt(fi, cfg, e, nid)
        if w is not None:
            for st in walk_no_nested(fi.node):
                if not isinstance(st, (ast.Assign, ast.AugAssign, ast.AnnAssign)):
                    continue
                tgts = st.targets if isinstance(st, ast.Assign) else [st.target]
                for t in tgts:
                    if isinstance(t, ast.Attribute) and isinstance(t.value, ast.Name) and t.value.id == e.id:
                        for sn in cfg.locate(st):
                            if _def_stmt(fi, cfg, t.value, sn) is not w:
                                continue
                            if sn == nid or nid not in cfg.reach({sn}, include_src=True):
                                continue
                            if isinstance(st, ast.Assign) and cfg.dominates(sn, nid) and sn not in cfg.reach({sn}, avoid={cfg.loc1(w)}):
                                fields[t.attr] = _resolve_at(fi, cfg, st.value, sn)
                            else:
                                fields[t.attr] = None
    return fields


def _calls_on(fi, cfg, recv_chain, names):
    """calls `R.m(...)` with m in names whose receiver R is the attribute chain
    recv_chain, directly or through locals that are (fresh) aliases of it"""
    out = []
    for c in calls_in(fi.node):
        if isinstance(c.func, ast.Attribute) and c.func.attr in names:
            for nid in cfg.locate(c)[:1]:
                if chain(_resolve_at(fi, cfg, c.func.value, nid)) == recv_chain:
                    out.append(c)
    return out


@R.clause("C15.f", "abort builds a 7.05 Abort message and hands it to _abort_with, which writes it before closing the transport")
def f(ctx):
    prog = ctx.prog
    afi = prog.func("transports.rfc8323common.RFC8323Remote.abort")
    cfg = cfg_of(afi)
    calls = [c_ for c_ in _calls_on(afi, cfg, "self", {"_abort_with"}) if len(c_.args) == 1 and not c_.keywords]
    ctx.ob("every normal path through abort reaches _abort_with", bool(calls) and cfg.must_pass(cfg.entry, {cfg.loc1(c_) for c_ in calls}), afi, calls[0] if calls else afi.node,
           construct=None if calls else "abort")
    for c_ in calls:
        flds = _message_fields(prog, afi, cfg, c_.args[0], cfg.loc1(c_))
        code = _code_member(prog, afi.module, flds["code"]) if flds and flds.get("code") is not None else None
        ctx.ob("the message handed to _abort_with is Message(code=7.05 Abort)", code == SIGNALLING["ABORT"], afi, c_,
               detail="resolves to %s, code value %s" % (_txt(_resolve_at(afi, cfg, c_.args[0], cfg.loc1(c_))), code))
    tfi = prog.func(TCP + "TcpConnection._abort_with")
    tp = params(tfi)
    ctx.need(len(tp) == 1 and not writes_to_name(tfi.node, tp[0]), "_abort_with(self, abort_msg) signature changed")
    cfg = cfg_of(tfi)
    closes = _calls_on(tfi, cfg, "self._transport", {"close", "abort"})
    sends = [c_ for c_ in _calls_on(tfi, cfg, "self", {"_send_message"}) if len(c_.args) == 1 and not c_.keywords and chain(_resolve_at(tfi, cfg, c_.args[0], cfg.loc1(c_))) == tp[0]]
    ctx.ob("_abort_with closes the transport", bool(closes), tfi, tfi.node, construct="_abort_with")
    send_nodes = {cfg.loc1(s) for s in sends}
    close_nodes = {cfg.loc1(s) for s in closes}
    for c_ in closes:
        nid = cfg.loc1(c_)
        ctx.ob("the transport is closed only after the Abort message was sent", any(cfg.dominates(s, nid) and s != nid for s in send_nodes), tfi, c_)
    ctx.ob("the Abort message is sent", bool(sends), tfi, tfi.node, construct="_abort_with")
    for s in sends:
        ctx.ob("after sending Abort the transport is closed on every normal path", cfg.must_pass(cfg.loc1(s), close_nodes - {cfg.loc1(s)}), tfi, s)
    # on the branch where a transport exists, the message is sent
    t_guards = []
    for n in cfg.nodes:
        if n.kind in ("T", "F") and isinstance(n.ast, ast.expr):
            try:
                cnf = Normalizer().cmp(_resolve_at(tfi, cfg, n.ast, _test_node_of(cfg, n.id)))
            except NormError:
                continue
            if n.kind == "F":
                cnf = Normalizer().negate(cnf)
            if cnf in (("isnot", "self._transport", "None"), ("truth", "self._transport")):
                t_guards.append(n.id)
    for g in t_guards:
        ctx.ob("whenever a transport exists, Abort is sent and the transport closed", cfg.must_pass(g, send_nodes) and cfg.must_pass(g, close_nodes), tfi, cfg.nodes[g].ast)
    if not t_guards:
        ctx.ob("whenever a transport exists, Abort is sent and the transport closed", cfg.must_pass(cfg.entry, send_nodes) and cfg.must_pass(cfg.entry, close_nodes), tfi, tfi.node, construct="_abort_with")
    sfi = prog.func(TCP + "TcpConnection._send_message")
    sp = params(sfi)
    ctx.need(len(sp) == 1 and not writes_to_name(sfi.node, sp[0]), "_send_message(self, msg) signature changed")
    cfg = cfg_of(sfi)
    allw = _calls_on(sfi, cfg, "self._transport", {"write", "writelines"})
    writes = []
    for c_ in allw:
        x = _resolve_at(sfi, cfg, c_.args[0], cfg.loc1(c_)) if len(c_.args) == 1 and not c_.keywords and c_.func.attr == "write" else None
        if isinstance(x, ast.Call) and _callee_is(prog, sfi, x, "aiocoap.transports.tcp._serialize") and len(x.args) == 1 and not x.keywords and chain(_resolve_at(sfi, cfg, x.args[0], cfg.loc1(c_))) == sp[0]:
            writes.append(c_)
    ctx.ob("_send_message writes exactly _serialize(message) to the transport on every normal path", len(writes) == 1 and len(allw) == 1 and cfg.must_pass(cfg.entry, {cfg.loc1(writes[0])}) and cfg.loc1(writes[0]) not in cfg.reach({cfg.loc1(writes[0])}),
           sfi, allw[0] if allw else sfi.node, construct=None if allw else "_send_message")
    pfi = prog.func(TCP + "_TCPPooling.send_message")
    pp = params(pfi)
    ctx.need(len(pp) >= 1 and not writes_to_name(pfi.node, pp[0]), "_TCPPooling.send_message(self, message, ...) signature changed")
    pcfg = cfg_of(pfi)
    outs = [c_ for c_ in _calls_on(pfi, pcfg, pp[0] + ".remote", {"_send_message"}) if len(c_.args) == 1 and not c_.keywords and chain(_resolve_at(pfi, pcfg, c_.args[0], pcfg.loc1(c_))) == pp[0]]
    ctx.ob("outgoing messages are handed unchanged to the connection's _send_message", len(outs) >= 1, pfi, outs[0] if outs else pfi.node, construct=None if outs else "send_message")


# ---------------------------------------------------------------------------
# finite-domain evaluation of guards over the code value (E5)


def _code_sets(ctx):
    """{method name: set of code values 0..255} extracted from numbers/codes.py."""
    cache = getattr(ctx, "_c15_codesets", None)
    if cache is not None:
        return cache
    out = {}
    # evaluated for every code 0..255 by the engine's own evaluator (any spelling of the predicates)
    from ..absdom import code_predicates
    preds = code_predicates(ctx.prog)
    for name in CODE_CLASSES:
        fi = ctx.prog.func("numbers.codes.Code." + name)
        ctx.need(name in preds, "Code.%s missing" % name)
        out[name] = (set(preds[name]), fi)
    ctx._c15_codesets = out
    return out


def _code_value(prog, module, e):
    try:
        v = norm.consteval(e)
        if isinstance(v, int) and not isinstance(v, bool):
            return v
    except NormError:
        pass
    return _code_member(prog, module, e)


def _eval_code_test(ctx, module, test, is_code, v):
    """Three-valued value of an atomic test for code value v; None when the
    test is not about the code."""
    prog = ctx.prog
    if isinstance(test, ast.Compare) and len(test.ops) == 1:
        op, l, r = test.ops[0], test.left, test.comparators[0]
        if is_code(r) and not is_code(l) and isinstance(op, (ast.Eq, ast.NotEq, ast.Is, ast.IsNot, ast.Lt, ast.LtE, ast.Gt, ast.GtE)):
            flip = {ast.Lt: ast.Gt, ast.Gt: ast.Lt, ast.LtE: ast.GtE, ast.GtE: ast.LtE}
            l, r, op = r, l, flip.get(type(op), type(op))()
        if is_code(l):
            if isinstance(op, (ast.In, ast.NotIn)) and isinstance(r, ast.Name):
                # a module-level constant collection of codes (immutable, bound once)
                c_ = K.module_const(prog, module, r.id)
                if isinstance(c_, (ast.Tuple, ast.List)):
                    r = c_
            if isinstance(op, (ast.In, ast.NotIn)) and isinstance(r, ast.Call) and chain(r.func) in ("frozenset", "set", "tuple") and len(r.args) == 1 and not r.keywords and isinstance(r.args[0], (ast.Tuple, ast.List, ast.Set)):
                r = r.args[0]
            if isinstance(op, (ast.In, ast.NotIn)) and isinstance(r, (ast.Tuple, ast.List, ast.Set)):
                vals = [_code_value(prog, module, x) for x in r.elts]
                if any(x is None for x in vals):
                    raise AnalysisError("cannot evaluate %s" % _txt(test))
                res = v in vals
                return res if isinstance(op, ast.In) else not res
            k = _code_value(prog, module, r)
            if k is None:
                raise AnalysisError("code compared with something that is not a code constant: %s" % _txt(test))
            table = {ast.Eq: v == k, ast.Is: v == k, ast.NotEq: v != k, ast.IsNot: v != k, ast.Lt: v < k, ast.LtE: v <= k, ast.Gt: v > k, ast.GtE: v >= k}
            if type(op) in table:
                return table[type(op)]
            raise AnalysisError("cannot evaluate %s" % _txt(test))
    if isinstance(test, ast.Call) and isinstance(test.func, ast.Attribute) and is_code(test.func.value) and not test.args and not test.keywords:
        sets = _code_sets(ctx)
        if test.func.attr in sets:
            return v in sets[test.func.attr][0]
        raise AnalysisError("predicate %s of the code is outside the evaluator's vocabulary" % test.func.attr)
    if is_code(test):
        return v != 0
    for x in ast.walk(test):
        if isinstance(x, ast.expr) and is_code(x):
            raise AnalysisError("test mentions the code in a form outside the evaluator's vocabulary: %s" % _txt(test))
    return None


def _reach_under(ctx, fi, cfg, is_code, v):
    """CFG nodes reachable from the entry along non-exceptional edges when the
    code has value v (tests about the code are decided, all others go both ways)."""
    seen = {cfg.entry}
    todo = [cfg.entry]
    while todo:
        n = todo.pop()
        node = cfg.nodes[n]
        r = _eval_code_test(ctx, fi.module, node.ast, is_code, v) if node.kind == "test" else None
        for d, lab in cfg.succ[n]:
            if lab == "exc" and cfg.nodes[d].kind != "handler":
                continue
            if r is not None and lab in ("T", "F") and (lab == "T") != r:
                continue
            if d not in seen:
                seen.add(d)
                todo.append(d)
    return seen


def _site_domain(ctx, fi, cfg, nid, is_code, domain):
    """(code values of `domain` for which the site is reachable,
    [(guard, polarity)] dominating the site that are not about the code)."""
    cache = fi.__dict__.setdefault("_c15_reach", {})
    alive = set()
    for v in domain:
        if v not in cache:
            cache[v] = _reach_under(ctx, fi, cfg, is_code, v)
        if nid in cache[v]:
            alive.add(v)
    others = []
    for g, pol, ps in cfg.guards(nid):
        if not isinstance(g, ast.expr) or _eval_code_test(ctx, fi.module, g, is_code, 0) is None:
            if isinstance(g, ast.expr):
                # a guard over a local is a guard over what the local holds where it is tested
                # (`number = opt.number ... if number == 2`): unique reaching definitions only
                g = _resolve_at(fi, cfg, g, _test_node_of(cfg, ps))
            others.append((g, pol))
    return alive, others


OPT_REPR = (1, 2, 3, 4, 6, 8, 9)  # representatives: 2 and 4 (the CSM options), other critical (odd), other elective (even)


def _option_domain(ctx, others, loopvars):
    """Evaluate guards about `<loopvar>.number` over OPT_REPR.  Returns
    (alive representatives, remaining guards)."""
    alive = set(OPT_REPR)
    rest = []
    for g, pol in others:
        if isinstance(g, ast.For):
            continue
        handled = False
        numbers = {lv + ".number" for lv in loopvars}
        if isinstance(g, ast.Compare) and len(g.ops) == 1 and isinstance(g.ops[0], (ast.Eq, ast.NotEq)) and chain(g.comparators[0]) in numbers and chain(g.left) not in numbers:
            # mirrored spelling `2 == opt.number`
            g = ast.Compare(left=g.comparators[0], ops=g.ops, comparators=[g.left])
        if isinstance(g, ast.Compare) and len(g.ops) == 1 and chain(g.left) in numbers:
            op, r = g.ops[0], g.comparators[0]
            try:
                k = norm.consteval(r)
            except NormError:
                k = None
            if isinstance(op, (ast.Eq, ast.NotEq)) and isinstance(k, int):
                alive = {n for n in alive if ((n == k) if isinstance(op, ast.Eq) else (n != k)) == pol}
                handled = True
            elif isinstance(op, (ast.In, ast.NotIn)) and isinstance(k, (tuple, list, set)):
                alive = {n for n in alive if ((n in k) if isinstance(op, ast.In) else (n not in k)) == pol}
                handled = True
        elif isinstance(g, ast.Call) and isinstance(g.func, ast.Attribute) and g.func.attr in ("is_critical", "is_elective") and chain(g.func.value) in {lv + ".number" for lv in loopvars} and not g.args:
            crit = g.func.attr == "is_critical"
            alive = {n for n in alive if ((n % 2 == 1) == crit) == pol}
            handled = True
        if not handled:
            rest.append((g, pol))
    return alive, rest


def _loopvars(others, M, fnode=None):
    """Names bound by enclosing `for X in <M>.opt.option_list()` loops (the
    iterable possibly held in a single-assignment local or wrapped in
    list()/tuple()/iter(), which do not change the elements)."""
    out = set()
    for g, pol in others:
        if isinstance(g, ast.For) and pol and isinstance(g.target, ast.Name):
            it = g.iter
            for _ in range(3):
                if isinstance(it, ast.Name) and fnode is not None:
                    it = resolve_local(fnode, it)
                if isinstance(it, ast.Call) and isinstance(it.func, ast.Name) and it.func.id in ("list", "tuple", "iter") and len(it.args) == 1 and not it.keywords:
                    it = it.args[0]
            if match("%s.opt.option_list()" % M, it) is not None:
                out.add(g.target.id)
    return out


# ---------------------------------------------------------------------------
# C15.g  signalling


def _is_mms_option(prog, fi, e):
    """e constructs optiontypes.UintOption(number=2, value=self._my_max_message_size)"""
    if not (isinstance(e, ast.Call) and chain(e.func) and prog.resolve_in_module(fi.module, chain(e.func)) == "aiocoap.optiontypes.UintOption"):
        return False
    if any(isinstance(a_, ast.Starred) for a_ in e.args) or any(k.arg is None for k in e.keywords):
        return False
    kw = {k.arg: k.value for k in e.keywords}
    num = e.args[0] if len(e.args) >= 1 else kw.get("number")
    val = e.args[1] if len(e.args) >= 2 else kw.get("value")
    if num is None or val is None:
        return False
    try:
        n = norm.consteval(num)
    except NormError:
        return False
    return n == 2 and not isinstance(n, bool) and chain(val) == "self._my_max_message_size"


def _str_const(prog, fi, e):
    """the string an expression denotes: a literal, constant arithmetic on literals, or
    an immutable module-level constant of the function's module; else None"""
    if isinstance(e, ast.Name):
        c = _consts_of(prog, fi)(e.id)
        if c is not None:
            e = c
    try:
        v = norm.consteval(e)
    except NormError:
        return None
    return v if isinstance(v, str) else None


@R.clause("C15.g", "signalling: CSM options 2/4, unknown critical options and unknown 7.xx abort, Ping is answered by Pong with the same token, Release/Abort fail the pending requests and close")
def g(ctx):
    prog = ctx.prog
    # premises: the code classes and option criticality mean what the RFCs say
    for name, (vals, mfi) in sorted(_code_sets(ctx).items()):
        ctx.ob("Code.%s holds exactly for the RFC 7252 section 12.1 / RFC 8323 range" % name, vals == CODE_CLASSES[name], mfi, mfi.node, construct="Code.%s" % name,
               detail="holds for %s..%s (%d values)" % (min(vals) if vals else None, max(vals) if vals else None, len(vals)))
    codecls = prog.cls("numbers.codes.Code")
    for name, val in sorted(SIGNALLING.items()):
        ctx.need(name in codecls.attrs, "Code.%s missing" % name)
        try:
            v = norm.consteval(codecls.attrs[name])
        except NormError:
            v = None
        ctx.ob("Code.%s == %d (7.%02d)" % (name, val, val - 224), v == val, None, None, construct="Code.%s = %s" % (name, _txt(codecls.attrs[name])))
    cfi = prog.func("numbers.optionnumbers.OptionNumber.is_critical")
    # evaluated by the checker's own evaluator for option numbers 0..299 and a few
    # large ones (any spelling of "bit 0 is set": & 1, % 2, bool(..), if/else)
    crit_ok = True
    crit_detail = None
    cp = params(cfi, skip_self=False)
    ctx.need(len(cp) == 1 and not writes_to_name(cfi.node, cp[0]), "OptionNumber.is_critical(self) signature changed")
    for n in list(range(300)) + [2049, 65000, 65001, 65535, 65536, 65537, 2 ** 20 + 1, 2 ** 31, 2 ** 31 + 1]:
        try:
            got = K.eval_predicate(cfi.node, {cp[0]: n}, what="OptionNumber.is_critical")
        except AnalysisError as ex:
            crit_ok, crit_detail = False, str(ex)
            break
        if got is not (n % 2 == 1):
            crit_ok, crit_detail = False, "option number %d is %sconsidered critical" % (n, "" if got else "not ")
            break
    ctx.ob("OptionNumber.is_critical tests bit 0 of the option number", crit_ok, cfi, cfi.node, construct="OptionNumber.is_critical", detail=crit_detail)

    # named option numbers (class-level constants) are read as their values and a capture
    # pattern `case x if g` as the match subject (exact rewrites, see _kit_c15.simplified)
    fi, notes_ = K.simplified(prog, prog.func("transports.rfc8323common.RFC8323Remote._process_signaling"))
    for n_ in notes_:
        ctx.note("_process_signaling: %s" % n_)
    p = params(fi)
    ctx.need(len(p) == 1 and not writes_to_name(fi.node, p[0]), "_process_signaling(self, msg) signature changed")
    M = p[0]
    cfg = cfg_of(fi)
    dom = set(range(224, 256))
    known = set(SIGNALLING.values())

    def is_code(e):
        if isinstance(e, ast.Name):
            e = resolve_local(fi.node, e)
        return chain(e) == M + ".code"

    def site(node):
        nid = cfg.loc1(node)
        alive, others = _site_domain(ctx, fi, cfg, nid, is_code, dom)
        lvs = _loopvars(others, M, fi.node)
        nums, rest = _option_domain(ctx, others, lvs)
        return nid, alive, lvs, nums, rest

    # CSM options.  The peer's settings are the object held by self._remote_settings;
    # "CSM received" is `self._remote_settings is not None` (the gate of C15.d).  Both
    # facts are decided on the flow of that object, not on the spelling of the stores:
    # for every code value 7.00..7.31 a must-alias / nullness flow (K.FieldFlow) says
    # which locals ARE the settings object at each node and whether the field can still
    # be None at the normal exit.
    FIELD = "self._remote_settings"

    def is_field(e):
        return isinstance(e, ast.Attribute) and chain(e) == FIELD

    for x in ast.walk(fi.node):
        ctx.need(not isinstance(x, (ast.Nonlocal, ast.Global)), "names of _process_signaling can be rebound from outside its own body (global / nonlocal)")
    # closed-world premise for "a call does not swap the settings object under a local
    # alias": no function of the package other than this one (and constructors, which do
    # not run on an existing connection) assigns or deletes <x>._remote_settings
    foreign = sorted(short for short, hits in field_writers(prog, "_remote_settings").items()
                     if short != fi.short and short.rsplit(".", 1)[-1] != "__init__" and any(k_ in ("assign", "del") for k_, _n in hits))
    calls_rebind = bool(foreign) or any(isinstance(x, ast.Attribute) and x.attr == "__init__" for x in ast.walk(fi.node))
    if foreign:
        ctx.note("_remote_settings is also assigned in %s: calls forget what the field holds" % ", ".join(foreign))
    flows = {}
    for v in sorted(dom):
        flows[v] = K.FieldFlow(cfg, FIELD, decide=lambda nid, v=v: _eval_code_test(ctx, fi.module, cfg.nodes[nid].ast, is_code, v), calls_rebind=calls_rebind)
    may = K.may_aliases(fi.node, FIELD)
    for x in walk_with_lambdas(fi.node):
        if x is not fi.node and isinstance(x, (ast.Lambda, ast.FunctionDef, ast.AsyncFunctionDef)):
            inner = {chain(y) for y in ast.walk(x) if isinstance(y, ast.Attribute)} | {y.id for y in ast.walk(x) if isinstance(y, ast.Name)}
            ctx.need(FIELD not in inner and not (may & inner), "the peer's settings are used inside a nested function of _process_signaling")
    # A store through receiver r at node n counts as a store into the settings when the
    # object r holds at n is the object the field holds at the normal exit:
    #  (A) r is the field, or a local that IS the field's object at n (must-alias), and the
    #      field is not rebound on any way from n on (so its object at n is its object at exit);
    #  (B) r is a local that is not rebound on any way from n on and IS the field's object
    #      at the normal exit (the dictionary is filled first and published afterwards; nothing
    #      can observe the difference inside a plain synchronous function).
    # Everything else that might reach the settings (flow-insensitive may-aliases) is "unsure".
    binders = K.binder_nodes(cfg, FIELD, calls_rebind)
    after = {}
    rebind_at = {}
    for node in cfg.nodes:
        for kind, site_, _k, val_, _r in K.dict_effects(node, set(), is_field):
            if kind == "rebind":
                rebind_at[node.id] = (site_, val_)
    drops = set()

    def later_binders(var, nid, fl):
        if nid not in after:
            after[nid] = cfg.reach({nid})
        return {b for b in binders.get(var, set()) & after[nid] if fl.reachable(b)}

    def field_fate(nid, fl):
        """what happens, from node nid on, to the object the field holds at nid:
        'kept' (never replaced), 'dropped' (replaced by a fresh object that owes
        nothing to it: what was stored is lost), 'unsure'"""
        dropping = []
        for b in sorted(later_binders(FIELD, nid, fl)):
            rb = rebind_at.get(b)
            if rb is not None and fl.field_nullness(b) == K.NULL_NONE:
                # lazy initialisation: the field holds None here, so the dictionary that was
                # stored into at nid is not what this assignment replaces (whatever put None
                # there is a binder of its own and judged on its own)
                continue
            if rb is None or rb[1] is None:
                return "unsure"
            val = rb[1]
            if is_field(val) or (isinstance(val, ast.Name) and val.id in fl.aliases(b)):
                continue  # assigns the object it already holds
            if any(is_field(x) for x in ast.walk(val)) or ({x.id for x in ast.walk(val) if isinstance(x, ast.Name)} & (may | fl.aliases(b))):
                return "unsure"  # may be a copy that carries the entries over
            dropping.append(id(rb[0]))
        drops.update(dropping)
        return "dropped" if dropping else "kept"

    effects = {}  # (kind, id(site), key text) -> [kind, site, key, value, node id, alive codes]
    unsure = {}
    for v, fl in flows.items():
        at_exit = fl.aliases(cfg.exit) if fl.reachable(cfg.exit) and is_plain_sync(fi) else set()
        for node in cfg.nodes:
            if not fl.reachable(node.id) or node.ast is None:
                continue
            here = fl.aliases(node.id)
            for kind, site_, key_, val_, recv in K.dict_effects(node, may | here | at_exit, is_field):
                if kind == "rebind":
                    ok = True
                elif kind == "escape":
                    ok = is_field(recv) or recv.id in here or recv.id in at_exit
                elif is_field(recv) or recv.id in here:
                    fate = field_fate(node.id, fl)
                    # 'dropped' is reported at the assignment that drops it; the store itself is in order
                    ok = fate != "unsure" or (not is_field(recv) and recv.id in at_exit and not later_binders(recv.id, node.id, fl))
                else:
                    ok = recv.id in at_exit and not later_binders(recv.id, node.id, fl)
                if ok:
                    rec = effects.setdefault((kind, id(site_), _txt(key_) if key_ is not None else None), [kind, site_, key_, val_, node.id, set()])
                    rec[5].add(v)
                elif kind != "escape":
                    unsure[id(site_)] = site_
    recs = sorted(effects.values(), key=lambda r: (r[4], r[0], _txt(r[2]) if r[2] is not None else ""))
    ctx.floor("stores to the peer's settings in _process_signaling", len([r for r in recs if r[0] in ("rebind", "set")]), 1)
    csm = SIGNALLING["CSM"]
    seen_keys = {}
    opaque = []
    for kind, st, key, val, nid, alive in recs:
        if kind == "rebind":
            # whatever is assigned is not None (in the state of every code that gets here),
            # and nothing but a CSM gets here
            nonnull = val is not None and all(flows[v].nullness(val, flows[v].inn[nid]) == K.NULL_OBJ for v in alive)
            ctx.ob("the peer's settings are assigned only on a CSM, and never None", nonnull and alive == {csm}, fi, st,
                   detail="codes %s, value %s" % (sorted(alive), _txt(val) if val is not None else None))
            ctx.ob("an assignment of the peer's settings does not discard options recorded before it", id(st) not in drops, fi, st)
        elif kind == "set":
            free = isinstance(key, ast.Name) and key.id not in params(fi, skip_self=False) and not writes_to_name(fi.node, key.id)
            alts = [key] if free else _possible_values(fi, cfg, key, nid)
            kvs = [_str_const(prog, fi, a_) if a_ is not None else None for a_ in alts or [None]]
            if len(kvs) != 1 or not isinstance(kvs[0], str):
                # a key that is computed (table lookup, several possible values): which
                # option writes which key cannot be read off the guards of the site
                opaque.append("key %s of %s" % (_txt(key), _txt(st)))
                continue
            seen_keys.setdefault(kvs[0], []).append((st, val, nid, alive))
        elif kind == "merge":
            opaque.append(_txt(st))
        elif kind == "other":
            ctx.ob("_remote_settings is only initialised and filled from CSM options", False, fi, st)
    escapes = [r[1] for r in recs if r[0] == "escape"]
    # "CSM received": at the normal exit of a CSM the field is not None on every path
    # (this is what makes the C15.d gate open after ANY CSM, with or without options);
    # for the other codes the rebind obligation above leaves the field as it was
    fl = flows[csm]
    exit_null = fl.field_nullness(cfg.exit) if fl.reachable(cfg.exit) else None
    ctx.ob("after a CSM the peer's settings are not None on every normal path", exit_null == K.NULL_OBJ, fi, fi.node, construct="_process_signaling: CSM received",
           detail="nullness of self._remote_settings at the normal exit: %s" % (exit_null or "no normal exit"))
    want_opts = {"max-message-size": 2, "block-wise-transfer": 4}
    missing = [key for key in sorted(want_opts) if key not in seen_keys]
    if missing and (opaque or unsure or escapes):
        # the keys may well be written, through something this rule cannot follow
        raise AnalysisError("the stores into the peer's settings cannot be followed: %s" % "; ".join(
            opaque + [_txt(x) for x in unsure.values()] + ["settings handed to %s" % _txt(x) for x in escapes]))
    for key, num in sorted(want_opts.items()):
        if key not in seen_keys:
            ctx.ob("CSM option %d is recorded as %r" % (num, key), False, fi, fi.node, construct="_process_signaling")
            continue
        for st, val, nid, alive in seen_keys[key]:
            _nid, _alive, lvs, nums, rest = site(st)
            ctx.ob("CSM option %d (and only it, only in a CSM) is recorded as %r" % (num, key), alive == {csm} and nums == {num} and len(lvs) == 1 and not rest, fi, st,
                   detail="codes %s, option numbers %s, further conditions %s" % (sorted(alive), sorted(nums), [_txt(g_) for g_, _ in rest]))
            if num == 2 and len(lvs) == 1:
                lv = next(iter(lvs))
                val_ = _resolve_at(fi, cfg, val, nid)
                b_ = match("int.from_bytes(%s.value, $*o, $**k)" % lv, val_)
                ok = b_ is not None and _bytes_order(val_, 1) == "big"
                ctx.ob("Max-Message-Size is read as a big-endian unsigned integer from the option value", ok, fi, st)
    for key in sorted(seen_keys):
        if key not in want_opts:
            ctx.note("additional setting recorded: %r" % (key,))
    if opaque or unsure:
        raise_later = "stores that may reach the peer's settings cannot be followed: %s" % "; ".join(opaque + [_txt(x) for x in unsure.values()])
    else:
        raise_later = None
    # readers of the settings use the keys written
    rcls = prog.cls("transports.rfc8323common.RFC8323Remote")
    read = 0

    def on_settings(e, fnode, depth=4):
        # the receiver is, or is computed from, the settings: `self._remote_settings`,
        # `(self._remote_settings or {})`, or a local that was bound from such an expression
        for x in ast.walk(e):
            if isinstance(x, ast.Attribute) and chain(x) == FIELD:
                return True
            if isinstance(x, ast.Name) and isinstance(x.ctx, ast.Load) and depth:
                r = resolve_local(fnode, x)
                if r is not x and on_settings(r, fnode, depth - 1):
                    return True
        return False

    for mname, mfi in sorted(rcls.methods.items()):
        # every spelling of a keyed read: .get(k[, d]), [k], `k in`
        for x in walk_no_nested(mfi.node):
            k = None
            if isinstance(x, ast.Call) and isinstance(x.func, ast.Attribute) and x.func.attr == "get" and x.args and on_settings(x.func.value, mfi.node):
                k = x.args[0]
            elif isinstance(x, ast.Subscript) and isinstance(x.ctx, ast.Load) and not isinstance(x.slice, ast.Slice) and on_settings(x.value, mfi.node):
                k = x.slice
            elif isinstance(x, ast.Compare) and len(x.ops) == 1 and isinstance(x.ops[0], (ast.In, ast.NotIn)) and on_settings(x.comparators[0], mfi.node):
                k = x.left
            if k is None:
                continue
            read += 1
            kv = _str_const(prog, mfi, resolve_local(mfi.node, k))
            ctx.ob("peer settings are read under a key that _process_signaling writes", kv is not None and kv in seen_keys, mfi, x)
    ctx.floor("reads of the peer settings", read, 2)

    # aborts
    aborts = [c_ for c_, _ in find("self.abort($*a, $**k)", fi.node)]
    crit_cover = set()
    unknown_cover = set()
    crit_other = {n for n in OPT_REPR if n % 2 == 1}
    for c_ in aborts:
        nid, alive, lvs, nums, rest = site(c_)
        if lvs:
            csm_known = {2, 4} if SIGNALLING["CSM"] in alive else set()
            ok = nums == crit_other and not rest
            ctx.ob("abort inside the option loop fires exactly for critical options that are not understood", ok, fi, c_,
                   detail="codes %s, option numbers (representatives) %s, further conditions %s" % (sorted(alive), sorted(nums), [_txt(g_) for g_, _ in rest]))
            if ok:
                crit_cover |= alive
        else:
            ok = alive == dom - known and not rest
            ctx.ob("abort outside the option loop fires exactly for unknown signalling codes", ok, fi, c_, detail="codes %s, further conditions %s" % (sorted(alive), [_txt(g_) for g_, _ in rest]))
            if ok:
                unknown_cover |= alive
    ctx.ob("an unknown critical option aborts in every known signalling message (CSM, Ping, Pong, Release, Abort)", known <= crit_cover, fi, fi.node, detail="covered codes %s" % sorted(crit_cover), construct="_process_signaling: critical option handling")
    ctx.ob("every unknown 7.xx code aborts", unknown_cover == dom - known, fi, fi.node, detail="covered codes %s" % sorted(unknown_cover), construct="_process_signaling: unknown code handling")

    # Ping -> Pong
    sends = [c_ for c_, _ in find("self._send_message($m)", fi.node)]
    ping_cover = set()
    for c_ in sends:
        nid, alive, lvs, nums, rest = site(c_)
        m = _resolve_at(fi, cfg, c_.args[0], nid)
        code = tok = None
        flds = _message_fields(prog, fi, cfg, c_.args[0], nid)
        if flds is not None:
            code = _code_member(prog, fi.module, flds["code"]) if flds.get("code") is not None else None
            tok = flds.get("token", flds.get("_token"))
        ok = alive == {SIGNALLING["PING"]} and not lvs and not rest
        ctx.ob("the only message sent from signalling processing answers a Ping, unconditionally", ok, fi, c_, detail="codes %s, further conditions %s" % (sorted(alive), [_txt(g_) for g_, _ in rest]))
        ctx.ob("the answer to Ping is a 7.03 Pong", code == SIGNALLING["PONG"], fi, c_, detail="message %s" % _txt(m))
        ctx.ob("the Pong carries the token of the Ping", tok is not None and chain(tok) == M + ".token", fi, c_, detail="token = %s" % (_txt(tok) if tok is not None else None))
        if ok:
            ping_cover |= alive
    ctx.ob("Ping is answered", SIGNALLING["PING"] in ping_cover, fi, fi.node, construct="_process_signaling: ping handling")

    # Release / Abort
    raises = [n for n in walk_no_nested(fi.node) if isinstance(n, ast.Raise)]
    close_cover = set()
    for r in raises:
        nid, alive, lvs, nums, rest = site(r)
        ex = r.exc
        cls = prog.resolve_in_module(fi.module, chain(ex.func)) if isinstance(ex, ast.Call) and chain(ex.func) else None
        inner = None
        if isinstance(ex, ast.Call) and len(ex.args) == 1 and not ex.keywords:
            # every value the argument may have here (a local assigned on several
            # branches, a conditional expression) must be the same kind of error
            alts = _possible_values(fi, cfg, ex.args[0], nid) or []
            kinds = {prog.resolve_in_module(fi.module, chain(a0.func)) if isinstance(a0, ast.Call) and chain(a0.func) else None for a0 in alts}
            if len(kinds) == 1:
                inner = kinds.pop()
        ok_cls = cls == "aiocoap.transports.rfc8323common.CloseConnection" and inner == "aiocoap.error.RemoteServerShutdown"
        ctx.ob("signalling processing raises only CloseConnection(RemoteServerShutdown(...)) with the error as single argument", ok_cls, fi, r, detail="raises %s(%s)" % (cls, inner))
        ok = alive <= {SIGNALLING["RELEASE"], SIGNALLING["ABORT"]} and bool(alive) and not lvs and not rest
        ctx.ob("the connection is given up only for Release and Abort, unconditionally", ok, fi, r, detail="codes %s, further conditions %s" % (sorted(alive), [_txt(g_) for g_, _ in rest]))
        if ok and ok_cls:
            close_cover |= alive
    ctx.ob("both Release and Abort from the peer close the connection with RemoteServerShutdown", close_cover == {SIGNALLING["RELEASE"], SIGNALLING["ABORT"]}, fi, fi.node, detail="covered codes %s" % sorted(close_cover),
           construct="_process_signaling: release/abort handling")
    for sub, base in (("aiocoap.error.RemoteServerShutdown", "aiocoap.error.NetworkError"), ("aiocoap.error.NetworkError", "aiocoap.error.Error")):
        prog.cls(sub[len("aiocoap."):])
        ctx.ob("%s derives from %s" % (sub.split(".")[-1], base.split(".")[-1]), prog.is_subclass(sub, base), None, None, construct="class %s" % sub.split(".")[-1])
    cc = prog.cls("transports.rfc8323common.CloseConnection")
    ctx.ob("CloseConnection is a plain Exception subclass (its .args[0] is the wrapped error)", prog.is_subclass(cc.qn, "Exception") and "__init__" not in cc.methods, None, None, construct="class CloseConnection")

    # data_received forwards the wrapped error and closes
    L = _frame_loop(ctx)
    dfi, dcfg = L.fi, L.cfg
    ctx.floor("_process_signaling sites in data_received", len(L.signalling), 1)
    for call in L.signalling:
        nid = dcfg.loc1(call)
        ctx.ob("the message given to signalling processing is the one just decoded", len(call.args) == 1 and not call.keywords and _is_decoded(L, call.args[0], nid), dfi, call)
        hs = [h for h, lab in dcfg.succ[nid] if lab == "exc" and dcfg.nodes[h].kind == "handler"]
        good = []
        for h in hs:
            hn = dcfg.nodes[h].ast
            types = [] if hn.type is None else (hn.type.elts if isinstance(hn.type, ast.Tuple) else [hn.type])
            if any(chain(t_) and prog.resolve_in_module(dfi.module, chain(t_)) == cc.qn for t_ in types):
                good.append(h)
        ctx.ob("CloseConnection from signalling processing is caught in data_received", len(good) == 1, dfi, call)
        for h in good:
            hn = dcfg.nodes[h].ast
            de = [c_ for c_ in calls_in(dfi.node) if isinstance(c_.func, ast.Attribute) and c_.func.attr == "_dispatch_error" and hn.name is not None
                  and len(c_.args) == 2 and not c_.keywords and chain(_resolve_at(dfi, dcfg, c_.args[0], dcfg.loc1(c_))) == "self"
                  and match("%s.args[0]" % hn.name, _resolve_at(dfi, dcfg, c_.args[1], dcfg.loc1(c_))) is not None]
            cl = _calls_on(dfi, dcfg, "self._transport", {"close", "abort"})
            stop = {L.E, dcfg.exit}
            ok_de = bool(de) and all(dcfg.must_pass(h, {dcfg.loc1(c_) for c_ in de}, to=t_) for t_ in stop)
            ok_cl = bool(cl) and all(dcfg.must_pass(h, {dcfg.loc1(c_) for c_ in cl}, to=t_) for t_ in stop)
            ctx.ob("on Release/Abort the wrapped RemoteServerShutdown is forwarded to _dispatch_error for this connection", ok_de, dfi, hn, construct="except %s" % _txt(hn.type))
            ctx.ob("on Release/Abort the transport is closed", ok_cl, dfi, hn, construct="except %s: close" % _txt(hn.type))
    pfi = prog.func(TCP + "_TCPPooling._dispatch_error")
    pp = params(pfi)
    ctx.need(len(pp) == 2 and not writes_to_name(pfi.node, pp[0]) and not writes_to_name(pfi.node, pp[1]), "_dispatch_error(self, connection, exc) signature changed")
    pcfg = cfg_of(pfi)
    tmfi = prog.func("tokenmanager.TokenManager.dispatch_error")
    tmp = params(tmfi)
    ctx.need(len(tmp) == 2, "TokenManager.dispatch_error(self, exception, remote) signature changed")
    fw = []
    for c_ in _calls_on(pfi, pcfg, "self._tokenmanager", {"dispatch_error"}):
        if any(isinstance(a_, ast.Starred) for a_ in c_.args) or any(k.arg is None for k in c_.keywords):
            continue
        bound = dict(zip(tmp, c_.args))
        bound.update({k.arg: k.value for k in c_.keywords})
        if set(bound) == set(tmp) and chain(_resolve_at(pfi, pcfg, bound[tmp[0]], pcfg.loc1(c_))) == pp[1] and chain(_resolve_at(pfi, pcfg, bound[tmp[1]], pcfg.loc1(c_))) == pp[0]:
            fw.append(c_)
    ctx.ob("_dispatch_error hands (error, connection) to the token manager", len(fw) >= 1, pfi, pfi.node, construct="_dispatch_error")
    for c_ in fw:
        nid = pcfg.loc1(c_)
        extra = []
        for g_, pol, ps in pcfg.guards(nid):
            nf = Normalizer().cmp(_resolve_at(pfi, pcfg, g_, _test_node_of(pcfg, ps))) if isinstance(g_, ast.expr) else None
            nf = nf if pol else (Normalizer().negate(nf) if nf else None)
            if nf != ("isnot", "self._tokenmanager", "None"):
                extra.append(_txt(g_) if isinstance(g_, ast.expr) else type(g_).__name__)
        ctx.ob("the error reaches the token manager whenever one is attached", not extra, pfi, c_, detail="further conditions: %s" % extra)
    allfw = {pcfg.loc1(c_) for c_ in fw}
    for n in pcfg.nodes:
        if n.kind in ("T", "F") and isinstance(n.ast, ast.expr):
            try:
                nf = Normalizer().cmp(_resolve_at(pfi, pcfg, n.ast, _test_node_of(pcfg, n.id)))
            except NormError:
                continue
            nf = nf if n.kind == "T" else Normalizer().negate(nf)
            if nf == ("isnot", "self._tokenmanager", "None"):
                ctx.ob("with a token manager attached every normal path forwards the error", pcfg.must_pass(n.id, allfw), pfi, n.ast)

    # our own CSM announces the limit the size gate enforces
    ifi, notes_ = K.simplified(prog, prog.func("transports.rfc8323common.RFC8323Remote._send_initial_csm"))
    for n_ in notes_:
        ctx.note("_send_initial_csm: %s" % n_)
    icfg = cfg_of(ifi)
    isends = [c_ for c_, _ in find("self._send_message($m)", ifi.node)]
    ctx.floor("_send_message sites in _send_initial_csm", len(isends), 1)
    for c_ in isends:
        nid = icfg.loc1(c_)
        a0 = c_.args[0]
        m = _resolve_at(ifi, icfg, a0, nid)
        code = None
        flds = _message_fields(prog, ifi, icfg, a0, nid)
        if flds is not None:
            code = _code_member(prog, ifi.module, flds["code"]) if flds.get("code") is not None else None
        ctx.ob("the initial message is a 7.01 CSM", code == SIGNALLING["CSM"], ifi, c_, detail="message %s" % _txt(m))
        # the option is added to the very message object that is sent (same reaching
        # definition of the local at both places), on every path to the send: the add
        # site dominates the send, or it is executed in every iteration of a `for`
        # over a literal sequence that dominates the send -- then each element of the
        # sequence is a value the added option takes (joint binding of the loop targets)
        found = False
        mdef = _def_stmt(ifi, icfg, a0, nid) if isinstance(a0, ast.Name) else None
        consts = _consts_of(prog, ifi)

        def for_of_name(nm, an):
            w = _def_stmt(ifi, icfg, nm, an)
            return w if isinstance(w, ast.For) else None

        def elements_of(f):
            return K.literal_elements(_resolve_at(ifi, icfg, f.iter, icfg.loc1(f)), consts)

        if mdef is not None:
            for ac in calls_in(ifi.node):
                if not (isinstance(ac.func, ast.Attribute) and ac.func.attr == "add_option" and isinstance(ac.func.value, ast.Attribute) and ac.func.value.attr == "opt"
                        and len(ac.args) == 1 and not ac.keywords):
                    continue
                an = icfg.loc1(ac)
                recv = ac.func.value.value
                if not (isinstance(recv, ast.Name) and _def_stmt(ifi, icfg, recv, an) is mdef):
                    continue
                o = _resolve_at(ifi, icfg, ac.args[0], an)
                for alt, idx in K.loop_alternatives(o, lambda nm: for_of_name(nm, an), elements_of):
                    if not _is_mms_option(prog, ifi, alt):
                        continue
                    loops = [f for f in ast.walk(ifi.node) if isinstance(f, ast.For) and id(f) in idx]
                    if not loops:
                        always = icfg.dominates(an, nid)
                    else:
                        always = len(loops) == 1 and K.runs_every_iteration(icfg, loops[0], an) and all(icfg.dominates(h_, nid) for h_ in icfg.locate(loops[0])) \
                            and an not in icfg.reach({nid})
                    if always:
                        found = True
        ctx.ob("the CSM announces option 2 Max-Message-Size = self._my_max_message_size (the limit the size gate enforces)", found, ifi, c_)
    mfi = prog.func(TCP + "TcpConnection.connection_made")
    mcfg = cfg_of(mfi)
    ic = [mcfg.loc1(c_) for c_, _ in find("self._send_initial_csm()", mfi.node)]
    ctx.ob("connection_made sends the CSM on every normal path", bool(ic) and mcfg.must_pass(mcfg.entry, ic), mfi, mfi.node, construct="connection_made")
    if raise_later:
        raise AnalysisError(raise_later)


# ---------------------------------------------------------------------------
# C15.h  dispatch table: data_received (after framing) composed with _dispatch_incoming


EFFECT_NAMES = ("process_request", "process_response", "_process_signaling", "abort")


def _decoded_is_message(ctx):
    """every returning path of _decode_message returns a freshly constructed Message"""
    r = getattr(ctx, "_c15_decoded_is_message", None)
    if r is None:
        prog = ctx.prog
        dfi = prog.func(TCP + "_decode_message")
        try:
            paths = _enumerate_paths(dfi.node, what="_decode_message", consts=_consts_of(prog, dfi))
            rets = [p for p in paths if p.kind == "return"]
            r = bool(rets) and all(p.value is not None and _is_message_ctor(prog, dfi, p.value) for p in rets)
        except AnalysisError:
            r = False
        ctx._c15_decoded_is_message = r
    return r


def _walk_effects(ctx, fi, cfg, start, stop, is_msg, v, csm, callees, depth=0):
    """All effect sequences on feasible non-exceptional paths from `start`
    until a node in `stop` or the normal exit, for code value v and
    CSM-seen = csm.  -> set of tuples of (effect name, fi, call node)."""
    prog = ctx.prog

    results = set()
    seen = set()
    todo = [(start, ())]
    while todo:
        nid, eff = todo.pop()
        if (nid, eff) in seen:
            continue
        seen.add((nid, eff))
        if len(seen) > 4000 or len(eff) > 6:
            raise AnalysisError("dispatch evaluation does not converge in %s" % fi.short)
        node = cfg.nodes[nid]
        if nid in stop or nid == cfg.exit:
            results.add(eff)
            continue

        def is_code(e, nid=nid):
            if isinstance(e, ast.Name):
                # a local holding the code (`code = msg.code`): its unique reaching definition
                w = _def_stmt(fi, cfg, e, nid)
                if isinstance(w, ast.Assign) and len(w.targets) == 1 and isinstance(w.targets[0], ast.Name) and isinstance(w.value, ast.Attribute):
                    wn = cfg.loc1(w)
                    return w.value.attr == "code" and is_msg(w.value.value, wn)
                return False
            return isinstance(e, ast.Attribute) and e.attr == "code" and is_msg(e.value, nid)

        def atomic(t):
            r = _eval_code_test(ctx, fi.module, t, is_code, v)
            if r is None and isinstance(t, ast.Compare) and len(t.ops) == 1 and isinstance(t.ops[0], (ast.Is, ast.IsNot, ast.Eq, ast.NotEq)):
                # `<decoded message> is None`: every returning path of _decode_message returns a
                # freshly constructed Message (premise checked by the caller), so it is not None
                l_, r_ = t.left, t.comparators[0]
                if isinstance(l_, ast.Constant) and l_.value is None:
                    l_, r_ = r_, l_
                if isinstance(r_, ast.Constant) and r_.value is None and is_msg(l_, nid) and _decoded_is_message(ctx):
                    r = isinstance(t.ops[0], (ast.IsNot, ast.NotEq))
            if r is None:
                try:
                    nf = Normalizer().cmp(t)
                except NormError:
                    nf = None
                if nf in (("is", "self._remote_settings", "None"), ("isnot", "self._remote_settings", "None")):
                    r = (not csm) if nf[0] == "is" else csm
                elif nf == ("truth", "self._remote_settings") and not csm:
                    r = False
            return r

        def tri(t):
            """three-valued truth of a (possibly compound) test for this code value / CSM state"""
            if isinstance(t, ast.UnaryOp) and isinstance(t.op, ast.Not):
                r = tri(t.operand)
                return None if r is None else not r
            if isinstance(t, ast.BoolOp):
                rs = [tri(x) for x in t.values]
                if isinstance(t.op, ast.And):
                    return False if any(r is False for r in rs) else (True if all(r is True for r in rs) else None)
                return True if any(r is True for r in rs) else (False if all(r is False for r in rs) else None)
            return atomic(t)

        def callables(f, depth=0):
            """[(name, leading arguments)] of the functions a callee expression may
            denote here: a method / function name, either arm of a conditional
            expression (decided by the code value where it is about the code), a local
            bound to one of these, functools.partial(f, a...).  None = unknown."""
            if depth > 4:
                return None
            if isinstance(f, ast.Attribute):
                return [(f.attr, [])]
            if isinstance(f, ast.Name):
                r = _resolve_at(fi, cfg, f, nid)
                if isinstance(r, ast.Name):
                    return [(r.id, [])]
                return callables(r, depth + 1)
            if isinstance(f, ast.IfExp):
                r = tri(f.test)
                arms = [f.body, f.orelse] if r is None else [f.body if r else f.orelse]
                out = []
                for a_ in arms:
                    c_ = callables(a_, depth + 1)
                    if c_ is None:
                        return None
                    out.extend(c_)
                return out
            if isinstance(f, ast.Call) and chain(f.func) in ("functools.partial", "partial") and f.args and not f.keywords:
                c_ = callables(f.args[0], depth + 1)
                if c_ is None:
                    return None
                return [(nm_, list(f.args[1:]) + pre) for nm_, pre in c_]
            return None

        branches = [eff]
        if node.kind in ("stmt", "return", "with", "for") and node.ast is not None:
            root = node.ast.iter if node.kind == "for" else node.ast
            if node.kind == "with":
                root = ast.Tuple(elts=[it.context_expr for it in node.ast.items], ctx=ast.Load())
            for call in [x for x in walk_no_nested(root) if isinstance(x, ast.Call)]:
                cands = callables(call.func)
                if cands is None:
                    if any(is_msg(a_, nid) for a_ in call.args) or any(is_msg(k.value, nid) for k in call.keywords):
                        raise AnalysisError("the message is handed to %s, which the dispatch evaluation does not know" % _txt(call.func))
                    continue
                nbranches = []
                for nm, pre in cands:
                    args = pre + list(call.args)
                    passes_msg = any(is_msg(a_, nid) for a_ in args) or any(is_msg(k.value, nid) for k in call.keywords)
                    if nm in EFFECT_NAMES and (passes_msg or nm == "abort"):
                        nbranches += [e_ + ((nm, fi, call),) for e_ in branches]
                    elif nm in callees and passes_msg:
                        cfi = callees[nm]
                        ctx.need(depth < 2, "dispatch nesting deeper than expected")
                        cp = params(cfi)
                        idx = [i for i, a_ in enumerate(args) if is_msg(a_, nid)]
                        ctx.need(len(idx) == 1 and idx[0] < len(cp) and not call.keywords, "cannot map the message argument of %s" % _txt(call))
                        pname = cp[idx[0]]
                        ctx.need(not writes_to_name(cfi.node, pname), "%s rebinds its message parameter" % cfi.short)
                        ccfg = cfg_of(cfi)
                        sub = _walk_effects(ctx, cfi, ccfg, ccfg.entry, set(), lambda e_, _n, pname=pname: isinstance(e_, ast.Name) and e_.id == pname, v, csm, callees, depth + 1)
                        nbranches += [e_ + s_ for e_ in branches for s_ in sub]
                    elif passes_msg and not is_log_call(call) and nm not in ("debug", "info", "warning") and not (nm == "partial" or chain(call.func) == "functools.partial"):
                        raise AnalysisError("the message is handed to %s, which the dispatch evaluation does not know" % _txt(call.func))
                    else:
                        nbranches += branches
                branches = nbranches
        for eff2 in branches:
            if node.kind == "test":
                r = atomic(node.ast)
                for d, lab in cfg.succ[nid]:
                    if lab == "exc":
                        continue
                    if r is None or (lab == "T") == r:
                        todo.append((d, eff2))
            else:
                for d, lab in cfg.succ[nid]:
                    if lab != "exc":
                        todo.append((d, eff2))
    return results


CLASS_ROWS = [
    ("EMPTY", [0]),
    ("request", list(range(1, 32))),
    ("response", list(range(64, 192))),
    ("signalling", list(range(224, 256))),
    ("other (reserved classes)", list(range(32, 64)) + list(range(192, 224))),
]


def _allowed(cls, csm):
    """Reference dispatch table: predicate on the tuple of effect names of a path."""
    if cls == "signalling":
        return lambda names: names == ("_process_signaling",), "signalling processing only"
    if not csm:
        if cls == "EMPTY":
            return lambda names: names in ((), ("abort",)), "nothing (or abort)"
        return lambda names: names == ("abort",), "abort only"
    if cls == "EMPTY":
        return lambda names: names == (), "no effect at all"
    if cls == "request":
        return lambda names: names == ("process_request",), "process_request exactly once"
    if cls == "response":
        return lambda names: names == ("process_response",), "process_response exactly once"
    return lambda names: names in ((), ("abort",), ("process_request",)), "never response processing, never signalling processing"


@R.clause("C15.h", "dispatch by code class for every code value 0..255 x CSM seen / not seen; empty messages have no effect")
def h(ctx):
    prog = ctx.prog
    L = _frame_loop(ctx)
    fi, cfg = L.fi, L.cfg
    for name, (vals, mfi) in sorted(_code_sets(ctx).items()):
        ctx.need(vals == CODE_CLASSES[name], "Code.%s does not have its RFC meaning (see C15.g); the dispatch table is not evaluated" % name)
    pfi = prog.func(TCP + "_TCPPooling._dispatch_incoming")
    ctx.need(is_plain_sync(pfi), "_dispatch_incoming is not a plain synchronous function")
    callees = {"_dispatch_incoming": pfi}

    memo = {}

    def is_msg(e, nid):
        if not isinstance(e, ast.Name):
            return False
        if (e.id, nid) not in memo:
            memo[(e.id, nid)] = _is_msg(e, nid)
        return memo[(e.id, nid)]

    def _is_msg(e, nid):
        # the local holding the decoded message: its reaching definition at
        # the point of use is the assignment from _decode_message (or a copy of it)
        if nid is None:
            return any(_is_decoded(L, e, n_) for w in writes_to_name(fi.node, e.id) for n_ in cfg.locate(w))
        return _is_decoded(L, e, nid)

    # tests on `<msg>.code` must see the decoded message, not the raw frame
    starts = [d for d, lab in cfg.succ[L.DEC] if lab != "exc"]
    ctx.need(len(starts) >= 1, "no normal successor of the decoding statement")
    exhaustive = 0
    table = {}
    for cls, values in CLASS_ROWS:
        for csm in (True, False):
            pred, text = _allowed(cls, csm)
            bad = None
            outcomes = set()
            for v in values:
                effs = set()
                for s in starts:
                    effs |= _walk_effects(ctx, fi, cfg, s, {L.E}, is_msg, v, csm, callees)
                exhaustive += 1
                ctx.need(effs, "no feasible path for code %d" % v)
                for eff in sorted(effs, key=lambda t: [x[0] for x in t]):
                    names = tuple(x[0] for x in eff)
                    outcomes.add(names)
                    if not pred(names) and bad is None:
                        bad = (v, eff, names)
            table["%s / CSM %s" % (cls, "seen" if csm else "not seen")] = sorted(" + ".join(n) if n else "-" for n in outcomes)
            desc = "code class %s, peer CSM %s: %s" % (cls, "received" if csm else "not yet received", text)
            if bad is None:
                ctx.ob(desc, True, fi, L.dec, construct="dispatch row %s/%s" % (cls, "csm" if csm else "no-csm"))
            else:
                v, eff, names = bad
                # pin to the first effect that the reference table does not allow
                culprit = None
                for i in range(len(eff)):
                    if pred(names[:i] + names[i + 1:]):
                        culprit = eff[i]
                        break
                if culprit is None and eff:
                    culprit = eff[-1]
                if culprit is not None:
                    ctx.ob(desc, False, culprit[1], culprit[2], detail="a message with code %d takes a path with effects %s" % (v, list(names) or "none"))
                else:
                    ctx.ob(desc, False, fi, L.dec, detail="a message with code %d takes a path with no effect" % v, construct="dispatch row %s/%s" % (cls, "csm" if csm else "no-csm"))
    ctx.extra["exhaustive"] = True
    ctx.extra["dispatch_table"] = table
    ctx.extra["dispatch_valuations_evaluated"] = exhaustive


# ---------------------------------------------------------------------------
# C15.j  constructor arguments and the attributes the stream transport reads
#
# C15.b (reader), C15.f (Abort) and C15.g (Pong) read `Message(code=c, token=t)` /
# `Message(_token=t)` as "this message has code c and token t"; _serialize and the
# dispatcher read the *attributes* .code and .token.  The two meet in
# Message.__init__: this clause evaluates the constructor, with the checker's own
# path evaluator in object mode, for every Message(...) construction of the stream
# transport modules (arguments as opaque symbols, defaults filled in) and requires
# that on every feasible path that completes, the attribute holds the argument.
# Nothing is assumed about how the constructor is written (deprecation shims,
# public / underscore spellings, helper functions, conditional expressions,
# `a or b`); what is compared is the final value of the attribute.

STREAM_MODULES = ("aiocoap.transports.tcp", "aiocoap.transports.rfc8323common")
# attribute read by _serialize / the dispatcher -> constructor arguments that claim it
# (the public name and the library's underscore spelling, as C15.b/f/g read them)
CTOR_CLAIMS = (("code", ("code", "_code")), ("token", ("token", "_token")))


def _implied_empty(conds, sym):
    """the path conditions say that the (bytes) symbol is empty: `not sym`,
    `len(sym) == 0`, `len(sym) < 1`, ... in any polarity / operand order"""
    N = Normalizer()
    for t, pol in conds:
        try:
            conjs = _dnf_of_conds(N, [(t, pol)])
        except (NormError, AnalysisError):
            continue
        try:
            if conjs and all(_interval(conj, "len(%s)" % sym, truth_of=sym)[1] <= 0 for conj in conjs):
                return True
        except (NormError, AnalysisError, TypeError):
            continue
    return False


def _holds_argument(prog, init, v, sym, conds, field, facts):
    """True / False / None (cannot tell): on a path with conditions `conds` the
    final value v of attribute `field` is the constructor argument `sym`.

    Accepted as "the argument" (each implies that what _serialize writes and the
    dispatcher compares is the argument's value):
      * the symbol itself;
      * for the code: IntEnumClass(sym) / int(sym) -- the member (or pseudo-member)
        constructed from a value has that integer value, and the code is only ever
        used as an integer (bytes((msg.code,)), comparisons, is_*() range tests);
      * for the token: bytes(sym) of a bytes object;
      * a constant c when the path conditions say sym == c (sym is None), when the
        argument at the site is that constant, or -- tokens are bytes objects -- the
        empty bytes constant when the conditions say that sym is empty / falsy."""
    if v is None:
        return False
    if isinstance(v, ast.Name):
        if v.id == sym:
            return True
        return None if v.id.startswith("UNKNOWN__") else False
    if isinstance(v, ast.Constant):
        if any(c == v.value and type(c) is type(v.value) for (c,) in K.implied_constant(conds, sym)):
            return True
        if sym in facts and facts[sym] == v.value and (isinstance(facts[sym], int) == isinstance(v.value, int)):
            return True
        if field == "token" and isinstance(v.value, bytes) and v.value == b"" and _implied_empty(conds, sym):
            return True
        return False
    if isinstance(v, ast.Call) and len(v.args) == 1 and not v.keywords and chain(v.func):
        q = prog.resolve_in_module(init.module, chain(v.func))
        if (field == "code" and (q == "int" or "enum.IntEnum" in prog.mro(q))) or (field == "token" and q == "bytes"):
            return _holds_argument(prog, init, v.args[0], sym, conds, field, facts)
    mentions = any(isinstance(x, ast.Name) and x.id == sym for x in ast.walk(v))
    if not mentions:
        return None if any(isinstance(x, ast.Name) and x.id.startswith("UNKNOWN__") for x in ast.walk(v)) else False
    if sym in facts:
        # the argument is a known constant at this site: the checker's own evaluator decides
        try:
            got = norm.consteval(_subst(v, {sym: ast.Constant(value=facts[sym])}))
        except NormError:
            return None
        return bool(got == facts[sym] and isinstance(got, int) == isinstance(facts[sym], int))
    return None


@R.clause("C15.j", "the code / token a message of the stream transport is constructed with (Pong, Abort, CSM, Release, every decoded frame) is what Message.__init__ leaves in the attribute _serialize writes and the dispatcher reads")
def j(ctx):
    prog = ctx.prog
    mcls = prog.cls("message.Message")
    init = prog.lookup_method(mcls.qn, "__init__")
    ctx.need(init is not None and init.qn == mcls.qn + ".__init__", "Message has no __init__ of its own")
    ctx.need(is_plain_sync(init), "Message.__init__ is not a plain function")
    allp = params(init, skip_self=False)
    ctx.need(bool(allp), "Message.__init__ has no receiver parameter")
    me = allp[0]
    ctx.need(not writes_to_name(init.node, me), "Message.__init__ rebinds its receiver")
    # .code / .token are plain instance attributes: no descriptor of that name, no
    # attribute hook between `self.x = v` and a later `msg.x`
    for q in prog.mro(mcls.qn):
        if not q.startswith("aiocoap."):
            continue
        ci = prog.cls(q[len("aiocoap."):])
        for fld, _claims in CTOR_CLAIMS:
            ctx.need(fld not in ci.methods and fld not in ci.attrs, "%s.%s is a class-level attribute / descriptor: what a store to it does is outside this clause" % (ci.qn, fld))
        for hook in ("__setattr__", "__getattr__", "__getattribute__", "__slots__"):
            ctx.need(hook not in ci.methods and hook not in ci.attrs, "%s defines %s" % (ci.qn, hook))

    def effects(call):
        f = call.func
        if chain(f) and prog.resolve_in_module(init.module, chain(f)) == "warnings.warn":
            return set()  # formats its arguments, stores nothing
        if isinstance(f, ast.Attribute) and isinstance(f.value, ast.Name) and f.value.id == me:
            return K.receiver_stores(prog, mcls.qn, f.attr)
        if isinstance(f, ast.Name) and f.id in ("setattr", "delattr") and len(call.args) >= 2 and isinstance(call.args[0], ast.Name) and call.args[0].id == me \
                and isinstance(call.args[1], ast.Constant) and isinstance(call.args[1].value, str) and not any(
                    isinstance(x, ast.Name) and x.id == me for a_ in call.args[2:] for x in ast.walk(a_)):
            return {call.args[1].value}
        return None

    sites = []
    for fi in prog.funcs.values():
        if fi.module.name in STREAM_MODULES:
            for n in walk_with_lambdas(fi.node):
                if isinstance(n, ast.Call) and _is_message_ctor(prog, fi, n):
                    sites.append((fi, n))
    ctx.note("Message constructions in the stream transport: %d" % len(sites))
    checked = 0
    open_ = []
    for fi, call in sites:
        what = "Message.__init__ for %s in %s" % (_txt(call), fi.short)
        try:
            env0, symbols, by_kw = K.bind_call(init.node, call, what=what)
        except AnalysisError as ex:
            open_.append(str(ex))  # decided last: the other sites are still evaluated
            continue
        claims = []
        for fld, names in CTOR_CLAIMS:
            ks = [k_ for k_ in names if k_ in by_kw]
            if ks:
                ctx.need(len(ks) == 1, "%s gives both spellings %s of one field" % (_txt(call), ks))
                claims.append((fld, ks[0]))
        if not claims:
            continue
        # what is known about the arguments at the site: constants, members of Code
        cfg = cfg_of(fi)
        ids = cfg.locate(call)
        facts = {}
        for s_, e_ in symbols.items():
            r = _resolve_at(fi, cfg, e_, ids[0]) if ids else e_
            cv = _code_member(prog, fi.module, r)
            if cv is not None:
                facts[s_] = cv
            elif isinstance(r, ast.Constant):
                facts[s_] = r.value
        try:
            paths = K.enumerate_paths(init.node, what=what, consts=_consts_of(prog, init), env0=env0, obj=me, effects=effects)
        except AnalysisError as ex:
            open_.append(str(ex))
            continue
        live = []
        for p in paths:
            if p.kind != "return":
                continue  # the construction fails: no message
            dead = False
            for t, pol in p.conds:
                tv = K.truth3(t, facts)
                if tv is not None and tv != pol:
                    dead = True
            if not dead:
                live.append(p)
        if not live:
            open_.append("%s: no feasible path completes" % what)
            continue
        back = {s_: e_ for s_, e_ in symbols.items()}
        for fld, kw in claims:
            sym = by_kw[kw]
            bad = None
            undecided = False
            for p in live:
                v = p.env.get("%s.%s" % (me, fld), p.env.get(me + ".*"))
                r = _holds_argument(prog, init, v, sym, p.conds, fld, facts)
                if r is None:
                    undecided = True
                    open_.append("%s: cannot tell whether %s is the argument %s" % (what, _txt(_subst(v, back)) if v is not None else None, kw))
                elif not r:
                    bad = (p, v)
                    break
            checked += 1
            if bad is None and undecided:
                continue  # undecided at this site: reported as analysis error below, after every other site has been decided
            detail = None
            if bad is not None:
                p, v = bad
                detail = "%s=%s; when %s the constructor leaves .%s = %s" % (
                    kw, _txt(symbols[sym]), " and ".join(("" if pol else "not ") + "(" + _txt(_subst(t, back)) + ")" for t, pol in p.conds) or "always",
                    fld, _txt(_subst(v, back)) if v is not None else "<never assigned>")
            ctx.ob("the constructor argument %s= ends up unchanged in the attribute .%s of the new message" % (kw, fld), bad is None, fi, call, detail=detail)
    ctx.need(not open_, "; ".join(open_[:4]))
    ctx.floor("code / token arguments of Message constructions in the stream transport", checked, 1)


# ---------------------------------------------------------------------------
# C15.k  the limit of the size gate is the limit that was announced
#
# C15.d decides "a frame above self._my_max_message_size aborts", C15.g decides "the CSM announces
# Max-Message-Size = self._my_max_message_size".  Both read the attribute at different times (the CSM once in
# connection_made, the gate for every frame), so "the endpoint aborts exactly the frames above the maximum it
# announced" additionally needs the attribute to have ONE value over the life of the connection.  That is decided
# on the definition the attribute resolves to along the MRO of the connection class, whatever its spelling:
#   * a class-level constant, an instance attribute stored in constructors only, or a property / cached property
#     whose body reads only attributes that are themselves time-invariant (recursively) -- accepted: the value read
#     at the gate is the value read at the announcement;
#   * any store to the attribute outside a constructor, or a property body that reads an attribute of the connection
#     that is stored outside constructors (peer settings, counters, transport state) -- violation: the value at the
#     gate is a function of state that changes after the announcement went out;
#   * a property body the rule cannot read (calls into methods, setters, deleters) -- refused.


def _ctor_name(short):
    return short.split(".")[-1] in ("__init__", "__new__", "__post_init__", "__init_subclass__")


def _attr_definition(prog, clsqn, attr):
    """(kind, ClassInfo, payload) of the first definition of `attr` along the MRO: ('property', ci, [FunctionDef...]) |
    ('method', ci, [..]) | ('value', ci, expr) | (None, None, None)."""
    for q in prog.mro(clsqn):
        ci = prog.classes.get(q)
        if ci is None:
            continue
        defs = [n for n in ci.node.body if isinstance(n, (ast.FunctionDef, ast.AsyncFunctionDef)) and n.name == attr]
        if defs:
            decos = [chain(d) or _txt(d) for n in defs for d in n.decorator_list]
            plain = all(x.split(".")[-1] in ("property", "cached_property") for x in decos) and len(defs) == 1 and decos
            return ("property" if plain else "method"), ci, defs
        if attr in ci.attrs:
            return "value", ci, ci.attrs[attr]
    return None, None, None


def _time_invariant(ctx, clsqn, attr, hierarchy, seen, trail):
    """None when self.<attr> has one value from the end of construction on; else (FuncInfo or None, node, reason).
    Raises AnalysisError on definitions that cannot be read."""
    prog = ctx.prog
    if attr in seen:
        return None
    seen.add(attr)
    late = []
    early = 0
    for short, hits in sorted(field_writers(prog, attr).items()):
        wfi = prog.func(short)
        owner = wfi
        while owner is not None and owner.cls is None:
            owner = owner.parent
        # a store through another receiver in an unrelated class is a different object's attribute
        related = owner is None or owner.cls.qn in hierarchy or clsqn in prog.mro(owner.cls.qn)
        for kind, node in hits:
            recv_self = any(isinstance(n, ast.Attribute) and n.attr == attr and isinstance(n.value, ast.Name) and n.value.id in ("self", "cls") for n in ast.walk(node))
            if not related and recv_self:
                continue
            if _ctor_name(short) and wfi.parent is None and recv_self:
                early += 1
            else:
                late.append((wfi, node, kind))
    if late:
        wfi, node, kind = late[0]
        return wfi, node, "%s is stored (%s) in %s, after the connection was set up" % (" > ".join(trail + ["self." + attr]), kind, wfi.short)
    kind, ci, payload = _attr_definition(prog, clsqn, attr)
    if kind is None:
        if early:
            return None
        raise AnalysisError("C15.k: no definition of %s found along the MRO of %s" % (attr, clsqn))
    if kind == "value":
        for n in ast.walk(payload):
            if isinstance(n, (ast.Call, ast.Lambda, ast.Await)) :
                fn = chain(n.func) if isinstance(n, ast.Call) else None
                if fn in ("int", "min", "max", "len", "pow", "abs", "float", "bool", "str", "bytes", "frozenset", "tuple"):
                    continue
                raise AnalysisError("C15.k: class-level value of %s is computed by a call the rule does not read: %s" % (attr, _txt(payload)))
        return None
    if kind == "method":
        raise AnalysisError("C15.k: %s.%s is defined by a method with decorators / accessors the rule does not read (%s)" % (
            ci.qn, attr, ", ".join(sorted({chain(d) or _txt(d) for n in payload for d in n.decorator_list})) or "plain method"))
    fnode = payload[0]
    if all((chain(d) or "").split(".")[-1] == "cached_property" for d in fnode.decorator_list):
        # computed at the first read and kept: the announcement in connection_made is a read that precedes every
        # size gate, and no store replaces the cached value (no late writer, checked above)
        return None
    if isinstance(fnode, ast.AsyncFunctionDef):
        raise AnalysisError("C15.k: %s.%s is an async property" % (ci.qn, attr))
    a = fnode.args
    first = (a.posonlyargs + a.args)[0].arg if (a.posonlyargs + a.args) else None
    ctx.need(first is not None, "C15.k: property %s.%s takes no receiver" % (ci.qn, attr))
    pfi = ci.methods.get(attr)
    reads = []
    opaque = []
    for n in ast.walk(fnode):
        if n in fnode.decorator_list:
            continue
        if isinstance(n, ast.Attribute) and isinstance(n.value, ast.Name) and n.value.id == first:
            reads.append(n)
        elif isinstance(n, ast.Attribute) and isinstance(n.value, ast.Call) and chain(n.value.func) == "type" and len(n.value.args) == 1 \
                and isinstance(n.value.args[0], ast.Name) and n.value.args[0].id == first:
            reads.append(n)
        elif isinstance(n, ast.Attribute) and isinstance(n.value, ast.Attribute) and n.value.attr == "__class__" and isinstance(n.value.value, ast.Name) and n.value.value.id == first:
            reads.append(n)
        elif isinstance(n, ast.Name) and n.id == first and isinstance(n.ctx, ast.Load):
            pass
        if isinstance(n, (ast.Global, ast.Nonlocal, ast.Yield, ast.YieldFrom, ast.Await)):
            opaque.append(n)
    # the receiver itself must not leak into anything but attribute reads (a call `f(self)` could read any state)
    attr_bases = {id(n.value) for n in reads} | {id(n.value.args[0]) for n in reads if isinstance(n.value, ast.Call)} | {id(n.value.value) for n in reads if isinstance(n.value, ast.Attribute)}
    for n in ast.walk(fnode):
        if isinstance(n, ast.Name) and n.id == first and isinstance(n.ctx, ast.Load) and id(n) not in attr_bases:
            opaque.append(n)
    for n in reads:
        if n.attr == "__class__":
            continue
        bad = _time_invariant(ctx, clsqn, n.attr, hierarchy, seen, trail + ["%s.%s" % (ci.qn.split(".")[-1], attr)])
        if bad is not None:
            return (pfi, n, bad[2]) if pfi is not None else bad
    # methods of the connection called from the property: not read
    for n in ast.walk(fnode):
        if isinstance(n, ast.Call) and isinstance(n.func, ast.Attribute) and isinstance(n.func.value, ast.Name) and n.func.value.id == first:
            k2, _, _ = _attr_definition(prog, clsqn, n.func.attr)
            if k2 in ("method", "property"):
                opaque.append(n)
    if opaque:
        raise AnalysisError("C15.k: the property %s.%s computes the limit in a way the rule does not read: %s" % (ci.qn, attr, _txt(opaque[0])))
    return None


@R.clause("C15.k", "the maximum message size the size gate enforces is the one the CSM announced: self._my_max_message_size has one value over the life of the connection")
def k(ctx):
    prog = ctx.prog
    fi = prog.func(TCP + "TcpConnection.data_received")
    clsqn = fi.cls.qn
    hierarchy = set(prog.mro(clsqn))
    attr = "_my_max_message_size"
    users = [f_.short for f_ in prog.funcs.values() if f_.cls is not None and f_.cls.qn in hierarchy
             and any(isinstance(n, ast.Attribute) and n.attr == attr and isinstance(n.ctx, ast.Load) for n in ast.walk(f_.node))]
    ctx.floor("functions of the connection class reading self.%s (size gate, CSM announcement)" % attr, len(users), 2)
    bad = _time_invariant(ctx, clsqn, attr, hierarchy, set(), [])
    kind, ci, payload = _attr_definition(prog, clsqn, attr)
    where = (ci.methods.get(attr) if kind == "property" else None)
    if bad is None:
        ctx.ob("self.%s is the same value at the CSM announcement and at the size gate of every later frame" % attr, True, where, payload[0] if kind == "property" else None,
               construct="%s.%s (%s)" % (ci.qn.split(".")[-1] if ci else clsqn.split(".")[-1], attr, kind or "instance attribute set in the constructor"))
    else:
        bfi, node, why = bad
        ctx.ob("self.%s is the same value at the CSM announcement and at the size gate of every later frame (a frame within the announced maximum must not be aborted, one above it must)" % attr,
               False, bfi, node, detail=why, construct=_txt(node)[:80])


# ---------------------------------------------------------------------------
# seeded faults (sensitivity self-test)

F_OPT = "aiocoap/options.py"

# C15.a
R.seed("C15.a", F_TCP, "    elif length < 269:\n", "    elif length < 268:\n", "writer breakpoint 269 -> 268")
R.seed("C15.a", F_TCP, "            offset = 269\n", "            offset = 268\n", "reader offset 269 -> 268")
R.seed("C15.a", F_TCP, "            extlen = 4\n", "            extlen = 2\n", "reader width 4 -> 2")
R.seed("C15.a", F_TCP, "(length - 65805).to_bytes(4, \"big\")", "(length - 65805).to_bytes(2, \"big\")", "writer width 4 -> 2")
R.seed("C15.a", F_TCP, "    elif length < 65805:\n", "    elif length <= 65805:\n", "writer breakpoint 65805 off by one")
R.seed("C15.a", F_TCP, "int.from_bytes(data[1 : 1 + extlen], \"big\") + offset", "int.from_bytes(data[1 : 1 + extlen], \"little\") + offset", "reader byte order")
R.seed("C15.a", F_TCP, "        if len(data) < extlen + 1:\n", "        if len(data) < extlen:\n", "size computed from a truncated extension")
R.seed("C15.a", F_TCP, "        tokenoffset = 2 + extlen\n", "        tokenoffset = 1 + extlen\n", "header size without the code byte")
R.seed("C15.a", F_TCP, "    tkl = data[0] & 0x0F\n", "    tkl = data[0] & 0x07\n", "token length read from 3 bits")
# C15.b
R.seed("C15.b", F_TCP, "    if tkl > 8:\n        raise error.UnparsableMessage", "    if tkl > 15:\n        raise error.UnparsableMessage", "reader accepts token lengths 9..15")
R.seed("C15.b", F_TCP, "    if tkl > 8:\n        raise ValueError", "    if tkl > 15:\n        raise ValueError", "writer accepts token lengths 9..15")
R.seed("C15.b", F_TCP, "        data_list += [b\"\\xff\", msg.payload]\n", "        data_list += [msg.payload]\n", "payload marker missing")
R.seed("C15.b", F_TCP, "    if msg.payload:\n        data_list +=", "    if msg.payload is not None:\n        data_list +=", "marker written for an empty payload")
R.seed("C15.b", F_TCP, "bytes(((length << 4) | tkl,))", "bytes(((tkl << 4) | length,))", "nibbles swapped in byte 0")
R.seed("C15.b", F_TCP, "    length, extlen = _encode_length(len(data))\n", "    length, extlen = _encode_length(len(data) + len(msg.token))\n", "Len counts the token")
R.seed("C15.b", F_TCP, "    code = data[tokenoffset - 1]\n", "    code = data[tokenoffset]\n", "code read one byte late")
R.seed("C15.b", F_TCP, "    token = data[tokenoffset : tokenoffset + tkl]\n", "    token = data[tokenoffset : tokenoffset + 8]\n", "token slice ignores tkl")
R.seed("C15.b", F_TCP, "    msg.payload = msg.opt.decode(data[tokenoffset + tkl :])\n", "    msg.payload = msg.opt.decode(data[tokenoffset:])\n", "token parsed as options")
# C15.c
R.seed("C15.c", F_TCP, "            self._spool = self._spool[msglen:]\n", "            self._spool = self._spool[msglen + 1 :]\n", "spool advanced by one byte too many")
R.seed("C15.c", F_TCP, "            msglen = sum(msglen)\n", "            msglen = msglen[0] + msglen[2]\n", "token length not counted")
R.seed("C15.c", F_TCP, "            if msglen > len(self._spool):\n                break\n", "            if msglen >= len(self._spool):\n                break\n", "complete frame kept waiting")
R.seed("C15.c", F_TCP, "            if msglen > len(self._spool):\n                break\n", "            if msglen > len(self._spool):\n                continue\n", "busy loop on an incomplete frame")
R.seed("C15.c", F_TCP, "            if msglen > len(self._spool):\n                break\n", "", "frame cut before it is complete")
R.seed("C15.c", F_TCP, "            self._spool = self._spool[msglen:]\n\n            if msg.code.is_signalling():", "            if msg.code.is_signalling():", "spool never advanced")
R.seed("C15.c", F_TCP, "        self._spool += data\n", "        self._spool = data\n", "earlier partial frame dropped")
# C15.d
R.seed("C15.d", F_TCP, "            if msglen > self._my_max_message_size:\n                self.abort(\"Overly large message announced\")\n                return\n", "", "size gate dropped")
R.seed("C15.d", F_TCP, "                self.abort(\"Overly large message announced\")\n                return\n", "                self.abort(\"Overly large message announced\")\n", "oversized frame still processed after Abort")
R.seed("C15.d", F_TCP, "            if self._remote_settings is None:\n                self.abort(\"No CSM received\")\n                return\n", "", "CSM gate dropped")
R.seed("C15.d", F_TCP, "            except error.UnparsableMessage:\n", "            except error.BadRequest:\n", "parse errors not caught")
R.seed("C15.d", F_TCP, "                self.abort(\"Failed to parse message\")\n                return\n", "                return\n", "unparsable frame silently dropped")
# C15.d over a framing loop that was split into loop + per-frame function: what a
# `return` of that function means is decided for the loop, not for the function
_ITER_TAIL = (
    "            msg = self._spool[:msglen]\n"
    "            try:\n"
    "                msg = _decode_message(msg)\n"
    "            except error.UnparsableMessage:\n"
    "                self.abort(\"Failed to parse message\")\n"
    "                return\n"
    "            msg.remote = self\n"
    "\n"
    "            self.log.debug(\"Received message: %r\", msg)\n"
    "\n"
    "            self._spool = self._spool[msglen:]\n"
    "\n"
    "            if msg.code.is_signalling():\n"
    "                try:\n"
    "                    self._process_signaling(msg)\n"
    "                except rfc8323common.CloseConnection as e:\n"
    "                    self._ctx._dispatch_error(self, e.args[0])\n"
    "                    self._transport.close()\n"
    "                continue\n"
    "\n"
    "            if self._remote_settings is None:\n"
    "                self.abort(\"No CSM received\")\n"
    "                return\n"
    "\n"
    "            self._ctx._dispatch_incoming(self, msg)\n"
)


def _per_frame(unparsable, no_csm, done):
    return (
        "    def _one_frame(self, chunk):\n"
        "        try:\n"
        "            msg = _decode_message(chunk)\n"
        "        except error.UnparsableMessage:\n"
        "            self.abort(\"Failed to parse message\")\n"
        "            return%s\n"
        "        msg.remote = self\n"
        "        if msg.code.is_signalling():\n"
        "            try:\n"
        "                self._process_signaling(msg)\n"
        "            except rfc8323common.CloseConnection as e:\n"
        "                self._ctx._dispatch_error(self, e.args[0])\n"
        "                self._transport.close()\n"
        "            return%s\n"
        "        if self._remote_settings is None:\n"
        "            self.abort(\"No CSM received\")\n"
        "            return%s\n"
        "        self._ctx._dispatch_incoming(self, msg)\n"
        "        return%s\n"
    ) % (unparsable, done, no_csm, done)


R.seed("C15.d", F_TCP, _ITER_TAIL,
       "            chunk = self._spool[:msglen]\n            self._spool = self._spool[msglen:]\n            self._one_frame(chunk)\n\n" + _per_frame("", "", ""),
       "per-frame function: abort-and-return only leaves the function, the loop goes on with the frames behind the bad one")
R.seed("C15.d", F_TCP, _ITER_TAIL,
       "            chunk = self._spool[:msglen]\n            self._spool = self._spool[msglen:]\n            if not self._one_frame(chunk):\n                return\n\n" + _per_frame(" False", " True", " True"),
       "per-frame function reports 'go on' after the No-CSM Abort")
R.seed("C15.d", F_TCP, _ITER_TAIL,
       "            chunk = self._spool[:msglen]\n            self._spool = self._spool[msglen:]\n            if chunk:\n                if self._one_frame(chunk):\n                    return\n\n" + _per_frame(" False", " False", " True"),
       "per-frame function (called inside an if): the loop stops after a good frame and goes on after an aborted one")
R.seed("C15.c", F_TCP, _ITER_TAIL,
       "            self._spool = self._spool[msglen:]\n            chunk = self._spool[:msglen]\n            if not self._one_frame(chunk):\n                return\n\n" + _per_frame(" False", " False", " True"),
       "frame cut after the spool was advanced (the bytes of the next frame are decoded)")
R.seed("C15.c", F_TCP, _ITER_TAIL,
       "            chunk = self._spool[:msglen]\n            if not self._one_frame(chunk):\n                return\n\n" + _per_frame(" False", " False", " True"),
       "per-frame function, spool never advanced")
# C15.e
R.seed("C15.e", "aiocoap/util/__init__.py", "        new_member = int.__new__(cls, value)\n", "        if value > 0xFFFF:\n            raise ValueError(value)\n        new_member = int.__new__(cls, value)\n", "an enum lookup hook (_missing_) rejects values: ValueError from Code(...) / OptionNumber(...) / ContentFormat(...) while parsing")
R.seed("C15.k", F_COMMON, "    _my_max_message_size = 1024 * 1024\n", "    _local_mms = 1024 * 1024\n\n    @property\n    def _my_max_message_size(self):\n        return self._local_mms if self._remote_settings is None else 1152\n", "the limit becomes a property of the peer's settings: smaller at the gate than announced")
R.seed("C15.k", F_COMMON, "            if self._remote_settings is None:\n                self._remote_settings = {}\n", "            if self._remote_settings is None:\n                self._remote_settings = {}\n                self._my_max_message_size = 1152\n", "the limit is lowered when the peer's CSM arrives, after the own CSM announced the larger one")
R.seed("C15.e", F_TCP, "        raise error.UnparsableMessage(\"Overly long token\")", "        raise ValueError(\"Overly long token\")", "foreign exception from _decode_message")
R.seed("C15.e", F_OPT, "                raise UnparsableMessage(\"Option announced but absent\")", "                raise IndexError(\"Option announced but absent\")", "foreign exception from option parsing")
# C15.f
R.seed("C15.f", F_TCP, "            self._send_message(abort_msg)\n            self._transport.close()\n", "            self._transport.close()\n            self._send_message(abort_msg)\n", "close() before send")
R.seed("C15.f", F_TCP, "            self._send_message(abort_msg)\n            self._transport.close()\n", "            self._send_message(abort_msg)\n", "connection left open after Abort")
R.seed("C15.f", F_COMMON, "        abort_msg = Message(code=ABORT)\n", "        abort_msg = Message(code=RELEASE)\n", "Release sent instead of Abort")
# C15.g
R.seed("C15.g", F_COMMON, "                pong = Message(code=PONG, token=msg.token)\n", "                pong = Message(code=PONG)\n", "Pong without token")
R.seed("C15.g", F_COMMON, "                if opt.number == 2:\n", "                if opt.number == 3:\n", "wrong CSM option number")
R.seed("C15.g", F_COMMON, "                elif opt.number.is_critical():\n                    self.abort(\"Option not supported\", bad_csm_option=opt.number)\n", "                elif opt.number.is_critical():\n                    pass\n", "unknown critical CSM option ignored")
R.seed("C15.g", F_COMMON, "                    error.RemoteServerShutdown(\"Peer released connection\")", "                    error.LibraryShutdown(\"Peer released connection\")", "Release reported with a non-network error")
R.seed("C15.g", F_COMMON, "            self.abort(\"Unknown signalling code\")\n", "            pass\n", "unknown 7.xx ignored")
R.seed("C15.g", F_TCP, "                    self._ctx._dispatch_error(self, e.args[0])\n                    self._transport.close()\n", "                    self._transport.close()\n", "pending requests not failed on Release/Abort")
R.seed("C15.g", F_TCP, "        self._tokenmanager.dispatch_error(exc, connection)\n", "        self._tokenmanager.dispatch_error(connection, exc)\n", "error and connection swapped")
R.seed("C15.g", F_COMMON, "        block_length = optiontypes.UintOption(2, self._my_max_message_size)\n", "        block_length = optiontypes.UintOption(2, 1152)\n", "the announced Max-Message-Size is not the limit the size gate enforces")
R.seed("C15.g", F_COMMON, "        my_csm.opt.add_option(block_length)\n", "        if self._my_max_message_size != 1152:\n            my_csm.opt.add_option(block_length)\n", "Max-Message-Size announced only on some paths")
R.seed("C15.g", F_COMMON, "                self._remote_settings = {}\n", "                pass\n", "a CSM no longer marks the peer's settings as received")
R.seed("C15.g", F_COMMON, "            if self._remote_settings is None:\n                self._remote_settings = {}\n", "            if self._remote_settings is None and msg.opt.option_list():\n                self._remote_settings = {}\n", "a CSM without options does not count as received")
R.seed("C15.g", F_COMMON, "        if msg.code == CSM:\n            if self._remote_settings is None:\n                self._remote_settings = {}\n", "        if self._remote_settings is None:\n            self._remote_settings = {}\n        if msg.code == CSM:\n", "any signalling message marks the CSM as received")
R.seed("C15.g", F_COMMON, "                    self._remote_settings[\"block-wise-transfer\"] = True\n", "                    self._remote_settings = {\"block-wise-transfer\": True}\n", "Block-Wise-Transfer option forgets the Max-Message-Size recorded before")
R.seed("C15.g", "aiocoap/numbers/optionnumbers.py", "        return self & 0x01 == 0x01\n", "        return self & 0x02 == 0x02\n", "criticality read from the wrong bit")
R.seed("C15.g", F_COMMON, "max_message_size = (self._remote_settings or {}).get(\"max-message-size\", 1152)\n        has_blockwise = (self._remote_settings or {}).get(\"block-wise-transfer\", False)\n        if max_message_size > 1152 and has_blockwise:\n            return 7", "max_message_size = (self._remote_settings or {}).get(\"max_message_size\", 1152)\n        has_blockwise = (self._remote_settings or {}).get(\"block-wise-transfer\", False)\n        if max_message_size > 1152 and has_blockwise:\n            return 7", "peer setting read under a key that is never written")
# C15.e (the membership premise must not exempt an unguarded read)
R.seed("C15.e", F_OPT, "        self._options.setdefault(option.number, []).append(option)\n", "        self._options[option.number].append(option)\n", "KeyError from an unguarded dict read while parsing options")
# C15.h
R.seed("C15.h", F_TCP, "        if msg.code.is_response():\n            self._tokenmanager.process_response(msg)", "        if msg.code.is_request():\n            self._tokenmanager.process_response(msg)", "requests and responses swapped")
R.seed("C15.h", F_TCP, "            if msg.code.is_signalling():\n", "            if msg.code >= 225:\n", "7.00 treated as a request")
R.seed("C15.h", F_TCP, "(RFC 8323 Section 3.4)\n            return\n", "(RFC 8323 Section 3.4)\n            pass\n", "empty message falls through (the repaired F5 re-introduced; skipped while the tree is unrepaired)")

F_MSG = "aiocoap/message.py"
R.seed("C15.j", F_MSG, "        self.token = _token\n", "        self.token = token\n", "the decoder's _token= argument is dropped: every received message has an empty token")
R.seed("C15.j", F_MSG, "            _token = token\n", "            _token = _token\n", "the deprecated token= argument (used for the Pong) is warned about and dropped")
R.seed("C15.j", F_MSG, "        if code is None:\n", "        if not code:\n", "a frame with code 0.00 becomes a message without code")
R.seed("C15.j", F_MSG, "            self.code = Code(code)\n", "            self.code = Code(code & 0x1F)\n", "the code class bits are lost in the constructor")

R.seed("C15.i", "aiocoap/tokenmanager.py", "                    lambda request=request, exception=exception: request.add_exception(\n                        exception\n                    )", "                    lambda: request.add_exception(\n                        exception\n                    )", "only the last pending request receives RemoteServerShutdown")
