"""Semantic helpers for C14 (NSTART=1 bookkeeping of MessageManager).

Everything here looks at *what a construct does*, never at how it is spelled:

* `Scope`        -- def-use of one function: scope-aware resolution of a Name occurrence to its binding(s)
                   (comprehension variables, for targets with their tuple path, assignments, walrus, parameters).
* `table_ops`    -- every mutation of a dict-valued field (`self._backlogs`) or of one of its element values
                   (the per-remote queue), through any alias (`q = d[k]`, `q = d.get(k)`, `q = d.setdefault(k, [])`,
                   `q = d.get(k) if c else None`, walrus, `for q in d.values()`), in any spelling (`d[k] = v`,
                   `d.setdefault`, `d.update`, `del d[k]`, `d.pop`, `d.popitem`, `d.clear`, rebinding; `q.append`,
                   `q.insert`, `q += [..]`, `q.extend`, `q.pop`, `q.popleft`, `del q[i]`, ...).
* `membership_outcomes` -- branch outcomes that establish `key in table` / `key not in table`.
* `KeyEval`      -- abstract evaluation of exchange keys `(remote, mid)`: which remote does the key removed from
                   `_active_exchanges` belong to?  Follows tuple construction / unpacking / indexing, iteration over
                   the table (`d`, `d.keys()`, `d.items()`, `list(d)`...), locally collected key lists (loop + append,
                   comprehension, extend, list(...)), filter conditions (comprehension `if`s, dominating branches,
                   straight-line predicate helpers that were not expanded by the engine).
* `SiteFacts`    -- per path of the path model, the branch facts that are still valid at a site (facts are dropped
                   when what they talk about is reassigned), with single-assignment locals substituted, evaluated
                   over a finite set of worlds (message type x "remote has a backlog entry").
* `MsgTypes`     -- possible message types of an expression handed to `_send_initially` (constructor keyword or later
                   attribute assignment, through builder helpers and locals).
"""

import ast

from ..rulekit import *
from ..model import AnalysisError
from ..paths import PathModel

COMPS = (ast.ListComp, ast.SetComp, ast.GeneratorExp, ast.DictComp)
MTYPES = ("CON", "NON", "ACK", "RST", "None")


def txt(e):
    return " ".join(ast.unparse(e).split())


def strip_not(e, pol=True):
    while isinstance(e, ast.UnaryOp) and isinstance(e.op, ast.Not):
        e, pol = e.operand, not pol
    return e, pol


def is_none(e):
    return isinstance(e, ast.Constant) and e.value is None


def pattern_names(t, path=()):
    """[(name, path)] of the names bound by an assignment / for target; path = tuple indices ('*' = starred)."""
    if isinstance(t, ast.Name):
        return [(t.id, path)]
    if isinstance(t, (ast.Tuple, ast.List)):
        out = []
        for i, e in enumerate(t.elts):
            if isinstance(e, ast.Starred):
                out.extend(pattern_names(e.value, path + ("*",)))
            else:
                out.extend(pattern_names(e, path + (i,)))
        return out
    return []


class Binding:
    __slots__ = ("kind", "value", "path", "node")

    def __init__(self, kind, value=None, path=(), node=None):
        self.kind = kind  # assign | for | param | opaque | free
        self.value = value  # assigned expression / iterated expression
        self.path = path
        self.node = node

    def __repr__(self):
        return "<%s %s %s>" % (self.kind, txt(self.value) if self.value is not None else "", self.path)


class Scope:
    def __init__(self, fi):
        self.fi = fi
        self.node = fi.node
        self.parent = {}
        for p in ast.walk(self.node):
            for c in ast.iter_child_nodes(p):
                self.parent[id(c)] = p
        a = self.node.args
        self.params = [x.arg for x in a.posonlyargs + a.args + a.kwonlyargs]
        if a.vararg:
            self.params.append(a.vararg.arg)
        if a.kwarg:
            self.params.append(a.kwarg.arg)
        self._fb = None

    def func_bindings(self):
        if self._fb is not None:
            return self._fb
        fb = {}

        def add(name, b):
            fb.setdefault(name, []).append(b)

        for n in walk_no_nested(self.node):
            if isinstance(n, ast.Assign):
                for t in n.targets:
                    for name, path in pattern_names(t):
                        add(name, Binding("assign", n.value, path, n))
            elif isinstance(n, ast.AnnAssign):
                if n.value is not None and isinstance(n.target, ast.Name):
                    add(n.target.id, Binding("assign", n.value, (), n))
            elif isinstance(n, ast.AugAssign):
                if isinstance(n.target, ast.Name):
                    add(n.target.id, Binding("opaque", None, (), n))
            elif isinstance(n, (ast.For, ast.AsyncFor)):
                for name, path in pattern_names(n.target):
                    add(name, Binding("for", n.iter, path, n))
            elif isinstance(n, (ast.With, ast.AsyncWith)):
                for it in n.items:
                    if it.optional_vars is not None:
                        for name, path in pattern_names(it.optional_vars):
                            add(name, Binding("opaque", None, (), n))
            elif isinstance(n, ast.NamedExpr):
                add(n.target.id, Binding("assign", n.value, (), n))
            elif isinstance(n, ast.ExceptHandler) and n.name:
                add(n.name, Binding("opaque", None, (), n))
            elif isinstance(n, (ast.FunctionDef, ast.AsyncFunctionDef, ast.ClassDef)) and n is not self.node:
                add(n.name, Binding("opaque", None, (), n))
            elif isinstance(n, (ast.Import, ast.ImportFrom)):
                for al in n.names:
                    add((al.asname or al.name).split(".")[0], Binding("opaque", None, (), n))
        self._fb = fb
        return fb

    def resolve(self, occ):
        """Bindings that may reach the Name occurrence `occ` (comprehension scopes respected)."""
        name = occ.id
        n = occ
        while id(n) in self.parent:
            p = self.parent[id(n)]
            if isinstance(p, COMPS):
                for g in p.generators:
                    for nm, path in pattern_names(g.target):
                        if nm == name:
                            return [Binding("for", g.iter, path, g)]
            n = p
        out = []
        if name in self.params:
            out.append(Binding("param", None, (), None))
        out.extend(self.func_bindings().get(name, []))
        if not out:
            out.append(Binding("free", None, (), None))
        if len(out) > 1:
            out = self._reaching(occ, out)
        return out

    def _reaching(self, occ, bindings):
        """Of several function-level bindings of a name (a local reused for two loops, a parameter that is
        reassigned on one branch) those whose value can reach the occurrence: there is a path from the binding to
        the occurrence's statement that passes no other binding of the name."""
        cfg = cfg_of(self.fi)
        at = cfg.locate(occ)
        if not at:
            return bindings
        where = {}
        for i, b in enumerate(bindings):
            where[i] = {cfg.entry} if b.kind == "param" else set(cfg.locate(b.node))
            if not where[i]:
                return bindings
        out = []
        for i, b in enumerate(bindings):
            others = set()
            for j in where:
                if j != i:
                    others |= where[j]
            others -= where[i]
            r = cfg.reach(where[i], avoid=others - set(at))
            if any(a_ in r for a_ in at):
                out.append(b)
        return out or bindings

    def single_value(self, occ):
        """The unique plainly assigned value of the Name occurrence, else None."""
        bs = self.resolve(occ)
        if len(bs) == 1 and bs[0].kind == "assign" and bs[0].path == ():
            return bs[0].value
        return None

    def deref(self, e, depth=4):
        """Follow single plain assignments (scope-aware `resolve_local`)."""
        while depth and isinstance(e, ast.Name):
            v = self.single_value(e)
            if v is None:
                break
            e = v
            depth -= 1
        if isinstance(e, ast.NamedExpr):
            return self.deref(e.value, depth)
        return e

    def enclosing_comp_ifs(self, node):
        """Conditions of the comprehensions whose *element* contains `node`."""
        out = []
        n = node
        while id(n) in self.parent:
            p = self.parent[id(n)]
            if isinstance(p, COMPS):
                in_elt = (n is getattr(p, "elt", None)) or (isinstance(p, ast.DictComp) and (n is p.key or n is p.value))
                if in_elt:
                    for g in p.generators:
                        out.extend(g.ifs)
            n = p
        return out


# ---------------------------------------------------------------------------------------------------------
# table / queue operations

TABLE_MUT = {"pop", "popitem", "clear", "update", "setdefault"}
ELEM_MUT = {"append", "appendleft", "insert", "extend", "extendleft", "pop", "popleft", "remove", "clear", "sort", "reverse"}
WRAPPERS = {"list", "tuple", "sorted", "set", "frozenset", "reversed", "iter", "dict"}


def recv_kinds(sc, e, field, depth=5):
    """How the value of expression `e` relates to the dict field: list of
    ('table', None) | ('elem', key expr or None) | ('detached', key expr) (a queue already taken out of the table)."""
    if depth <= 0:
        return []
    if chain(e) == field:
        return [("table", None)]
    if isinstance(e, ast.NamedExpr):
        return recv_kinds(sc, e.value, field, depth)
    if isinstance(e, ast.IfExp):
        return recv_kinds(sc, e.body, field, depth) + recv_kinds(sc, e.orelse, field, depth)
    if isinstance(e, ast.BoolOp):
        out = []
        for v in e.values:
            out.extend(recv_kinds(sc, v, field, depth))
        return out
    if isinstance(e, ast.Subscript):
        if any(k == "table" for k, _ in recv_kinds(sc, e.value, field, depth)):
            return [("elem", e.slice)]
        return []
    if isinstance(e, ast.Call) and isinstance(e.func, ast.Attribute):
        if any(k == "table" for k, _ in recv_kinds(sc, e.func.value, field, depth)):
            if e.func.attr in ("get", "setdefault") and e.args:
                return [("elem", e.args[0])]
            if e.func.attr == "pop" and e.args:
                return [("detached", e.args[0])]
        return []
    if isinstance(e, ast.Name):
        out = []
        for b in sc.resolve(e):
            if b.kind == "assign" and b.path == ():
                if b.value is not e:
                    out.extend(recv_kinds(sc, b.value, field, depth - 1))
            elif b.kind == "for":
                it = b.value
                if isinstance(it, ast.Call) and isinstance(it.func, ast.Attribute) and any(k == "table" for k, _ in recv_kinds(sc, it.func.value, field, depth - 1)):
                    if (it.func.attr == "values" and b.path == ()) or (it.func.attr == "items" and b.path == (1,)):
                        out.append(("elem", None))
        return out
    return []


class Op:
    __slots__ = ("level", "kind", "node", "key", "value", "args", "qkey")

    def __init__(self, level, kind, node, key=None, value=None, args=(), qkey=None):
        self.level = level  # 'table' | 'elem'
        self.kind = kind
        self.node = node
        self.key = key  # table level: the key addressed (None = all / unknown)
        self.value = value  # table level set/ensure: the value stored
        self.args = list(args)  # elem level: the arguments of the list operation
        self.qkey = qkey  # elem level: the table key of the queue operated on (None = unknown)

    def __repr__(self):
        return "<Op %s.%s %s>" % (self.level, self.kind, txt(self.node)[:60])


def table_ops(sc, field):
    """Every mutation of the table `field` (level 'table': set / ensure / del / rebind / ref:*) and of its element
    values (level 'elem': the list operation's name, 'aug' for `q += ..`, 'setitem', 'delitem', ref:*) in the
    function of `sc` (nested defs/lambdas are separate functions; comprehensions are entered)."""
    out = []
    seen_calls = set()
    for n in walk_no_nested(sc.node):
        if isinstance(n, (ast.Assign, ast.AugAssign, ast.AnnAssign)):
            if isinstance(n, ast.AnnAssign) and n.value is None:
                continue
            targets = n.targets if isinstance(n, ast.Assign) else [n.target]
            flat = []
            for t in targets:
                flat.extend(t.elts if isinstance(t, (ast.Tuple, ast.List)) else [t])
            for tt in flat:
                if isinstance(tt, ast.Starred):
                    tt = tt.value
                if chain(tt) == field:
                    out.append(Op("table", "rebind", n, value=getattr(n, "value", None)))
                elif isinstance(tt, ast.Subscript):
                    for k, key in recv_kinds(sc, tt.value, field):
                        if k == "table":
                            if isinstance(n, ast.AugAssign):
                                out.append(Op("elem", "aug", n, args=[n.value], qkey=tt.slice))
                            else:
                                out.append(Op("table", "set", n, key=tt.slice, value=n.value))
                        elif k == "elem":
                            out.append(Op("elem", "setitem", n, args=[tt.slice], qkey=key))
                elif isinstance(tt, ast.Name) and isinstance(n, ast.AugAssign):
                    for k, key in recv_kinds(sc, tt, field):
                        if k == "elem":
                            out.append(Op("elem", "aug", n, args=[n.value], qkey=key))
        elif isinstance(n, ast.Delete):
            for t in n.targets:
                if chain(t) == field:
                    out.append(Op("table", "rebind", n))
                elif isinstance(t, ast.Subscript):
                    for k, key in recv_kinds(sc, t.value, field):
                        if k == "table":
                            out.append(Op("table", "del", n, key=t.slice))
                        elif k == "elem":
                            out.append(Op("elem", "delitem", n, args=[t.slice], qkey=key))
        elif isinstance(n, ast.Call) and isinstance(n.func, ast.Attribute):
            a = n.func.attr
            if a not in TABLE_MUT and a not in ELEM_MUT:
                continue
            for k, key in recv_kinds(sc, n.func.value, field):
                if k == "table" and a in TABLE_MUT:
                    seen_calls.add(id(n.func))
                    if a == "setdefault":
                        out.append(Op("table", "ensure", n, key=n.args[0] if n.args else None, value=n.args[1] if len(n.args) > 1 else ast.Constant(value=None)))
                    elif a == "pop":
                        out.append(Op("table", "del", n, key=n.args[0] if n.args else None))
                    elif a in ("popitem", "clear"):
                        out.append(Op("table", "del", n, key=None))
                    elif len(n.args) == 1 and not n.keywords and isinstance(n.args[0], ast.Dict) and all(k_ is not None for k_ in n.args[0].keys):
                        for k_, v_ in zip(n.args[0].keys, n.args[0].values):
                            out.append(Op("table", "set", n, key=k_, value=v_))
                    else:
                        out.append(Op("table", "set", n, key=None))
                elif k == "elem" and a in ELEM_MUT:
                    seen_calls.add(id(n.func))
                    out.append(Op("elem", a, n, args=n.args, qkey=key))
                elif k == "detached":
                    seen_calls.add(id(n.func))
    for n in walk_no_nested(sc.node):
        if isinstance(n, ast.Attribute) and id(n) not in seen_calls and isinstance(n.ctx, ast.Load) and (n.attr in TABLE_MUT or n.attr in ELEM_MUT):
            p = sc.parent.get(id(n))
            if isinstance(p, ast.Call) and p.func is n:
                continue
            for k, key in recv_kinds(sc, n.value, field):
                if k == "table" and n.attr in TABLE_MUT:
                    out.append(Op("table", "ref:" + n.attr, n))
                elif k == "elem" and n.attr in ELEM_MUT:
                    out.append(Op("elem", "ref:" + n.attr, n, qkey=key))
    return out


def mentions(root, field):
    return any(chain(n) == field for n in ast.walk(root) if isinstance(n, ast.Attribute))


def membership_outcomes(sc, field, keytest):
    """(present, absent): ids of the branch outcomes (T/F pseudo nodes of the CFG) that establish that the key
    accepted by `keytest(expr)` is / is not in the table.  Spellings: `k in d`, `k not in d`, `k in d.keys()`,
    `d.get(k) is None` / `is not None` / `== None` (directly or through a local; the table's values are lists or
    pairs, never None), truthiness of `d.get(k)` (true => present; false decides nothing: the value may be empty)."""
    cfg = cfg_of(sc.fi)
    present, absent = [], []
    for n in cfg.nodes:
        if n.kind not in ("T", "F") or n.ast is None or isinstance(n.ast, (ast.For, ast.AsyncFor)):
            continue
        v = membership_truth(sc, n.ast, field, keytest)
        if v is None:
            continue
        kind, pol = v
        holds = (n.kind == "T") == pol
        if kind == "iff":
            (present if holds else absent).append(n.id)
        elif kind == "implies" and holds:
            present.append(n.id)
    return present, absent


def membership_truth(sc, e, field, keytest):
    """('iff', pol): e is true exactly when (key in table) == pol; ('implies', pol): e == pol implies presence."""
    e, pol = strip_not(e)
    if isinstance(e, ast.Compare) and len(e.ops) == 1:
        op, l, r = e.ops[0], e.left, e.comparators[0]
        if isinstance(op, (ast.In, ast.NotIn)):
            rr = sc.deref(r)
            if isinstance(rr, ast.Call) and isinstance(rr.func, ast.Attribute) and rr.func.attr == "keys" and not rr.args:
                rr = rr.func.value
            if any(k == "table" for k, _ in recv_kinds(sc, rr, field)) and keytest(l):
                return "iff", pol == isinstance(op, ast.In)
            return None
        if isinstance(op, (ast.Is, ast.IsNot, ast.Eq, ast.NotEq)):
            if is_none(l):
                l, r = r, l
            if is_none(r) and _is_lookup(sc, l, field, keytest):
                return "iff", pol != isinstance(op, (ast.Is, ast.Eq))
        return None
    if _is_lookup(sc, e, field, keytest):
        return "implies", pol
    return None


def _is_lookup(sc, e, field, keytest):
    """`d.get(k)` / `d.get(k, None)` for an accepted key, directly or through a local."""
    e = sc.deref(e)
    if isinstance(e, ast.Call) and isinstance(e.func, ast.Attribute) and e.func.attr == "get" and e.args and not e.keywords:
        if any(k == "table" for k, _ in recv_kinds(sc, e.func.value, field)) and keytest(e.args[0]):
            return len(e.args) == 1 or is_none(e.args[1])
    return False


# ---------------------------------------------------------------------------------------------------------
# abstract evaluation of exchange keys


def comp(av, i):
    if av is None:
        return None
    if av[0] == "tuple":
        return av[1][i] if isinstance(i, int) and i < len(av[1]) else None
    return ("comp", av, i)


def mktuple(avs):
    avs = tuple(avs)
    # (k[0], k[1]) of the same two-component key k is k itself
    if len(avs) == 2 and all(a is not None and a[0] == "comp" for a in avs) and avs[0][1] == avs[1][1] and avs[0][2] == 0 and avs[1][2] == 1:
        return avs[0][1]
    return ("tuple", avs)


def concrete(av):
    """An abstract value that names something outside the iteration: parameter / attribute chain of a parameter."""
    if av is None:
        return False
    if av[0] == "param":
        return True
    if av[0] == "attr":
        return concrete(av[1])
    return False


class KeyEval:
    def __init__(self, prog, clsinfo, field):
        self.prog = prog
        self.cls = clsinfo
        self.field = field
        self.binders = {}  # id(binder node) -> (scope, iter expr, env)
        self.scopes = {}

    def scope(self, fi):
        s = self.scopes.get(fi.qn)
        if s is None:
            s = self.scopes[fi.qn] = Scope(fi)
        return s

    # -- values ---------------------------------------------------------------------------------------
    def aval(self, sc, e, env=None, depth=6):
        if e is None or depth <= 0:
            return None
        if isinstance(e, ast.NamedExpr):
            return self.aval(sc, e.value, env, depth)
        if isinstance(e, ast.Name):
            bs = sc.resolve(e)
            if len(bs) != 1:
                # a parameter that is also rebound, or a multiply assigned local: not tracked
                vals = {self._bval(sc, b, e, env, depth) for b in bs}
                return vals.pop() if len(vals) == 1 else None
            return self._bval(sc, bs[0], e, env, depth)
        if isinstance(e, (ast.Tuple, ast.List)):
            return mktuple(self.aval(sc, x, env, depth) for x in e.elts)
        if isinstance(e, ast.Subscript):
            i = e.slice
            if isinstance(i, ast.Constant) and isinstance(i.value, int) and i.value >= 0:
                return comp(self.aval(sc, e.value, env, depth), i.value)
            return None
        if isinstance(e, ast.Attribute):
            b = self.aval(sc, e.value, env, depth)
            return ("attr", b, e.attr) if b is not None else None
        return None

    def _bval(self, sc, b, occ, env, depth):
        if b.kind == "param":
            if env is not None and occ.id in env:
                return env[occ.id]
            return ("param", occ.id)
        if b.kind == "assign":
            if b.value is occ:
                return None
            v = self.aval(sc, b.value, env, depth - 1)
        elif b.kind == "for":
            self.binders[id(b.node)] = (sc, b.value, env)
            v = ("iter", id(b.node))
        else:
            return None
        for i in b.path:
            if i == "*":
                return None
            v = comp(v, i)
        return v

    # -- collections ------------------------------------------------------------------------------------
    def coll(self, sc, e, env, depth=6):
        """Elements of the iterable `e`: list of ('axkeys',) | ('axitems',) | ('elt', scope, node, env) | ('unknown', text)."""
        if depth <= 0:
            return [("unknown", txt(e))]
        if isinstance(e, ast.Call) and isinstance(e.func, ast.Name) and e.func.id in WRAPPERS and len(e.args) >= 1:
            return self.coll(sc, e.args[0], env, depth)
        if isinstance(e, ast.Call) and not e.args and not e.keywords and (call_name(e) or "").split(".")[-1] in WRAPPERS | {"deque"}:
            return []  # an empty collection
        if chain(e) == self.field:
            return [("axkeys",)]
        if isinstance(e, ast.Call) and isinstance(e.func, ast.Attribute) and chain(e.func.value) == self.field and not e.args:
            if e.func.attr in ("keys", "copy"):
                return [("axkeys",)]
            if e.func.attr == "items":
                return [("axitems",)]
            return [("unknown", txt(e))]
        if isinstance(e, (ast.ListComp, ast.SetComp, ast.GeneratorExp)):
            return [("elt", sc, e.elt, env)]
        if isinstance(e, (ast.List, ast.Tuple, ast.Set)):
            out = []
            for x in e.elts:
                if isinstance(x, ast.Starred):
                    out.extend(self.coll(sc, x.value, env, depth - 1))
                else:
                    out.append(("elt", sc, x, env))
            return out
        if isinstance(e, ast.BinOp) and isinstance(e.op, ast.Add):
            return self.coll(sc, e.left, env, depth - 1) + self.coll(sc, e.right, env, depth - 1)
        if isinstance(e, ast.Name):
            bs = sc.resolve(e)
            out = []
            for b in bs:
                if b.kind == "assign" and b.path == ():
                    out.extend(self.coll(sc, b.value, env, depth - 1))
                elif b.kind == "opaque" and isinstance(b.node, ast.AugAssign):
                    out.extend(self.coll(sc, b.node.value, env, depth - 1))
                else:
                    return [("unknown", txt(e))]
            # in-place growth of the local collection
            for n in walk_no_nested(sc.node):
                if isinstance(n, ast.Call) and isinstance(n.func, ast.Attribute) and isinstance(n.func.value, ast.Name) and n.func.value.id == e.id:
                    if any(b2.kind == "for" and isinstance(b2.node, ast.comprehension) for b2 in sc.resolve(n.func.value)):
                        continue
                    a = n.func.attr
                    if a in ("append", "add", "appendleft") and n.args:
                        out.append(("elt", sc, n.args[0], env))
                    elif a == "insert" and len(n.args) == 2:
                        out.append(("elt", sc, n.args[1], env))
                    elif a in ("extend", "update", "extendleft") and n.args:
                        out.extend(self.coll(sc, n.args[0], env, depth - 1))
            return out
        if isinstance(e, ast.Call):
            # a helper that was not expanded: a generator (`yield key` under a filter) or a straight-line function
            cfi = self.callee(sc, e)
            if cfi is not None and cfi.node is not sc.node:
                env2 = self.bind_args(sc, e, cfi, env, lambda a_: self.aval(sc, a_, env))
                if env2 is not None:
                    csc = self.scope(cfi)
                    ys = [n for n in walk_no_nested(cfi.node) if isinstance(n, (ast.Yield, ast.YieldFrom))]
                    rets = [n for n in walk_no_nested(cfi.node) if isinstance(n, ast.Return) and n.value is not None]
                    out = []
                    if ys and not rets:
                        for y in ys:
                            if isinstance(y, ast.YieldFrom):
                                out.extend(self.coll(csc, y.value, env2, depth - 1))
                            elif y.value is not None:
                                out.append(("elt", csc, y.value, env2))
                            else:
                                out.append(("unknown", txt(e)))
                        return out
                    if rets and not ys:
                        for r in rets:
                            out.extend(self.coll(csc, r.value, env2, depth - 1))
                        return out
        return [("unknown", txt(e))]

    # -- conditions -------------------------------------------------------------------------------------
    def eq_atoms(self, sc, e, pol, env, depth=4):
        """Equalities between abstract values that hold when `e` evaluates to `pol`."""
        e, pol = strip_not(e, pol)
        if isinstance(e, ast.BoolOp):
            if isinstance(e.op, ast.And) == pol:  # `a and b` true, `a or b` false: all parts known
                out = []
                for v in e.values:
                    out.extend(self.eq_atoms(sc, v, pol, env, depth))
                return out
            return []
        if isinstance(e, ast.Compare) and len(e.ops) == 1:
            op = e.ops[0]
            if (isinstance(op, (ast.Eq, ast.Is)) and pol) or (isinstance(op, (ast.NotEq, ast.IsNot)) and not pol):
                a, b = self.aval(sc, e.left, env), self.aval(sc, e.comparators[0], env)
                if a is not None and b is not None:
                    return [(a, b)]
            return []
        if isinstance(e, ast.Compare) and len(e.ops) > 1 and pol:
            out = []
            left = e.left
            for op, right in zip(e.ops, e.comparators):
                out.extend(self.eq_atoms(sc, ast.Compare(left=left, ops=[op], comparators=[right]), True, env, depth))
                left = right
            return out
        if isinstance(e, ast.Name):
            v = sc.single_value(e)
            if v is not None:
                return self.eq_atoms(sc, v, pol, env, depth - 1) if depth > 0 else []
            return []
        if isinstance(e, ast.Call) and depth > 0:
            r = self.predicate_helper(sc, e, env)
            if r is not None:
                csc, ret, env2 = r
                return self.eq_atoms(csc, ret, pol, env2, depth - 1)
        return []

    def callee(self, sc, call):
        """FuncInfo of a call to a method of the class (self.m / cls.m / Class.m / type(self).m) or to a module
        function of the same module."""
        f = call.func
        if isinstance(f, ast.Attribute):
            base = f.value
            is_self = isinstance(base, ast.Name) and base.id in ("self", "cls", self.cls.node.name)
            is_type = isinstance(base, ast.Call) and chain(base.func) == "type"
            if is_self or is_type:
                return self.prog.lookup_method(self.cls.qn, f.attr)
            return None
        if isinstance(f, ast.Name):
            return self.prog.funcs.get("%s.%s" % (sc.fi.module.name, f.id))
        return None

    def bind_args(self, sc, call, cfi, env, evalfn):
        ps = params(cfi)
        if any(isinstance(d, ast.Name) and d.id == "staticmethod" for d in cfi.node.decorator_list):
            a = cfi.node.args
            ps = [x.arg for x in a.posonlyargs + a.args]
        env2 = {}
        for p_, a_ in zip(ps, call.args):
            if isinstance(a_, ast.Starred):
                return None
            env2[p_] = evalfn(a_)
        for kw in call.keywords:
            if kw.arg is None:
                return None
            env2[kw.arg] = evalfn(kw.value)
        return env2

    def predicate_helper(self, sc, call, env):
        """(callee scope, returned expression, callee env) for a straight-line helper (assignments + one return)."""
        cfi = self.callee(sc, call)
        if cfi is None or cfi.node is sc.node:
            return None
        body = [s for s in cfi.node.body if not (isinstance(s, ast.Expr) and isinstance(s.value, ast.Constant))]
        if not body or not isinstance(body[-1], ast.Return) or body[-1].value is None:
            return None
        if not all(isinstance(s, (ast.Assign, ast.AnnAssign)) for s in body[:-1]):
            return None
        env2 = self.bind_args(sc, call, cfi, env, lambda a_: self.aval(sc, a_, env))
        if env2 is None:
            return None
        return self.scope(cfi), body[-1].value, env2

    def guards_eqs(self, sc, node, env):
        """Equalities known where `node` is evaluated: filters of the comprehensions it is an element of, and the
        branch outcomes dominating its statement."""
        out = []
        for c in sc.enclosing_comp_ifs(node):
            out.extend(self.eq_atoms(sc, c, True, env))
        cfg = cfg_of(sc.fi)
        nids = cfg.locate(node)
        if nids:
            for e, pol, _ in cfg.guards(nids[0]):
                if isinstance(e, (ast.For, ast.AsyncFor)):
                    continue
                out.extend(self.eq_atoms(sc, e, pol, env))
        return out

    @staticmethod
    def closure(x, eqs):
        seen = {x}
        todo = [x]
        while todo:
            a = todo.pop()
            for p, q in eqs:
                for u, v in ((p, q), (q, p)):
                    if u == a and v not in seen:
                        seen.add(v)
                        todo.append(v)
        return seen

    # -- the question ---------------------------------------------------------------------------------------
    def key_alternatives(self, sc, key_expr, env=None):
        """For the key expression of an access to the exchange table, the alternatives of where the key comes from:
        list of (set of concrete remote values the key's first component is known to equal, origin text).
        An empty set means: the remote of that exchange is not determined."""
        av = self.aval(sc, key_expr, env)
        eqs = self.guards_eqs(sc, key_expr, env)
        return self._alts(av, eqs, txt(key_expr), 6)

    def _alts(self, av, eqs, what, depth):
        if av is None or depth <= 0:
            return [(set(), "%s: origin not tracked" % what)]
        r0 = comp(av, 0)
        known = {x for x in self.closure(r0, eqs) if concrete(x)} if r0 is not None else set()
        if av[0] == "tuple":
            return [(known, what)]
        # an element of an iteration (possibly its key component for .items())
        base, via_items = av, False
        if av[0] == "comp" and av[2] == 0 and av[1][0] == "iter":
            base, via_items = av[1], True
        if base[0] != "iter":
            return [(known, what)]
        sc, it, env = self.binders[base[1]]
        out = []
        for item in self.coll(sc, it, env):
            if item[0] == "axkeys" and not via_items:
                out.append((set(known), "a key of the table"))
            elif item[0] == "axitems" and via_items:
                out.append((set(known), "a key of the table"))
            elif item[0] == "elt" and not via_items:
                _, esc, enode, eenv = item
                sub_av = self.aval(esc, enode, eenv)
                sub_eqs = self.guards_eqs(esc, enode, eenv)
                for rs, w in self._alts(sub_av, sub_eqs, txt(enode), depth - 1):
                    out.append((set(rs) | known, w))
            else:
                out.append((set(known), "%s: element of %s" % (what, txt(it))))
        return out

    # -- "an exchange with remote R is active" -------------------------------------------------------------------
    def exists_polarity(self, sc, e, remote_av, env=None, depth=3):
        """True: `e` is true exactly when the table holds a key whose remote component equals remote_av;
        False: exactly when it holds none; None: not such a test."""
        e, pol = strip_not(e)
        r = self._exists(sc, e, remote_av, env, depth)
        return None if r is None else (r == pol)

    def _single_relation(self, sc, conds, remote_av, env, negated=False):
        """The conditions (one in total) state key[0] == remote (or != when negated) for the iterated key."""
        conds = [c for c in conds if not (isinstance(c, ast.Constant) and c.value is True)]
        if len(conds) != 1:
            return False
        c, pol = strip_not(conds[0], not negated)
        if isinstance(c, (ast.BoolOp,)):
            return False
        eqs = self.eq_atoms(sc, c, pol, env)
        if len(eqs) != 1:
            return False
        a, b = eqs[0]
        for u, v in ((a, b), (b, a)):
            if v == remote_av and self._is_key_remote(u):
                return True
        return False

    def _is_key_remote(self, av):
        """av is component 0 of an iterated key of the table"""
        if av is None or av[0] != "comp" or av[2] != 0:
            return False
        k = av[1]
        via_items = False
        if k[0] == "comp" and k[2] == 0 and k[1][0] == "iter":
            k, via_items = k[1], True
        if k[0] != "iter":
            return False
        sc, it, env = self.binders[k[1]]
        items = self.coll(sc, it, env)
        return bool(items) and all(i[0] == ("axitems" if via_items else "axkeys") for i in items)

    def _exists(self, sc, e, remote_av, env, depth):
        if isinstance(e, ast.Name):
            v = sc.single_value(e)
            return self.exists_polarity(sc, v, remote_av, env, depth) if v is not None else None
        if isinstance(e, ast.Call) and isinstance(e.func, ast.Name) and e.func.id in ("any", "all") and len(e.args) == 1 and isinstance(e.args[0], (ast.GeneratorExp, ast.ListComp, ast.SetComp)):
            g = e.args[0]
            if len(g.generators) != 1:
                return None
            conds = list(g.generators[0].ifs) + [g.elt]
            if e.func.id == "any":
                return True if self._single_relation(sc, conds, remote_av, env) else None
            if g.generators[0].ifs:
                return None
            return False if self._single_relation(sc, [g.elt], remote_av, env, negated=True) else None
        if isinstance(e, ast.Call) and isinstance(e.func, ast.Name) and e.func.id == "bool" and len(e.args) == 1:
            return self._exists(sc, e.args[0], remote_av, env, depth)
        if isinstance(e, (ast.ListComp, ast.SetComp)):
            # truthiness of the collection of matching keys
            if len(e.generators) == 1 and self._single_relation(sc, list(e.generators[0].ifs), remote_av, env):
                return True
            return None
        if isinstance(e, ast.Compare) and len(e.ops) == 1 and not isinstance(e.ops[0], (ast.In, ast.NotIn, ast.Is, ast.IsNot)):
            # len(<matching keys>) compared with a constant: decided by the values for 0, 1 and 2 matches
            l_, r_ = e.left, e.comparators[0]
            op = type(e.ops[0])
            flip = {ast.Lt: ast.Gt, ast.Gt: ast.Lt, ast.LtE: ast.GtE, ast.GtE: ast.LtE, ast.Eq: ast.Eq, ast.NotEq: ast.NotEq}
            if isinstance(l_, ast.Constant) and op in flip:
                l_, r_, op = r_, l_, flip[op]
            if isinstance(l_, ast.Call) and chain(l_.func) == "len" and len(l_.args) == 1 and isinstance(r_, ast.Constant) and isinstance(r_.value, int) and not isinstance(r_.value, bool):
                inner = self._exists(sc, sc.deref(l_.args[0]), remote_av, env, depth)
                if inner is True:
                    import operator
                    f = {ast.Lt: operator.lt, ast.Gt: operator.gt, ast.LtE: operator.le, ast.GtE: operator.ge, ast.Eq: operator.eq, ast.NotEq: operator.ne}.get(op)
                    if f is not None:
                        v0, v1, v2 = f(0, r_.value), f(1, r_.value), f(2, r_.value)
                        if v1 == v2 and v0 != v1:
                            return v1
            return None
        if isinstance(e, ast.Compare) and len(e.ops) == 1 and isinstance(e.ops[0], (ast.In, ast.NotIn)):
            c = sc.deref(e.comparators[0])
            if isinstance(c, (ast.GeneratorExp, ast.ListComp, ast.SetComp)) and len(c.generators) == 1 and not c.generators[0].ifs:
                if self.aval(sc, e.left, env) == remote_av and self._is_key_remote(self.aval(sc, c.elt, env)):
                    return isinstance(e.ops[0], ast.In)
            return None
        if isinstance(e, ast.Call) and depth > 0:
            r = self.predicate_helper(sc, e, env)
            if r is not None:
                csc, ret, env2 = r
                ra = self._rebind_remote(sc, e, remote_av, env, env2)
                return self.exists_polarity(csc, ret, ra, env2, depth - 1)
            return self._search_loop_helper(sc, e, remote_av, env)
        return None

    def _rebind_remote(self, sc, call, remote_av, env, env2):
        return remote_av

    def _search_loop_helper(self, sc, call, remote_av, env):
        """Helper of the shape  for <key> in <table keys>: if <key remote == remote>: return C   ...  return not C"""
        cfi = self.callee(sc, call)
        if cfi is None or cfi.node is sc.node:
            return None
        body = [s for s in cfi.node.body if not (isinstance(s, ast.Expr) and isinstance(s.value, ast.Constant))]
        if len(body) != 2 or not isinstance(body[0], ast.For) or body[0].orelse or not isinstance(body[1], ast.Return):
            return None
        loop, last = body
        if len(loop.body) != 1 or not isinstance(loop.body[0], ast.If) or loop.body[0].orelse:
            return None
        iff = loop.body[0]
        if len(iff.body) != 1 or not isinstance(iff.body[0], ast.Return):
            return None
        c1, c2 = iff.body[0].value, last.value
        if not (isinstance(c1, ast.Constant) and isinstance(c2, ast.Constant) and isinstance(c1.value, bool) and isinstance(c2.value, bool) and c1.value != c2.value):
            return None
        env2 = self.bind_args(sc, call, cfi, env, lambda a_: self.aval(sc, a_, env))
        if env2 is None:
            return None
        csc = self.scope(cfi)
        if not self._single_relation(csc, [iff.test], remote_av, env2):
            return None
        return c1.value


# ---------------------------------------------------------------------------------------------------------
# facts valid at a site, per path


def _free_names(e):
    return {n.id for n in ast.walk(e) if isinstance(n, ast.Name)}


def _chains(e):
    """Maximal attribute chains read by e (`a.b.c` once, not also `a.b` and `a`)."""
    out = set()

    def rec(n):
        if isinstance(n, (ast.Attribute, ast.Name)):
            c = chain(n)
            if c:
                out.add(c)
                return
        for ch in ast.iter_child_nodes(n):
            rec(ch)

    rec(e)
    return out


class _Subst(ast.NodeTransformer):
    def __init__(self, env):
        self.env = env

    def visit_Name(self, n):
        if isinstance(n.ctx, ast.Load) and n.id in self.env:
            return self.env[n.id]
        return n

    def visit_NamedExpr(self, n):
        return self.visit(n.value)


def transitive_writers(prog, clsinfo, fields):
    """Names of the methods of the class that (transitively through self.<m>() calls) write one of the fields."""
    direct = set()
    callsof = {}
    for name, fi in clsinfo.methods.items():
        if any(stores_to(fi.node, f) for f in fields):
            direct.add(name)
        callsof[name] = {c.func.attr for c in calls_in(fi.node, nested=True) if isinstance(c.func, ast.Attribute) and isinstance(c.func.value, ast.Name) and c.func.value.id == "self"}
    changed = True
    while changed:
        changed = False
        for name, cs in callsof.items():
            if name not in direct and cs & direct:
                direct.add(name)
                changed = True
    return direct


def transitive_methods(clsinfo, does, resolve=None):
    """Names of the methods of the class that perform an effect themselves (`does(FuncInfo)`) or through a chain
    of calls to methods of the same object that are *executed* by them: calls inside nested defs / lambdas run
    later (a timer callback, a done-callback) and method values handed on (`functools.partial(self.m, ..)`,
    `call_later(t, self.m)`) are not calls.  `resolve(FuncInfo, call) -> method name | None` names the callee
    (default: `self.<m>(..)`)."""
    if resolve is None:
        def resolve(fi, c):
            f = c.func
            if isinstance(f, ast.Attribute) and isinstance(f.value, ast.Name) and f.value.id == "self":
                return f.attr
            return None
    direct = set()
    callsof = {}
    for name, fi in clsinfo.methods.items():
        if does(fi):
            direct.add(name)
        callsof[name] = {m for m in (resolve(fi, c) for c in calls_in(fi.node)) if m is not None}
    changed = True
    while changed:
        changed = False
        for name, cs in callsof.items():
            if name not in direct and cs & direct:
                direct.add(name)
                changed = True
    return direct


class SiteFacts:
    """For every path of the path model through a site: the branch outcomes still valid at the site (in terms of
    parameters and state, with locals replaced by their definitions on that path)."""

    def __init__(self, fi, tables=(), writer_methods=(), max_paths=20000):
        self.fi = fi
        self.sc = Scope(fi)
        self.pm = PathModel(fi, loop_bound=1, max_paths=max_paths)
        self.cfg = self.pm.cfg
        self.tables = tuple(tables)
        self.writer_methods = set(writer_methods)
        self._kcache = {}
        self._mcache = {}

    def _kills(self, st):
        """(names rebound, attribute chains stored, tables possibly mutated) by the simple statement st."""
        r = self._kcache.get(id(st))
        if r is None:
            r = self._kcache[id(st)] = self._kills0(st)
        return r

    def _kills0(self, st):
        names, chains_, tabs = set(), set(), set()
        for n in walk_no_nested(st):
            if isinstance(n, ast.Name) and isinstance(n.ctx, (ast.Store, ast.Del)):
                names.add(n.id)
            elif isinstance(n, ast.Attribute) and isinstance(n.ctx, (ast.Store, ast.Del)):
                c = chain(n)
                if c:
                    chains_.add(c)
            elif isinstance(n, ast.Call):
                f = n.func
                if isinstance(f, ast.Attribute) and isinstance(f.value, ast.Name) and f.value.id == "self" and f.attr in self.writer_methods:
                    tabs.update(self.tables)
        for t in self.tables:
            if stores_to(st, t):
                tabs.add(t)
        return names, chains_, tabs

    def _mentions(self, e, names, chains_, tabs):
        r = self._mcache.get(id(e))
        if r is None:
            r = self._mcache[id(e)] = (e, _free_names(e), _chains(e))
        _, fn, cs = r
        if names & fn:
            return True
        for c in cs:
            for k in chains_:
                if c == k or c.startswith(k + ".") or k.startswith(c + "."):
                    return True
            for t in tabs:
                if c == t or c.startswith(t + "."):
                    return True
        return False

    def _sure_reads(self, st):
        """Load subscripts `table[k]` of a simple statement that are evaluated whenever the statement completes
        (not inside a conditional expression, short-circuit operand, comprehension or lambda)."""
        r = self._kcache.get(("reads", id(st)))
        if r is not None:
            return r
        out = []

        def rec(n, sure):
            if isinstance(n, ast.Subscript) and isinstance(n.ctx, ast.Load) and sure and chain(n.value) in self.tables:
                out.append(n)
            if isinstance(n, (ast.Lambda, ast.FunctionDef, ast.AsyncFunctionDef, ast.ClassDef) + COMPS):
                return
            if isinstance(n, ast.IfExp):
                rec(n.test, sure)
                rec(n.body, False)
                rec(n.orelse, False)
                return
            if isinstance(n, ast.BoolOp):
                for i, v in enumerate(n.values):
                    rec(v, sure and i == 0)
                return
            for ch in ast.iter_child_nodes(n):
                rec(ch, sure)

        rec(st, True)
        self._kcache[("reads", id(st))] = out
        return out

    def _subst(self, e, env):
        """e with the locals of env replaced by their definitions (e itself when nothing is to be replaced)"""
        r = self._mcache.get(id(e))
        if r is None:
            r = self._mcache[id(e)] = (e, _free_names(e), _chains(e))
        if not any(isinstance(w, ast.NamedExpr) for w in ast.walk(e)) and not (r[1] & set(env)):
            return e
        return _Subst(env).visit(_copy(e))

    def at(self, site_nid):
        """-> list of (facts, env, path): facts = [(expr, polarity)], env = {local: expr}"""
        out = []
        params_ = set(self.sc.params)
        for p in self.pm.paths_through(site_nid):
            facts, env = [], {}
            idx = p.nodes.index(site_nid)
            for nid in p.nodes[:idx]:
                nd = self.cfg.nodes[nid]
                if nd.kind in ("T", "F") and nd.ast is not None and not isinstance(nd.ast, (ast.For, ast.AsyncFor)):
                    e = nd.ast
                    for w in ast.walk(e):
                        if isinstance(w, ast.NamedExpr):
                            env[w.target.id] = self._subst(w.value, env)
                    facts.append((self._subst(e, env), nd.kind == "T"))
                elif nd.kind in ("stmt", "for", "with") and nd.ast is not None:
                    st = nd.ast
                    if isinstance(st, (ast.FunctionDef, ast.AsyncFunctionDef, ast.ClassDef)):
                        names, chains_, tabs = {st.name}, set(), set()
                    elif isinstance(st, ast.Match):
                        names, chains_, tabs = self._kills(st.subject)
                    elif nd.kind == "for":
                        names, chains_, tabs = self._kills(st.target)
                    elif nd.kind == "with":
                        names, chains_, tabs = set(), set(), set()
                        for it in st.items:
                            for part in (it.context_expr, it.optional_vars):
                                if part is not None:
                                    a_, b_, c_ = self._kills(part)
                                    names |= a_
                                    chains_ |= b_
                                    tabs |= c_
                    else:
                        names, chains_, tabs = self._kills(st)
                    if isinstance(st, ast.Assert):
                        continue
                    # a subscript read `table[k]` that was evaluated (the path continues normally) found its key
                    if nd.kind == "stmt" and not isinstance(st, (ast.FunctionDef, ast.AsyncFunctionDef, ast.ClassDef, ast.Match)):
                        for sub in self._sure_reads(st):
                            facts.append((self._subst(ast.Compare(left=sub.slice, ops=[ast.In()], comparators=[sub.value]), env), True))
                    if names or chains_ or tabs:
                        facts = [(e, pol) for e, pol in facts if not self._mentions(e, names, chains_, tabs)]
                        env = {k: v for k, v in env.items() if k not in names and not self._mentions(v, names, chains_, tabs)}
                    if isinstance(st, ast.Assign) and len(st.targets) == 1 and isinstance(st.targets[0], ast.Name) and st.targets[0].id not in params_:
                        v = self._subst(st.value, env)
                        if st.targets[0].id not in _free_names(v):
                            env[st.targets[0].id] = v
            out.append((facts, env, p))
        return out


def _copy(e):
    import copy
    return copy.deepcopy(e)


class Worlds:
    """Finite-domain evaluation of facts: a world fixes the type of the message (`<m>.mtype`) and whether
    `<m>.remote` has an entry in the backlog table."""

    def __init__(self, msg, table):
        self.msg = msg
        self.table = table
        self.worlds = [(t, b) for t in MTYPES for b in (True, False)]

    def _is_mtype(self, e):
        return chain(e) == "%s.mtype" % self.msg

    def _is_remote(self, e):
        return chain(e) == "%s.remote" % self.msg

    def _const(self, e):
        if is_none(e):
            return "None"
        c = chain(e)
        if c and c.split(".")[-1] in MTYPES:
            return c.split(".")[-1]
        return None

    def _is_table(self, e):
        if isinstance(e, ast.Call) and isinstance(e.func, ast.Attribute) and e.func.attr == "keys" and not e.args:
            e = e.func.value
        return chain(e) == self.table

    def val(self, e, w):
        """'none' | 'some' (an object that is not None) | ('mtype', name) | ('bool', b) | None (unknown)"""
        if isinstance(e, ast.Constant):
            if e.value is None:
                return "none"
            if isinstance(e.value, bool):
                return ("bool", e.value)
            return "some"
        if isinstance(e, ast.IfExp):
            t = self.truth(e.test, w)
            if t is None:
                a, b = self.val(e.body, w), self.val(e.orelse, w)
                return a if a == b else None
            return self.val(e.body if t else e.orelse, w)
        if self._is_mtype(e):
            return ("mtype", w[0])
        c = self._const(e)
        if c is not None:
            return ("mtype", c)
        if isinstance(e, ast.Subscript) and self._is_table(e.value) and self._is_remote(e.slice):
            return "some"
        if isinstance(e, ast.Call) and isinstance(e.func, ast.Attribute) and self._is_table(e.func.value) and e.args and self._is_remote(e.args[0]):
            if e.func.attr == "get":
                if w[1]:
                    return "some"
                return self.val(e.args[1], w) if len(e.args) > 1 else "none"
            if e.func.attr == "setdefault":
                return "some" if w[1] else (self.val(e.args[1], w) if len(e.args) > 1 else "none")
        if isinstance(e, (ast.List, ast.Tuple, ast.Dict, ast.Set, ast.ListComp, ast.JoinedStr)):
            return "some"
        if isinstance(e, (ast.Compare, ast.BoolOp)) or (isinstance(e, ast.UnaryOp) and isinstance(e.op, ast.Not)):
            t = self.truth(e, w)
            return None if t is None else ("bool", t)
        return None

    def truth(self, e, w):
        if isinstance(e, ast.BoolOp):
            vs = [self.truth(v, w) for v in e.values]
            if isinstance(e.op, ast.And):
                if any(v is False for v in vs):
                    return False
                return True if all(v is True for v in vs) else None
            if any(v is True for v in vs):
                return True
            return False if all(v is False for v in vs) else None
        if isinstance(e, ast.UnaryOp) and isinstance(e.op, ast.Not):
            v = self.truth(e.operand, w)
            return None if v is None else (not v)
        if isinstance(e, ast.IfExp):
            t = self.truth(e.test, w)
            if t is None:
                a, b = self.truth(e.body, w), self.truth(e.orelse, w)
                return a if a == b else None
            return self.truth(e.body if t else e.orelse, w)
        if isinstance(e, ast.Compare):
            if len(e.ops) > 1:
                left, res = e.left, True
                for op, right in zip(e.ops, e.comparators):
                    v = self.truth(ast.Compare(left=left, ops=[op], comparators=[right]), w)
                    if v is False:
                        return False
                    if v is None:
                        res = None
                    left = right
                return res
            op, l, r = e.ops[0], e.left, e.comparators[0]
            if isinstance(op, (ast.In, ast.NotIn)):
                pos = isinstance(op, ast.In)
                if self._is_table(r) and self._is_remote(l):
                    return w[1] == pos
                if isinstance(r, (ast.Tuple, ast.List, ast.Set)):
                    lv = self.val(l, w)
                    name = "None" if lv == "none" else (lv[1] if isinstance(lv, tuple) and lv[0] == "mtype" else None)
                    cs = [self._const(x) for x in r.elts]
                    if name is not None and all(c is not None for c in cs):
                        return (name in cs) == pos
                return None
            if isinstance(op, (ast.Is, ast.IsNot, ast.Eq, ast.NotEq)):
                pos = isinstance(op, (ast.Is, ast.Eq))
                a, b = self.val(l, w), self.val(r, w)
                if a is None or b is None:
                    return None

                def nm(x):
                    if x == "none":
                        return "None"
                    if isinstance(x, tuple) and x[0] == "mtype":
                        return x[1]
                    return None

                na, nb = nm(a), nm(b)
                if na is not None and nb is not None:
                    return (na == nb) == pos
                if (a == "some" and nb == "None") or (b == "some" and na == "None"):
                    return not pos
                if isinstance(a, tuple) and isinstance(b, tuple) and a[0] == b[0] == "bool" and isinstance(op, (ast.Is, ast.IsNot, ast.Eq, ast.NotEq)):
                    return (a[1] == b[1]) == pos
                return None
            return None
        v = self.val(e, w)
        if v == "none":
            return False
        if isinstance(v, tuple) and v[0] == "bool":
            return v[1]
        if isinstance(v, tuple) and v[0] == "mtype":
            return v[1] != "None"
        return None  # 'some' object: a list may be empty

    def feasible(self, facts):
        """Worlds in which no fact is refuted."""
        out = []
        for w in self.worlds:
            ok = True
            for e, pol in facts:
                t = self.truth(e, w)
                if t is not None and t != pol:
                    ok = False
                    break
            if ok:
                out.append(w)
        return out

    def reduce(self, e, w):
        """Resolve conditional expressions of `e` in world w."""
        while isinstance(e, ast.IfExp):
            t = self.truth(e.test, w)
            if t is None:
                break
            e = e.body if t else e.orelse
        return e


# ---------------------------------------------------------------------------------------------------------
# message types of what is handed to _send_initially


class MsgTypes:
    ALLOWED = {"ACK", "RST", "NON", "stored"}

    def __init__(self, prog, clsinfo, store_field="self._recent_messages"):
        self.prog = prog
        self.cls = clsinfo
        self.store = store_field
        self.ke = KeyEval(prog, clsinfo, store_field)

    def consts(self, sc, e, env, depth=4):
        """possible type constants of expression e: set of names, '?' for unknown"""
        if depth <= 0 or e is None:
            return {"?"}
        if is_none(e):
            return {"None"}
        if isinstance(e, ast.IfExp):
            return self.consts(sc, e.body, env, depth) | self.consts(sc, e.orelse, env, depth)
        if isinstance(e, ast.Name):
            bs = sc.resolve(e)
            out = set()
            for b in bs:
                if b.kind == "param":
                    out |= set(env.get(e.id, {"?"})) if env is not None else {"?"}
                elif b.kind == "assign" and b.path == () and b.value is not e:
                    out |= self.consts(sc, b.value, env, depth - 1)
                elif b.kind == "free":
                    out |= {e.id} if e.id in MTYPES else {"?"}
                else:
                    out |= {"?"}
            return out
        c = chain(e)
        if c and c.split(".")[-1] in MTYPES and c.split(".")[0] not in sc.params:
            return {c.split(".")[-1]}
        return {"?"}

    def _const_default(self, sc, d):
        """a `.get` default that cannot be a message: constant, or a module-level name not bound to a Message"""
        if isinstance(d, ast.Constant):
            return True
        if isinstance(d, ast.Name) and all(b.kind == "free" for b in sc.resolve(d)):
            try:
                v = self.prog.module_const(sc.fi.module.name, d.id)
            except AnalysisError:
                return False
            return not (isinstance(v, ast.Call) and (call_name(v) or "").split(".")[-1] == "Message")
        return False

    def types(self, sc, e, env=None, depth=4):
        if depth <= 0 or e is None:
            return {"?"}
        if isinstance(e, ast.NamedExpr):
            return self.types(sc, e.value, env, depth)
        if isinstance(e, ast.IfExp):
            return self.types(sc, e.body, env, depth) | self.types(sc, e.orelse, env, depth)
        if isinstance(e, ast.Name):
            out = set()
            for b in sc.resolve(e):
                if b.kind == "assign" and b.path == () and b.value is not e:
                    out |= self.types(sc, b.value, env, depth - 1)
                else:
                    out |= {"?"}
            # later attribute assignments `x.mtype = T` on the same local
            sets = set()
            for n in walk_no_nested(sc.node):
                if isinstance(n, (ast.Assign, ast.AnnAssign, ast.AugAssign)):
                    ts = n.targets if isinstance(n, ast.Assign) else [n.target]
                    for t in ts:
                        if isinstance(t, ast.Attribute) and t.attr in ("mtype", "_mtype") and isinstance(t.value, ast.Name) and t.value.id == e.id:
                            sets |= self.consts(sc, getattr(n, "value", None), env) if isinstance(n, ast.Assign) else {"?"}
            if sets:
                out = (out - {"None"}) | sets
            return out
        if isinstance(e, ast.Subscript) and chain(sc.deref(e.value)) == self.store:
            return {"stored"}
        if isinstance(e, ast.Call):
            if isinstance(e.func, ast.Attribute) and e.func.attr == "get" and chain(sc.deref(e.func.value)) == self.store and e.args:
                if len(e.args) == 1 or self._const_default(sc, e.args[1]):
                    return {"stored"}
                return {"stored"} | self.types(sc, e.args[1], env, depth - 1)
            cn = call_name(e) or ""
            if cn.split(".")[-1] == "Message":
                for kw in e.keywords:
                    if kw.arg in ("_mtype", "mtype"):
                        return self.consts(sc, kw.value, env)
                return {"None"}
            cfi = self.ke.callee(sc, e)
            if cfi is not None and cfi.node is not sc.node:
                env2 = self.ke.bind_args(sc, e, cfi, env, lambda a_: self.consts(sc, a_, env))
                if env2 is None:
                    return {"?"}
                csc = Scope(cfi)
                out = set()
                rets = [n for n in walk_no_nested(cfi.node) if isinstance(n, ast.Return)]
                if not rets:
                    return {"?"}
                for r in rets:
                    out |= self.types(csc, r.value, env2, depth - 1) if r.value is not None else {"?"}
                return out
        return {"?"}


# ---------------------------------------------------------------------------------------------------------
# the domain of a field that is compared by identity: which values can a store put into `<x>.mtype`?


def _tag(kind, why="", tr="?"):
    return (kind, why, tr)


T_NONE = _tag("none", "", "f")


def _truthy(vals):
    """the values of `vals` that can be truthy (as what they then are)"""
    return frozenset((k, w, "t") for k, w, tr in vals if tr != "f")


def _falsy(vals):
    return frozenset((k, w, "f") for k, w, tr in vals if tr != "t")


class FieldDomain:
    """Forward data-flow (per function, over its CFG, with refinement at branch outcomes) of the abstract values

        none    -- the object None
        member  -- a member of the enumeration (`Type(x)`, `Type[x]`, `CON`, `Type.CON`, `numbers.CON` ...: calling
                   an Enum class returns the member itself, never a copy)
        raw     -- something that is certainly or possibly neither: a value handed in by the caller, a number, a
                   Boolean, the result of arithmetic (IntEnum arithmetic yields plain ints), a literal collection
        opaque  -- a value the evaluator cannot interpret (result of an unknown call, await, subscript ...)

    each with its possible truthiness (`t`/`f`/`?`), so that `a and b`, `a or b`, `b if a else c`, `c and X or Y`
    are evaluated as what they yield, not as what they look like.  A read of the field itself (`other.mtype`)
    yields {none, member}: the inductive hypothesis of the invariant the caller is establishing over *all* stores.
    Locals are followed path-sensitively as far as a union-join data-flow allows (reassigned parameters, values
    normalised in one branch only, guard clauses); calls of functions of the package are evaluated on their
    return values with the arguments bound."""

    def __init__(self, prog, field, enum_short):
        self.prog = prog
        self.field = field
        self.enum = prog.cls(enum_short)
        self.members = {}
        for st in self.enum.node.body:
            if isinstance(st, ast.Assign) and len(st.targets) == 1 and isinstance(st.targets[0], ast.Name) and not st.targets[0].id.startswith("_"):
                v = st.value
                self.members[st.targets[0].id] = v.value if isinstance(v, ast.Constant) else None
        self.is_enum = any(b.split(".")[-1] in ("Enum", "IntEnum", "IntFlag", "Flag", "StrEnum") for b in self.enum.bases)
        # module-level aliases of members in the module of the enumeration: `CON = Type.CON`, `CON, NON = Type.CON, Type.NON`
        self.aliases = {}
        em = self.enum.module
        for st in em.tree.body:
            if not isinstance(st, ast.Assign):
                continue
            for t in st.targets:
                pairs = []
                if isinstance(t, ast.Name):
                    pairs = [(t, st.value)]
                elif isinstance(t, (ast.Tuple, ast.List)) and isinstance(st.value, (ast.Tuple, ast.List)) and len(t.elts) == len(st.value.elts):
                    pairs = list(zip(t.elts, st.value.elts))
                for tt, vv in pairs:
                    c = chain(vv)
                    if isinstance(tt, ast.Name) and c and c.split(".")[0] == self.enum.node.name and len(c.split(".")) == 2 and c.split(".")[1] in self.members:
                        self.aliases["%s.%s" % (em.name, tt.id)] = c.split(".")[1]
        self._stars = {}
        self._flows = {}
        self._rets = {}
        self._locals = {}

    # -- names -------------------------------------------------------------------------------------------------
    def _star_sources(self, m):
        r = self._stars.get(m.name)
        if r is None:
            r = []
            pkgparts = m.name.split(".") if m.is_pkg else m.name.split(".")[:-1]
            for node in ast.walk(m.tree):
                if isinstance(node, ast.ImportFrom) and any(a.name == "*" for a in node.names):
                    if node.level:
                        base = pkgparts[: len(pkgparts) - (node.level - 1)]
                        r.append(".".join(base + ([node.module] if node.module else [])))
                    else:
                        r.append(node.module or "")
            self._stars[m.name] = r
        return r

    def qualify(self, m, dotted, depth=0):
        """qualified name of a dotted name used in module m, following re-exports including `from x import *`"""
        q = self.prog.resolve_in_module(m, dotted)
        return self._canon(q, depth)

    def _canon(self, q, depth=0):
        if depth > 6 or q in self.aliases or q in self.prog.classes or q in self.prog.funcs:
            return q
        parts = q.split(".")
        if len(parts) == 1:
            return q
        for i in range(len(parts) - 1, 0, -1):
            mod = ".".join(parts[:i])
            if mod in self.prog.modules:
                mm = self.prog.modules[mod]
                rest = parts[i:]
                if rest[0] in mm.imports:
                    nq = ".".join([mm.imports[rest[0]]] + rest[1:])
                    if nq != q:
                        return self._canon(self.prog.canonical(nq), depth + 1)
                if not self.prog._module_defines(mm, rest[0]):
                    for src in self._star_sources(mm):
                        nq = self._canon(self.prog.canonical(".".join([src] + rest)), depth + 1)
                        if nq in self.aliases or nq in self.prog.classes or nq in self.prog.funcs or self._is_member_qn(nq):
                            return nq
                return q
        return q

    def _is_member_qn(self, q):
        return q.startswith(self.enum.qn + ".") and q[len(self.enum.qn) + 1:] in self.members

    def member_of(self, m, e):
        """name of the member of the enumeration that the name / attribute chain `e` (used in module m) denotes"""
        c = chain(e)
        if not c:
            return None
        q = self.qualify(m, c)
        if q in self.aliases:
            return self.aliases[q]
        if self._is_member_qn(q):
            return q[len(self.enum.qn) + 1:]
        if "." not in q and not self.prog._module_defines(m, q) and q not in m.imports:
            # a bare name the module neither defines nor imports by name: a star import
            for src in self._star_sources(m):
                q2 = self._canon(self.prog.canonical("%s.%s" % (src, q)))
                if q2 in self.aliases:
                    return self.aliases[q2]
        return None

    def is_enum_class(self, m, e):
        c = chain(e)
        return bool(c) and self.qualify(m, c) == self.enum.qn

    def _member_tag(self, name):
        v = self.members.get(name)
        return _tag("member", "", "?" if v is None else ("t" if v else "f"))

    # -- contexts ------------------------------------------------------------------------------------------------
    def locals_of(self, fi):
        r = self._locals.get(fi.qn)
        if r is None:
            r = set()
            a = fi.node.args
            for x in a.posonlyargs + a.args + a.kwonlyargs + ([a.vararg] if a.vararg else []) + ([a.kwarg] if a.kwarg else []):
                r.add(x.arg)
            for n in walk_no_nested(fi.node):
                if isinstance(n, ast.Name) and isinstance(n.ctx, (ast.Store, ast.Del)):
                    r.add(n.id)
                elif isinstance(n, (ast.FunctionDef, ast.AsyncFunctionDef, ast.ClassDef)) and n is not fi.node:
                    r.add(n.name)
                elif isinstance(n, (ast.Import, ast.ImportFrom)):
                    for al in n.names:
                        r.add((al.asname or al.name).split(".")[0])
                elif isinstance(n, ast.ExceptHandler) and n.name:
                    r.add(n.name)
                elif isinstance(n, (ast.MatchAs, ast.MatchStar)) and n.name:
                    r.add(n.name)
                elif isinstance(n, ast.MatchMapping) and n.rest:
                    r.add(n.rest)
            if fi.parent is not None:
                r |= {"\0outer:" + x for x in self.locals_of(fi.parent)}
            self._locals[fi.qn] = r
        return r

    def _owner_class(self, fi):
        f = fi
        while f is not None and f.cls is None:
            f = f.parent
        return f.cls if f is not None else None

    # -- evaluation ----------------------------------------------------------------------------------------------
    def eval(self, fi, module, e, st, depth=3):
        """abstract value (frozenset of tags) of expression e in state st (fi may be None: module / class level)"""
        ev = lambda x, s=st: self.eval(fi, module, x, s, depth)
        if e is None:
            return frozenset({_tag("opaque", "no value")})
        if isinstance(e, ast.Constant):
            if e.value is None:
                return frozenset({T_NONE})
            return frozenset({_tag("raw", "the constant %r" % (e.value,), "t" if e.value else "f")})
        if isinstance(e, ast.NamedExpr):
            return ev(e.value)
        if isinstance(e, ast.IfExp):
            out = frozenset()
            s1 = self.refine(fi, module, st, e.test, True)
            if s1 is not None:
                out |= self.eval(fi, module, e.body, s1, depth)
            s2 = self.refine(fi, module, st, e.test, False)
            if s2 is not None:
                out |= self.eval(fi, module, e.orelse, s2, depth)
            return out
        if isinstance(e, ast.BoolOp):
            is_and = isinstance(e.op, ast.And)
            out = frozenset()
            s = st
            for i, v in enumerate(e.values):
                if s is None:
                    break
                val = self.eval(fi, module, v, s, depth)
                if i == len(e.values) - 1:
                    out |= val
                else:
                    out |= _falsy(val) if is_and else _truthy(val)
                    s = self.refine(fi, module, s, v, is_and)
            return out
        if isinstance(e, ast.Name):
            if e.id in st:
                return st[e.id]
            loc = self.locals_of(fi) if fi is not None else set()
            if e.id in loc:
                return frozenset({_tag("opaque", "`%s` is not bound on this path" % e.id)})
            if ("\0outer:" + e.id) in loc:
                return frozenset({_tag("opaque", "`%s` is a variable of the enclosing function" % e.id)})
            mname = self.member_of(module, e)
            if mname is not None:
                return frozenset({self._member_tag(mname)})
            return self._module_value(module, e.id, depth)
        if isinstance(e, ast.Attribute):
            if e.attr == self.field:
                return frozenset({T_NONE, _tag("member", "", "?")})
            head = e
            while isinstance(head, ast.Attribute):
                head = head.value
            if isinstance(head, ast.Name) and head.id not in st and (fi is None or head.id not in self.locals_of(fi)):
                mname = self.member_of(module, e)
                if mname is not None:
                    return frozenset({self._member_tag(mname)})
            return frozenset({_tag("opaque", "`%s`" % txt(e))})
        if isinstance(e, ast.Subscript):
            if self._free_chain(fi, st, e.value) and self.is_enum_class(module, e.value):
                return frozenset({_tag("member", "", "?")})
            # table-driven: an element of a literal tuple / list / dict (in place, a local, or a module constant)
            tab = self._table(fi, module, e.value, st)
            if tab is not None:
                out = frozenset()
                for x in tab[1]:
                    out |= self.eval(None, tab[0], x, {}, depth)
                return out
            if fi is not None and isinstance(e.value, ast.Name) and fi.node.args.kwarg is not None and e.value.id == fi.node.args.kwarg.arg and e.value.id not in self._rebound(fi):
                return frozenset({_tag("raw", "the caller's keyword value `%s`" % txt(e))})
            return frozenset({_tag("opaque", "`%s`" % txt(e))})
        if isinstance(e, (ast.BinOp, ast.Compare)) or (isinstance(e, ast.UnaryOp)):
            return frozenset({_tag("raw", "the number / Boolean `%s`" % txt(e))})
        if isinstance(e, (ast.List, ast.Tuple, ast.Dict, ast.Set, ast.ListComp, ast.SetComp, ast.DictComp, ast.GeneratorExp, ast.JoinedStr, ast.Lambda)):
            return frozenset({_tag("raw", "`%s`" % txt(e))})
        if isinstance(e, ast.Call):
            return self._call(fi, module, e, st, depth)
        return frozenset({_tag("opaque", "`%s`" % txt(e))})

    def _table(self, fi, module, e, st, depth=3):
        """(module, element expressions, is a dict) of a literal collection: written in place, held by a local
        that is assigned once, or a module-level constant.  The elements must not mention locals (they are
        evaluated outside the function's state); None otherwise."""
        if depth <= 0:
            return None
        if isinstance(e, (ast.Tuple, ast.List)):
            elts, isdict = list(e.elts), False
        elif isinstance(e, ast.Dict):
            if any(k is None for k in e.keys):
                return None
            elts, isdict = list(e.values), True
        elif isinstance(e, ast.Name):
            loc = self.locals_of(fi) if fi is not None else set()
            if e.id in loc:
                vals = []
                for n in walk_no_nested(fi.node):
                    if isinstance(n, ast.Name) and n.id == e.id and isinstance(n.ctx, (ast.Store, ast.Del)):
                        vals.append(n)
                a = fi.node.args
                if len(vals) != 1 or e.id in {x.arg for x in a.posonlyargs + a.args + a.kwonlyargs}:
                    return None
                for n in walk_no_nested(fi.node):
                    if isinstance(n, ast.Assign) and len(n.targets) == 1 and n.targets[0] is vals[0]:
                        return self._table(fi, module, n.value, st, depth - 1)
                return None
            if ("\0outer:" + e.id) in loc:
                return None
            return self._module_table(module, e.id, depth)
        elif isinstance(e, ast.Attribute) and self._free_chain(fi, st, e):
            return self._module_table(module, chain(e) or "", depth)
        elif isinstance(e, ast.Attribute) and isinstance(e.value, ast.Name) and e.value.id in ("self", "cls") and fi is not None and self._owner_class(fi) is not None:
            # a class-level constant table read through the instance (never rebound as an instance attribute)
            cls = self._owner_class(fi)
            v, ci = self.prog.class_attr(cls.qn, e.attr)
            if v is None:
                return None
            for q in self.prog.mro(cls.qn) + [c_.qn for c_ in self.prog.classes.values() if self.prog.is_subclass(c_.qn, cls.qn)]:
                c2 = self.prog.classes.get(q)
                if c2 is None:
                    continue
                for mfi in c2.methods.values():
                    for n in ast.walk(mfi.node):
                        if isinstance(n, ast.Attribute) and n.attr == e.attr and isinstance(n.ctx, (ast.Store, ast.Del)):
                            return None
            return self._table(None, ci.module, v, {}, depth - 1)
        else:
            return None
        if any(isinstance(x, ast.Starred) for x in elts):
            return None
        if fi is not None:
            loc = self.locals_of(fi)
            for x in elts:
                if any(isinstance(n, ast.Name) and (n.id in loc or ("\0outer:" + n.id) in loc) for n in ast.walk(x)):
                    return None
        return module, elts, isdict

    def _module_table(self, module, dotted, depth):
        if not dotted:
            return None
        q = self.qualify(module, dotted)
        parts = q.rsplit(".", 1)
        if len(parts) != 2 or parts[0] not in self.prog.modules:
            return None
        mm = self.prog.modules[parts[0]]
        vals = [s_.value for s_ in ast.walk(mm.tree) if isinstance(s_, ast.Assign) and any(isinstance(t, ast.Name) and t.id == parts[1] for t in s_.targets)]
        top = [s_.value for s_ in mm.tree.body if isinstance(s_, ast.Assign)]
        if len(vals) != 1 or not any(v is vals[0] for v in top):
            return None
        return self._table(None, mm, vals[0], {}, depth - 1)

    def _free_chain(self, fi, st, e):
        head = e
        while isinstance(head, ast.Attribute):
            head = head.value
        return isinstance(head, ast.Name) and head.id not in st and (fi is None or head.id not in self.locals_of(fi))

    def _rebound(self, fi):
        """locals of fi that are bound by something else than being a parameter"""
        out = set()
        for n in walk_no_nested(fi.node):
            if isinstance(n, ast.Name) and isinstance(n.ctx, (ast.Store, ast.Del)):
                out.add(n.id)
        return out

    def _module_value(self, module, name, depth):
        """value of a module-level name (a constant alias such as `DEFAULT_TYPE = NON`)"""
        if depth > 0:
            q = self.qualify(module, name)
            parts = q.rsplit(".", 1)
            if len(parts) == 2 and parts[0] in self.prog.modules:
                mm = self.prog.modules[parts[0]]
                vals = []
                for st_ in ast.walk(mm.tree):
                    if isinstance(st_, ast.Assign) and any(isinstance(t, ast.Name) and t.id == parts[1] for t in st_.targets):
                        vals.append(st_.value)
                    elif isinstance(st_, ast.AnnAssign) and isinstance(st_.target, ast.Name) and st_.target.id == parts[1] and st_.value is not None:
                        vals.append(st_.value)
                top = [s_ for s_ in mm.tree.body if isinstance(s_, (ast.Assign, ast.AnnAssign))]
                if vals and all(any(v is getattr(s_, "value", None) for s_ in top) for v in vals):
                    out = frozenset()
                    for v in vals:
                        out |= self.eval(None, mm, v, {}, depth - 1)
                    return out
        return frozenset({_tag("opaque", "the global `%s`" % name)})

    RAW_BUILTINS = {"int", "bool", "len", "ord", "abs", "min", "max", "sum", "float", "str", "bytes", "repr", "hash", "round", "divmod", "list", "tuple", "dict", "set", "frozenset", "isinstance", "issubclass", "callable", "hasattr", "any", "all"}

    def _call(self, fi, module, e, st, depth):
        f = e.func
        if self._free_chain(fi, st, f) and self.is_enum_class(module, f):
            # Enum lookup by value: the member, or ValueError
            return frozenset({_tag("member", "", "?")})
        if isinstance(f, ast.Name) and f.id in self.RAW_BUILTINS and f.id not in st and (fi is None or f.id not in self.locals_of(fi)) and self.prog.resolve_in_module(module, f.id) == f.id:
            return frozenset({_tag("raw", "the result of `%s`" % txt(e))})
        # what the caller passed as keyword arguments
        if fi is not None and isinstance(f, ast.Attribute) and isinstance(f.value, ast.Name) and fi.node.args.kwarg is not None and f.value.id == fi.node.args.kwarg.arg and f.value.id not in self._rebound(fi) and f.attr in ("get", "pop", "setdefault") and e.args:
            out = frozenset({_tag("raw", "the caller's keyword value `%s`" % txt(e))})
            if len(e.args) > 1:
                out |= self.eval(fi, module, e.args[1], st, depth)
            elif f.attr == "get":
                out |= frozenset({T_NONE})
            return out
        if isinstance(f, ast.Attribute) and f.attr == "get" and e.args and not e.keywords and len(e.args) <= 2:
            tab = self._table(fi, module, f.value, st)
            if tab is not None and tab[2]:
                out = self.eval(fi, module, e.args[1], st, depth) if len(e.args) == 2 else frozenset({T_NONE})
                for x in tab[1]:
                    out |= self.eval(None, tab[0], x, {}, depth)
                return out
        if isinstance(f, ast.Name) and fi is not None and depth > 0:
            # a local name bound once to a lambda: its body with the arguments bound
            binders = [n for n in walk_no_nested(fi.node) if (isinstance(n, ast.Name) and n.id == f.id and isinstance(n.ctx, (ast.Store, ast.Del))) or (isinstance(n, (ast.FunctionDef, ast.AsyncFunctionDef, ast.ClassDef)) and n is not fi.node and n.name == f.id)]
            a0 = fi.node.args
            if len(binders) == 1 and isinstance(binders[0], ast.Name) and f.id not in {x.arg for x in a0.posonlyargs + a0.args + a0.kwonlyargs}:
                lam = None
                for n in walk_no_nested(fi.node):
                    if isinstance(n, ast.Assign) and len(n.targets) == 1 and n.targets[0] is binders[0] and isinstance(n.value, ast.Lambda):
                        lam = n.value
                la = lam.args if lam is not None else None
                if lam is not None and not (la.vararg or la.kwarg or la.kwonlyargs or la.defaults or e.keywords) and len(la.posonlyargs + la.args) == len(e.args) and not any(isinstance(x, ast.Starred) for x in e.args):
                    # free variables of the body are read when the lambda runs: only parameters and globals are followed
                    pn = [x.arg for x in la.posonlyargs + la.args]
                    loc = self.locals_of(fi)
                    if not any(isinstance(n, ast.Name) and n.id not in pn and (n.id in loc or ("\0outer:" + n.id) in loc) for n in ast.walk(lam.body)):
                        st2 = dict(st)
                        for p_, a_ in zip(pn, e.args):
                            st2[p_] = self.eval(fi, module, a_, st, depth)
                        return self.eval(fi, module, lam.body, st2, depth - 1)
        cfi, skip = self._callee(fi, module, e, st)
        if cfi is not None and depth > 0:
            r = self._returns(cfi, skip, fi, module, e, st, depth)
            if r is not None:
                return r
        return frozenset({_tag("opaque", "the result of `%s`" % txt(e))})

    def _callee(self, fi, module, call, st):
        """(FuncInfo, number of leading parameters bound implicitly) of a call to a function of the package"""
        f = call.func
        if isinstance(f, ast.Attribute):
            base = f.value
            cls = self._owner_class(fi) if fi is not None else None
            if cls is not None and ((isinstance(base, ast.Name) and base.id in ("self", "cls")) or (isinstance(base, ast.Call) and chain(base.func) == "type" and len(base.args) == 1 and chain(base.args[0]) == "self")):
                cfi = self.prog.lookup_method(cls.qn, f.attr)
                if cfi is not None:
                    deco = {chain(d) for d in cfi.node.decorator_list}
                    return cfi, (0 if "staticmethod" in deco else 1)
                return None, 0
            if self._free_chain(fi, st, f):
                q = self.qualify(module, chain(f) or "")
                cfi = self.prog.funcs.get(q)
                if cfi is not None:
                    deco = {chain(d) for d in cfi.node.decorator_list}
                    if cfi.cls is None:
                        return cfi, 0
                    if "staticmethod" in deco:
                        return cfi, 0
                    if "classmethod" in deco:
                        return cfi, 1
            return None, 0
        if isinstance(f, ast.Name) and fi is not None:
            # a nested function of this function (its name is bound by the one definition only)
            binders = [n for n in walk_no_nested(fi.node) if (isinstance(n, ast.Name) and n.id == f.id and isinstance(n.ctx, (ast.Store, ast.Del))) or (isinstance(n, (ast.FunctionDef, ast.AsyncFunctionDef, ast.ClassDef)) and n is not fi.node and n.name == f.id)]
            if len(binders) == 1 and isinstance(binders[0], ast.FunctionDef):
                for cand in self.prog.funcs.values():
                    if cand.parent is fi and cand.node is binders[0]:
                        return cand, 0
        if isinstance(f, ast.Name) and f.id not in st:
            if fi is not None:
                if f.id in self.locals_of(fi):
                    return None, 0
            q = self.qualify(module, f.id)
            cfi = self.prog.funcs.get(q)
            if cfi is not None and cfi.cls is None:
                return cfi, 0
        return None, 0

    def _returns(self, cfi, skip, fi, module, call, st, depth):
        """union of the values the callee returns with the call's arguments bound; None when not interpretable"""
        node = cfi.node
        if isinstance(node, ast.AsyncFunctionDef) or any(isinstance(n, (ast.Yield, ast.YieldFrom)) for n in walk_no_nested(node)):
            return None
        a = node.args
        pos = [x.arg for x in a.posonlyargs + a.args][skip:]
        if any(isinstance(x, ast.Starred) for x in call.args) or any(kw.arg is None for kw in call.keywords) or len(call.args) > len(pos):
            return None
        bound = {}
        for p_, a_ in zip(pos, call.args):
            bound[p_] = self.eval(fi, module, a_, st, depth)
        allnames = set(pos) | {x.arg for x in a.kwonlyargs}
        for kw in call.keywords:
            if kw.arg in allnames:
                bound[kw.arg] = self.eval(fi, module, kw.value, st, depth)
            elif a.kwarg is None:
                return None
        # defaults
        dpos = [x.arg for x in a.posonlyargs + a.args]
        for p_, d_ in zip(dpos[len(dpos) - len(a.defaults):], a.defaults):
            if p_ in pos and p_ not in bound:
                bound[p_] = self.eval(None, cfi.module, d_, {}, depth - 1)
        for p_, d_ in zip(a.kwonlyargs, a.kw_defaults):
            if p_.arg not in bound and d_ is not None:
                bound[p_.arg] = self.eval(None, cfi.module, d_, {}, depth - 1)
        key = (cfi.qn, tuple(sorted((k, tuple(sorted(v))) for k, v in bound.items())))
        if key in self._rets:
            return self._rets[key]
        self._rets[key] = frozenset({_tag("opaque", "the result of the recursive `%s`" % cfi.name)})
        cfg = cfg_of(cfi)
        flow = self.flow(cfi, bound, depth - 1, cache=False)
        out = frozenset()
        for n in cfg.nodes:
            if n.kind == "return" and n.id in flow:
                out |= self.eval(cfi, cfi.module, n.ast.value, flow[n.id], depth - 1) if n.ast.value is not None else frozenset({T_NONE})
        # falling off the end
        for p_, lab in cfg.pred[cfg.exit]:
            if cfg.nodes[p_].kind != "return" and p_ in flow and lab != "exc":
                out |= frozenset({T_NONE})
        self._rets[key] = out
        return out

    # -- refinement ------------------------------------------------------------------------------------------------
    def refine(self, fi, module, st, cond, pol):
        """state after `cond` evaluated to pol; None when that outcome is impossible in st"""
        c, pol = strip_not(cond, pol)
        if isinstance(c, ast.NamedExpr):
            st = dict(st)
            st[c.target.id] = self.eval(fi, module, c.value, st)
            return self.refine(fi, module, st, ast.Name(id=c.target.id, ctx=ast.Load()), pol)
        if isinstance(c, ast.BoolOp):
            if isinstance(c.op, ast.And) == pol:
                for v in c.values:
                    st = self.refine(fi, module, st, v, pol)
                    if st is None:
                        return None
                return st
            # `a or b` true / `a and b` false: one of the operands decided it, the earlier ones went the other way
            alts = []
            s = st
            for v in c.values:
                s1 = self.refine(fi, module, s, v, pol)
                if s1 is not None:
                    alts.append(s1)
                s = self.refine(fi, module, s, v, not pol)
                if s is None:
                    break
            if not alts:
                return None
            out = alts[0]
            for s1 in alts[1:]:
                out = self._join(out, s1)
            return out
        if isinstance(c, ast.Name) and c.id in st:
            new = (_truthy if pol else _falsy)(st[c.id])
            if not new:
                return None
            st = dict(st)
            st[c.id] = new
            return st
        if isinstance(c, ast.Compare) and len(c.ops) == 1:
            op, l, r = c.ops[0], c.left, c.comparators[0]
            if isinstance(l, ast.NamedExpr):
                st = dict(st)
                st[l.target.id] = self.eval(fi, module, l.value, st)
                l = ast.Name(id=l.target.id, ctx=ast.Load())
            if isinstance(r, ast.Name) and r.id in st and not (isinstance(l, ast.Name) and l.id in st):
                l, r = r, l
            if not (isinstance(l, ast.Name) and l.id in st):
                return st
            cur = st[l.id]
            new = None
            if is_none(r) and isinstance(op, (ast.Is, ast.IsNot, ast.Eq, ast.NotEq)):
                same_ = pol == isinstance(op, (ast.Is, ast.Eq))
                if same_:
                    new = frozenset({T_NONE}) if any(k != "member" for k, _, _ in cur) else frozenset()
                else:
                    new = frozenset(t for t in cur if t[0] != "none")
            elif isinstance(op, (ast.Is, ast.IsNot)) and self._free_chain(fi, st, r) and self.member_of(module, r) is not None:
                if pol == isinstance(op, ast.Is):
                    new = frozenset({self._member_tag(self.member_of(module, r))}) if any(k != "none" for k, _, _ in cur) else frozenset()
            if new is None:
                return st
            if not new:
                return None
            st = dict(st)
            st[l.id] = new
            return st
        if isinstance(c, ast.Call) and isinstance(c.func, ast.Name) and c.func.id == "isinstance" and len(c.args) == 2 and isinstance(c.args[0], ast.Name) and c.args[0].id in st:
            if pol and self._free_chain(fi, st, c.args[1]) and self.is_enum_class(module, c.args[1]):
                cur = st[c.args[0].id]
                if not any(k != "none" for k, _, _ in cur):
                    return None
                st = dict(st)
                st[c.args[0].id] = frozenset({_tag("member", "", "?")})
            return st
        return st

    # -- data-flow ---------------------------------------------------------------------------------------------------
    def flow(self, fi, init=None, depth=3, cache=True):
        """{cfg node id: state (name -> abstract value) before the node executes}"""
        if cache and init is None and fi.qn in self._flows:
            return self._flows[fi.qn]
        cfg = cfg_of(fi)
        module = fi.module
        a = fi.node.args
        st0 = {}
        for x in a.posonlyargs + a.args + a.kwonlyargs:
            st0[x.arg] = frozenset({_tag("raw", "the value the caller passes as `%s`" % x.arg)})
        if a.vararg:
            st0[a.vararg.arg] = frozenset({_tag("raw", "the caller's positional arguments")})
        if a.kwarg:
            st0[a.kwarg.arg] = frozenset({_tag("raw", "the caller's keyword arguments", "?")})
        if init:
            st0.update(init)
        ins = {cfg.entry: st0}
        todo = [cfg.entry]
        rounds = 0
        while todo:
            rounds += 1
            if rounds > 200000:
                raise AnalysisError("%s: the data-flow over the values of `.%s` does not settle" % (fi.short, self.field))
            n = todo.pop()
            st = ins[n]
            out = self._transfer(fi, module, cfg.nodes[n], st, depth)
            for s_, lab in cfg.succ[n]:
                if lab == "exc":
                    contrib = st if out is None else self._join(st, out)
                else:
                    contrib = out
                if contrib is None:
                    continue
                old = ins.get(s_)
                new = contrib if old is None else self._join(old, contrib)
                if old is None or new != old:
                    ins[s_] = new
                    todo.append(s_)
        if cache and init is None:
            self._flows[fi.qn] = ins
        return ins

    @staticmethod
    def _join(a, b):
        if a is b:
            return a
        out = dict(a)
        for k, v in b.items():
            out[k] = (out[k] | v) if k in out else v
        return out

    def _bind_target(self, fi, module, st, target, value, value_node, depth):
        """bind the names of an assignment target; value = abstract value or None (then value_node is evaluated
        component-wise where the shapes allow it)"""
        if isinstance(target, ast.Name):
            st[target.id] = value if value is not None else self.eval(fi, module, value_node, st, depth)
        elif isinstance(target, (ast.Tuple, ast.List)):
            vn = value_node
            if vn is not None and isinstance(vn, (ast.Tuple, ast.List)) and len(vn.elts) == len(target.elts) and not any(isinstance(x, ast.Starred) for x in list(vn.elts) + list(target.elts)):
                vals = [self.eval(fi, module, x, st, depth) for x in vn.elts]
                for t_, v_ in zip(target.elts, vals):
                    self._bind_target(fi, module, st, t_, v_, None, depth)
            else:
                for name, _ in pattern_names(target):
                    st[name] = frozenset({_tag("opaque", "a component of `%s`" % (txt(vn) if vn is not None else "an unpacked value"))})
        elif isinstance(target, ast.Starred):
            self._bind_target(fi, module, st, target.value, frozenset({_tag("raw", "a list of unpacked values")}), None, depth)

    def _transfer(self, fi, module, nd, st, depth):
        k = nd.kind
        if k in ("T", "F"):
            if nd.ast is None or isinstance(nd.ast, (ast.For, ast.AsyncFor)):
                return st
            return self.refine(fi, module, st, nd.ast, k == "T")
        node = nd.ast
        if node is None or k in ("entry", "exit", "rexit", "join"):
            return st
        new = None

        def w():
            nonlocal new
            if new is None:
                new = dict(st)
            return new

        opaque = lambda why: frozenset({_tag("opaque", why)})
        if k == "handler":
            if node.name:
                w()[node.name] = opaque("the caught exception")
            return new if new is not None else st
        if k == "for":
            for name, _ in pattern_names(node.target):
                w()[name] = opaque("an element of `%s`" % txt(node.iter))
            return new if new is not None else st
        if k == "with":
            for it in node.items:
                if it.optional_vars is not None:
                    for name, _ in pattern_names(it.optional_vars):
                        w()[name] = opaque("what `%s` yields" % txt(it.context_expr))
            return new if new is not None else st
        if k == "test":
            # T/F refine; a walrus in the test binds on both outcomes
            for x in walk_no_nested(node):
                if isinstance(x, ast.NamedExpr):
                    cur = w()
                    cur[x.target.id] = self.eval(fi, module, x.value, cur, depth)
            return new if new is not None else st
        # simple statements, return, raise
        if isinstance(node, ast.Match):
            for x in ast.walk(node):
                if isinstance(x, (ast.MatchAs, ast.MatchStar)) and x.name:
                    w()[x.name] = opaque("a captured sub-pattern")
                elif isinstance(x, ast.MatchMapping) and x.rest:
                    w()[x.rest] = opaque("a captured sub-pattern")
            return new if new is not None else st
        if isinstance(node, (ast.FunctionDef, ast.AsyncFunctionDef, ast.ClassDef)):
            w()[node.name] = opaque("a nested definition")
            return new
        for x in walk_no_nested(node):
            if isinstance(x, ast.NamedExpr):
                cur = w()
                cur[x.target.id] = self.eval(fi, module, x.value, cur, depth)
        if isinstance(node, ast.Assign):
            cur = w()
            val = self.eval(fi, module, node.value, cur, depth) if any(isinstance(t, ast.Name) for t in node.targets) else None
            for t in node.targets:
                if isinstance(t, ast.Name):
                    cur[t.id] = val
                else:
                    self._bind_target(fi, module, cur, t, None, node.value, depth)
        elif isinstance(node, ast.AnnAssign):
            if node.value is not None and isinstance(node.target, ast.Name):
                cur = w()
                cur[node.target.id] = self.eval(fi, module, node.value, cur, depth)
        elif isinstance(node, ast.AugAssign):
            if isinstance(node.target, ast.Name):
                w()[node.target.id] = frozenset({_tag("raw", "the result of `%s`" % txt(node))})
        elif isinstance(node, ast.Delete):
            for t in node.targets:
                if isinstance(t, ast.Name) and t.id in st:
                    w().pop(t.id, None)
        elif isinstance(node, (ast.Import, ast.ImportFrom)):
            for al in node.names:
                w()[(al.asname or al.name).split(".")[0]] = opaque("an imported name")
        return new if new is not None else st

    # -- stores ------------------------------------------------------------------------------------------------------
    def stores(self):
        """Every store into `<x>.<field>` in the package: [(FuncInfo | None, module, statement, value expr | None,
        fixed abstract value | None, how)] -- plain / tuple / annotated / augmented assignment, `setattr` /
        `object.__setattr__` with the constant name, `x.__dict__[name] = v`, `x.__dict__.update(name=v)`,
        `vars(x)[name] = v`, a loop / with / walrus-free target.  Stores whose attribute name is computed
        (`setattr(o, k, v)`) cannot be attributed to the field and are not listed."""
        out = []
        owner = {}
        for fi in self.prog.funcs.values():
            for n in walk_no_nested(fi.node):
                owner[id(n)] = fi
        for m in self.prog.modules.values():
            for n in ast.walk(m.tree):
                fi = owner.get(id(n))
                if isinstance(n, (ast.Assign, ast.AnnAssign, ast.AugAssign)):
                    targets = n.targets if isinstance(n, ast.Assign) else [n.target]
                    value = getattr(n, "value", None)
                    for t in targets:
                        for tt, vv, fixed in self._flatten(t, value):
                            if self._is_field_target(tt):
                                if isinstance(n, ast.AugAssign):
                                    out.append((fi, m, n, None, frozenset({_tag("raw", "the result of `%s`" % txt(n))}), "augmented assignment"))
                                elif isinstance(n, ast.AnnAssign) and value is None:
                                    continue
                                else:
                                    out.append((fi, m, n, vv, fixed, "assignment"))
                elif isinstance(n, (ast.For, ast.AsyncFor)):
                    for tt, _, _ in self._flatten(n.target, None):
                        if self._is_field_target(tt):
                            out.append((fi, m, n, None, frozenset({_tag("opaque", "an element of `%s`" % txt(n.iter))}), "loop target"))
                elif isinstance(n, (ast.With, ast.AsyncWith)):
                    for it in n.items:
                        if it.optional_vars is not None:
                            for tt, _, _ in self._flatten(it.optional_vars, None):
                                if self._is_field_target(tt):
                                    out.append((fi, m, n, None, frozenset({_tag("opaque", "what `%s` yields" % txt(it.context_expr))}), "with target"))
                elif isinstance(n, ast.Call):
                    cn = (call_name(n) or "").split(".")[-1]
                    if cn in ("setattr", "__setattr__") and len(n.args) >= 3 and isinstance(n.args[-2], ast.Constant) and n.args[-2].value == self.field and not n.keywords:
                        out.append((fi, m, n, n.args[-1], None, "setattr"))
                    elif cn == "update" and isinstance(n.func, ast.Attribute) and self._is_attr_dict(n.func.value):
                        for kw in n.keywords:
                            if kw.arg == self.field:
                                out.append((fi, m, n, kw.value, None, "__dict__.update"))
                        for a_ in n.args:
                            if isinstance(a_, ast.Dict):
                                for k_, v_ in zip(a_.keys, a_.values):
                                    if isinstance(k_, ast.Constant) and k_.value == self.field:
                                        out.append((fi, m, n, v_, None, "__dict__.update"))
        return out

    def _is_attr_dict(self, e):
        if isinstance(e, ast.Attribute) and e.attr == "__dict__":
            return True
        return isinstance(e, ast.Call) and chain(e.func) == "vars" and len(e.args) == 1

    def _is_field_target(self, t):
        if isinstance(t, ast.Attribute) and t.attr == self.field:
            return True
        if isinstance(t, ast.Subscript) and isinstance(t.slice, ast.Constant) and t.slice.value == self.field and self._is_attr_dict(t.value):
            return True
        return False

    def _flatten(self, target, value):
        """[(leaf target, value expr | None, fixed abstract value | None)]"""
        if isinstance(target, (ast.Tuple, ast.List)):
            out = []
            if value is not None and isinstance(value, (ast.Tuple, ast.List)) and len(value.elts) == len(target.elts) and not any(isinstance(x, ast.Starred) for x in list(value.elts) + list(target.elts)):
                for t_, v_ in zip(target.elts, value.elts):
                    out.extend(self._flatten(t_, v_))
            else:
                for t_ in target.elts:
                    if isinstance(t_, ast.Starred):
                        t_ = t_.value
                    for leaf, _, _ in self._flatten(t_, None):
                        out.append((leaf, None, frozenset({_tag("opaque", "a component of `%s`" % (txt(value) if value is not None else "an unpacked value"))})))
            return out
        return [(target, value, None)]

    def stored_values(self, fi, module, stmt, value, fixed):
        """abstract value a store puts into the field (union over the CFG copies of the statement); None when the
        statement is unreachable"""
        if fixed is not None:
            return fixed
        if fi is None:
            return self.eval(None, module, value, {})
        cfg = cfg_of(fi)
        flow = self.flow(fi)
        nids = [n for n in cfg.locate(stmt) if n in flow]
        if not nids:
            return None
        # a value computed inside a comprehension / lambda of the statement is not followed
        out = frozenset()
        for nid in nids:
            st = flow[nid]
            nd = cfg.nodes[nid]
            if nd.kind == "stmt" and isinstance(nd.ast, (ast.Assign, ast.AnnAssign, ast.Expr)):
                st = dict(st)
                for x in walk_no_nested(nd.ast):
                    if isinstance(x, ast.NamedExpr):
                        st[x.target.id] = self.eval(fi, module, x.value, st)
            out |= self.eval(fi, module, value, st)
        return out


# -- key objects: __eq__ / __hash__ of the remotes that key the tables ------------------------------------------------
#
# `remote in self._backlogs`, `self._backlogs[remote]`, `(remote, mid) in self._active_exchanges` find an entry only
# when the remote of the lookup hashes like the remote of the insertion whenever the two compare equal.  KeyObjects
# decides that by *running* the class's own constructor, __eq__ and __hash__ (and whatever properties / methods of the
# class they go through) in a small concrete interpreter over a finite domain of constructor arguments, so the
# spelling (a cached hash filled in by the constructor or lazily by __hash__, a helper method, a property, a tuple of
# components instead of a slice, isinstance guards returning NotImplemented, ...) is immaterial.

class KUnsupported(Exception):
    """the interpreter met a construct outside its vocabulary (-> refusal, never a verdict)"""


class _KRaised(Exception):
    """the interpreted code raised"""


class KOpaque:
    """a value the interpreter does not look into: equal only to itself, hashed by identity, truthiness unknown"""

    def __init__(self, what, plain=False):
        self.what = what
        self.plain = plain  # known to be a plain object: not iterable, not subscriptable, no length, always true

    def __repr__(self):
        return "<%s>" % self.what


class KInst:
    def __init__(self, ci, label):
        self.ci = ci
        self.fields = {}
        self.label = label

    def __repr__(self):
        return self.label


class _KHashed:
    """stands for an interpreted instance inside a native container that is hashed natively"""

    def __init__(self, h, ident):
        self.h, self.ident = h, ident

    def __hash__(self):
        return self.h

    def __eq__(self, o):
        return isinstance(o, _KHashed) and o.ident is self.ident


class _KFunc:
    def __init__(self, node, module, ci=None, bound=None, closure=None):
        self.node, self.module, self.ci, self.bound, self.closure = node, module, ci, bound, closure


class _KClass:
    def __init__(self, ci):
        self.ci = ci


class _KReturn(Exception):
    def __init__(self, v):
        self.v = v


_K_BUILTINS = {"tuple": tuple, "len": len, "str": str, "int": int, "bool": bool, "list": list, "bytes": bytes, "frozenset": frozenset, "repr": repr, "abs": abs, "min": min, "max": max, "sorted": sorted, "reversed": reversed}
_K_TYPES = {"tuple": tuple, "str": str, "int": int, "bytes": bytes, "list": list, "bool": bool, "dict": dict, "float": float}
_K_NATIVE = (str, bytes, int, float, bool, type(None), tuple, list, frozenset)


class KeyObjects:
    MAX_STEPS = 4000

    def __init__(self, prog):
        self.prog = prog
        self.memo = {}
        self.classrefs = {}
        self.script = None  # choices for opaque truth values (None: an opaque truth value is unsupported)
        self.pos = 0
        self.steps = 0

    # -- choices --------------------------------------------------------------------------------------------------
    def _choose(self, what):
        if self.script is None:
            raise KUnsupported("the outcome depends on the truth value of %s" % what)
        if self.pos == len(self.script):
            self.script.append(False)
        v = self.script[self.pos]
        self.pos += 1
        return v

    def explore(self, thunk):
        """all outcomes of thunk() over the truth values of the opaque values it tests"""
        out = []
        script = []
        for _ in range(64):
            self.script, self.pos = script, 0
            try:
                out.append(thunk())
            except (_KRaised, TypeError, ValueError, IndexError, KeyError, AttributeError):
                pass
            finally:
                used, self.script = self.script[: self.pos], None
            while used and used[-1]:
                used.pop()
            if not used:
                return out
            used[-1] = True
            script = used
        raise KUnsupported("too many opaque decisions in a constructor")

    # -- values ---------------------------------------------------------------------------------------------------
    def truth(self, v):
        if isinstance(v, KOpaque):
            return True if v.plain else self._choose(repr(v))
        if isinstance(v, KInst):
            if self.lookup(v.ci, "__bool__") or self.lookup(v.ci, "__len__"):
                raise KUnsupported("truth value of an instance with __bool__ / __len__")
            return True
        if isinstance(v, (_KFunc, _KClass)):
            return True
        return bool(v)

    def lookup(self, ci, name):
        """(kind, thing, defining class) of a class-level name along the in-package MRO"""
        for q in self.prog.mro(ci.qn):
            c = self.prog.classes.get(q)
            if c is None:
                continue
            if name in c.methods:
                return ("method", c.methods[name], c)
            if name in c.attrs:
                return ("attr", c.attrs[name], c)
        return None

    def opaque_call(self, what, args):
        try:
            key = (what, tuple(self.image(a) for a in args))
            hash(key)
        except TypeError:
            raise KUnsupported("call of %s with an unhashable argument" % what)
        if key not in self.memo:
            self.memo[key] = KOpaque("%s(...)" % what)
        return self.memo[key]

    def image(self, v):
        """a native hashable stand-in: equal images <=> equal values, hash(image) plays hash(value)"""
        if isinstance(v, KInst):
            return _KHashed(self.hash_of(v), v)
        if isinstance(v, tuple):
            return tuple(self.image(x) for x in v)
        if isinstance(v, frozenset):
            return frozenset(self.image(x) for x in v)
        if isinstance(v, (list, dict, set)):
            raise TypeError("unhashable")
        return v

    def hash_of(self, v):
        if isinstance(v, KInst):
            m = self.lookup(v.ci, "__hash__")
            if m is None:
                return id(v)
            if m[0] != "method":
                raise KUnsupported("__hash__ of %s is not a plain method" % v.ci.qn)
            r = self.call(self.bind(m[1], m[2], v), [], {})
            if not isinstance(r, int) or isinstance(r, bool):
                raise KUnsupported("__hash__ of %s does not evaluate to an integer" % v.ci.qn)
            return r
        return hash(self.image(v))

    def equal(self, a, b):
        if isinstance(a, KInst) or isinstance(b, KInst):
            for x, y in ((a, b), (b, a)):
                if isinstance(x, KInst):
                    m = self.lookup(x.ci, "__eq__")
                    if m is None:
                        continue
                    if m[0] != "method":
                        raise KUnsupported("__eq__ of %s is not a plain method" % x.ci.qn)
                    r = self.call(self.bind(m[1], m[2], x), [y], {})
                    if r is not NotImplemented:
                        return r
            return a is b
        if isinstance(a, KOpaque) or isinstance(b, KOpaque):
            return a is b
        if isinstance(a, (tuple, list)) and type(a) is type(b):
            return len(a) == len(b) and all(self.truth(self.equal(x, y)) for x, y in zip(a, b))
        if isinstance(a, (_KFunc, _KClass)) or isinstance(b, (_KFunc, _KClass)):
            return a is b
        return a == b

    def bind(self, fi, ci, inst):
        node = fi.node
        decos = [chain(d) or "?" for d in node.decorator_list]
        if decos == ["staticmethod"]:
            return _KFunc(node, fi.module, ci)
        if decos:
            raise KUnsupported("decorated method %s" % fi.short)
        if isinstance(node, ast.AsyncFunctionDef):
            raise KUnsupported("coroutine %s" % fi.short)
        return _KFunc(node, fi.module, ci, bound=inst)

    # -- calls ----------------------------------------------------------------------------------------------------
    def call(self, f, args, kwargs):
        self.steps += 1
        if self.steps > self.MAX_STEPS * 1000:
            raise KUnsupported("evaluation does not end")
        if not isinstance(f, _KFunc):
            raise KUnsupported("call of %r" % (f,))
        a = f.node.args
        if any(isinstance(x, (ast.Yield, ast.YieldFrom, ast.Await)) for x in walk_no_nested(f.node)):
            raise KUnsupported("generator / coroutine")
        args = ([f.bound] if f.bound is not None else []) + list(args)
        pos = [p.arg for p in a.posonlyargs + a.args]
        env = dict(f.closure or {})
        if len(args) > len(pos) and a.vararg is None:
            raise TypeError("too many arguments")
        for n, v in zip(pos, args):
            env[n] = v
        if a.vararg is not None:
            env[a.vararg.arg] = tuple(args[len(pos):])
        kwargs = dict(kwargs)
        names = pos + [p.arg for p in a.kwonlyargs]
        for k in list(kwargs):
            if k in names:
                if k in env and k in pos[: len(args)]:
                    raise TypeError("multiple values")
                env[k] = kwargs.pop(k)
        if kwargs:
            if a.kwarg is None:
                raise TypeError("unexpected keyword")
            env[a.kwarg.arg] = kwargs
        elif a.kwarg is not None:
            env[a.kwarg.arg] = {}
        defaults = dict(zip(pos[len(pos) - len(a.defaults):], a.defaults))
        defaults.update({p.arg: d for p, d in zip(a.kwonlyargs, a.kw_defaults) if d is not None})
        for n in names:
            if n not in env:
                if n not in defaults:
                    raise TypeError("missing argument %s" % n)
                env[n] = self.ev(defaults[n], {}, f)
        if isinstance(f.node, ast.Lambda):
            return self.ev(f.node.body, env, f)
        try:
            self.block(f.node.body, env, f)
        except _KReturn as r:
            return r.v
        return None

    def block(self, body, env, f):
        for st in body:
            self.stmt(st, env, f)

    def stmt(self, st, env, f):
        self.steps += 1
        if isinstance(st, ast.Return):
            raise _KReturn(self.ev(st.value, env, f) if st.value is not None else None)
        if isinstance(st, ast.Expr):
            if not isinstance(st.value, ast.Constant):
                self.ev(st.value, env, f)
        elif isinstance(st, ast.Pass):
            pass
        elif isinstance(st, ast.Assign):
            v = self.ev(st.value, env, f)
            for t in st.targets:
                self.store(t, v, env, f)
        elif isinstance(st, ast.AnnAssign):
            if st.value is not None:
                self.store(st.target, self.ev(st.value, env, f), env, f)
        elif isinstance(st, ast.If):
            self.block(st.body if self.truth(self.ev(st.test, env, f)) else st.orelse, env, f)
        elif isinstance(st, ast.Raise):
            raise _KRaised()
        elif isinstance(st, ast.Assert):
            if not self.truth(self.ev(st.test, env, f)):
                raise _KRaised()
        else:
            raise KUnsupported("statement `%s`" % stmt_text(st))

    def store(self, t, v, env, f):
        if isinstance(t, ast.Name):
            env[t.id] = v
        elif isinstance(t, ast.Attribute):
            o = self.ev(t.value, env, f)
            if isinstance(o, KInst):
                k = self.lookup(o.ci, t.attr)
                if k is not None and not (k[0] == "attr" and not isinstance(k[1], (ast.Call, ast.Lambda))):
                    raise KUnsupported("store into %s.%s, which the class defines as a method / descriptor" % (o.ci.qn, t.attr))
                o.fields[t.attr] = v
            elif not isinstance(o, KOpaque):
                raise KUnsupported("store into an attribute of %r" % (o,))
        elif isinstance(t, (ast.Tuple, ast.List)) and not any(isinstance(e, ast.Starred) for e in t.elts):
            if isinstance(v, (str, bytes)):
                v = [v[i : i + 1] for i in range(len(v))] if isinstance(v, str) else list(v)
            if v is None or isinstance(v, (int, float)) or (isinstance(v, KOpaque) and v.plain):
                raise TypeError("not iterable")
            if not isinstance(v, (tuple, list)):
                raise KUnsupported("unpacking of %r" % (v,))
            if len(v) != len(t.elts):
                raise ValueError("unpack")
            for e, x in zip(t.elts, v):
                self.store(e, x, env, f)
        else:
            raise KUnsupported("store into `%s`" % txt(t))

    # -- expressions ----------------------------------------------------------------------------------------------
    def ev(self, e, env, f):
        self.steps += 1
        if isinstance(e, ast.Constant):
            return e.value
        if isinstance(e, ast.Name):
            if e.id in env:
                return env[e.id]
            return self.global_name(e.id, f)
        if isinstance(e, ast.Attribute):
            return self.getattr(self.ev(e.value, env, f), e.attr, f)
        if isinstance(e, ast.Tuple):
            return tuple(self.elts(e.elts, env, f))
        if isinstance(e, ast.List):
            return list(self.elts(e.elts, env, f))
        if isinstance(e, ast.Subscript):
            o = self.ev(e.value, env, f)
            if isinstance(e.slice, ast.Slice):
                ix = slice(*[self.ev(x, env, f) if x is not None else None for x in (e.slice.lower, e.slice.upper, e.slice.step)])
                if any(x is not None and not isinstance(x, int) for x in (ix.start, ix.stop, ix.step)):
                    raise KUnsupported("slice bounds of `%s`" % txt(e))
                key = ("slice", ix.start, ix.stop, ix.step)
            else:
                ix = self.ev(e.slice, env, f)
                key = ix
            if isinstance(o, KOpaque):
                if o.plain:
                    raise TypeError("not subscriptable")
                return self.opaque_call("subscript", [o, key])
            if isinstance(o, (str, bytes, tuple, list)):
                if not isinstance(ix, (int, slice)):
                    raise TypeError("index")
                return o[ix]
            if isinstance(o, dict):
                return o[self.image(ix)]
            if o is None:
                raise TypeError("None is not subscriptable")
            raise KUnsupported("subscript of %r" % (o,))
        if isinstance(e, ast.BoolOp):
            v = None
            for x in e.values:
                v = self.ev(x, env, f)
                t = self.truth(v)
                if t != isinstance(e.op, ast.And):
                    return v
            return v
        if isinstance(e, ast.UnaryOp):
            v = self.ev(e.operand, env, f)
            if isinstance(e.op, ast.Not):
                return not self.truth(v)
            if isinstance(v, (int, float)) and not isinstance(v, bool):
                return -v if isinstance(e.op, ast.USub) else +v if isinstance(e.op, ast.UAdd) else ~v
            raise KUnsupported("`%s`" % txt(e))
        if isinstance(e, ast.IfExp):
            return self.ev(e.body if self.truth(self.ev(e.test, env, f)) else e.orelse, env, f)
        if isinstance(e, ast.Compare):
            l = self.ev(e.left, env, f)
            for op, rn in zip(e.ops, e.comparators):
                r = self.ev(rn, env, f)
                if isinstance(op, (ast.Eq, ast.NotEq)):
                    x = self.equal(l, r)
                    if isinstance(op, ast.NotEq):
                        x = not self.truth(x)
                elif isinstance(op, (ast.Is, ast.IsNot)):
                    if (isinstance(l, KOpaque) or isinstance(r, KOpaque)) and l is not r and not (l is None or r is None or isinstance(l, KInst) or isinstance(r, KInst)):
                        raise KUnsupported("identity of an opaque value in `%s`" % txt(e))
                    if isinstance(l, _K_NATIVE[:3] + (tuple,)) and l is not None and isinstance(r, _K_NATIVE[:3] + (tuple,)) and r is not None and not isinstance(l, bool):
                        raise KUnsupported("identity of data values in `%s`" % txt(e))
                    if (isinstance(l, KOpaque) and r is None) or (isinstance(r, KOpaque) and l is None):
                        x = self._choose("`%s`" % txt(e)) == isinstance(op, ast.Is)
                    else:
                        x = (l is r) == isinstance(op, ast.Is)
                elif isinstance(op, (ast.In, ast.NotIn)):
                    if not isinstance(r, (tuple, list, frozenset)):
                        raise KUnsupported("membership in %r" % (r,))
                    x = any(self.truth(self.equal(l, y)) for y in r) == isinstance(op, ast.In)
                else:
                    if not (isinstance(l, _K_NATIVE) and isinstance(r, _K_NATIVE)):
                        raise KUnsupported("ordering in `%s`" % txt(e))
                    x = {ast.Lt: lambda a, b: a < b, ast.LtE: lambda a, b: a <= b, ast.Gt: lambda a, b: a > b, ast.GtE: lambda a, b: a >= b}[type(op)](l, r)
                if not self.truth(x):
                    return x
                l = r
            return x
        if isinstance(e, ast.BinOp):
            l, r = self.ev(e.left, env, f), self.ev(e.right, env, f)
            if isinstance(l, _K_NATIVE) and isinstance(r, _K_NATIVE) and l is not None and r is not None:
                ops = {ast.Add: lambda a, b: a + b, ast.Sub: lambda a, b: a - b, ast.Mult: lambda a, b: a * b, ast.BitXor: lambda a, b: a ^ b, ast.BitAnd: lambda a, b: a & b, ast.BitOr: lambda a, b: a | b, ast.Mod: lambda a, b: a % b, ast.LShift: lambda a, b: a << b, ast.RShift: lambda a, b: a >> b, ast.FloorDiv: lambda a, b: a // b}
                if type(e.op) in ops and not (isinstance(e.op, ast.Mod) and isinstance(l, (str, bytes))):
                    return ops[type(e.op)](l, r)
            if isinstance(l, KOpaque) or isinstance(r, KOpaque):
                return self.opaque_call("binop " + type(e.op).__name__, [l, r])
            raise KUnsupported("`%s`" % txt(e))
        if isinstance(e, ast.Lambda):
            return _KFunc(e, f.module, f.ci, closure=dict(env))
        if isinstance(e, ast.JoinedStr):
            return KOpaque("a formatted string")
        if isinstance(e, ast.Call):
            return self.ev_call(e, env, f)
        raise KUnsupported("expression `%s`" % txt(e))

    def elts(self, elts, env, f):
        out = []
        for x in elts:
            if isinstance(x, ast.Starred):
                v = self.ev(x.value, env, f)
                if not isinstance(v, (tuple, list)):
                    raise KUnsupported("`*%s`" % txt(x.value))
                out.extend(v)
            else:
                out.append(self.ev(x, env, f))
        return out

    def global_name(self, name, f):
        m = f.module
        if name in ("hash", "isinstance", "type", "getattr", "hasattr", "super", "id") or name in _K_BUILTINS or name in _K_TYPES:
            if name not in m.imports and not self.prog._module_defines(m, name) and (m.name + "." + name) not in self.prog.funcs:
                return ("builtin", name)
        if name == "NotImplemented":
            return NotImplemented
        q = self.prog.resolve_in_module(m, name)
        if q in self.prog.classes:
            return self.classref(self.prog.classes[q])
        if q in self.prog.funcs:
            return ("function", q)
        return ("external", q)

    def getattr(self, o, name, f):
        if isinstance(o, KInst):
            if name in o.fields:
                k = self.lookup(o.ci, name)
                if k is None or k[0] == "attr" and not (isinstance(k[1], ast.Call) and chain(k[1].func) == "property"):
                    return o.fields[name]
            k = self.lookup(o.ci, name)
            if k is None:
                if name == "__class__":
                    return self.classref(o.ci)
                raise AttributeError(name)
            kind, thing, ci = k
            if kind == "attr":
                if isinstance(thing, ast.Call) and chain(thing.func) == "property" and len(thing.args) == 1 and not thing.keywords:
                    mf = _KFunc(ast.Lambda(args=ast.arguments(posonlyargs=[], args=[], kwonlyargs=[], kw_defaults=[], defaults=[]), body=thing.args[0]), ci.module, ci)
                    getter = self.call(mf, [], {})
                    return self.call(getter, [o], {}) if isinstance(getter, _KFunc) else self._refuse("property getter of %s.%s" % (ci.qn, name))
                if isinstance(thing, (ast.Call, ast.Lambda)):
                    raise KUnsupported("class attribute %s.%s" % (ci.qn, name))
                mf = _KFunc(ast.Lambda(args=ast.arguments(posonlyargs=[], args=[], kwonlyargs=[], kw_defaults=[], defaults=[]), body=thing), ci.module, ci)
                return self.call(mf, [], {})
            decos = [chain(d) or "?" for d in thing.node.decorator_list]
            if decos in (["property"], ["functools.cached_property"], ["cached_property"]):
                return self.call(_KFunc(thing.node, thing.module, ci, bound=o), [], {})
            return self.bind(thing, ci, o)
        if isinstance(o, KOpaque):
            return self.opaque_call("attribute " + name, [o])
        if isinstance(o, tuple) and o and o[0] in ("external", "function"):
            return ("external", "%s.%s" % (o[1], name))
        if isinstance(o, _KClass):
            k = self.lookup(o.ci, name)
            if name == "__name__":
                return o.ci.qn.rsplit(".", 1)[-1]
            if k is not None and k[0] == "method" and [chain(d) for d in k[1].node.decorator_list] == ["staticmethod"]:
                return _KFunc(k[1].node, k[1].module, k[2])
            raise KUnsupported("class attribute %s.%s" % (o.ci.qn, name))
        if o is None:
            raise AttributeError(name)
        if isinstance(o, _K_NATIVE):
            return ("native", o, name)
        raise KUnsupported("attribute %s of %r" % (name, o))

    def _refuse(self, what):
        raise KUnsupported(what)

    def classref(self, ci):
        if ci.qn not in self.classrefs:
            self.classrefs[ci.qn] = _KClass(ci)
        return self.classrefs[ci.qn]

    def ev_call(self, e, env, f):
        if isinstance(e.func, ast.Attribute) and isinstance(e.func.value, ast.Call) and chain(e.func.value.func) == "super" and "super" not in env:
            # super().m(...): the next definition after the class the running method belongs to
            me = env.get(f.node.args.args[0].arg) if isinstance(f.node, ast.FunctionDef) and f.node.args.args else None
            if not isinstance(me, KInst) or f.ci is None:
                raise KUnsupported("`%s`" % txt(e))
            mro = self.prog.mro(me.ci.qn)
            rest = mro[mro.index(f.ci.qn) + 1:] if f.ci.qn in mro else []
            args, kwargs = self.args_of(e, env, f)
            for q in rest:
                c = self.prog.classes.get(q)
                if c is None:
                    if q.split(".")[-1] in ("object", "ABC", "Protocol"):
                        continue
                    raise KUnsupported("super() reaches %s, which is outside the package" % q)
                if e.func.attr in c.methods:
                    return self.call(self.bind(c.methods[e.func.attr], c, me), args, kwargs)
            if e.func.attr in ("__init__", "__init_subclass__"):
                return None
            raise KUnsupported("`%s`" % txt(e))
        fn = self.ev(e.func, env, f)
        args, kwargs = self.args_of(e, env, f)
        if isinstance(fn, _KFunc):
            return self.call(fn, args, kwargs)
        if isinstance(fn, KOpaque):
            return self.opaque_call("call", [fn] + args + sorted(kwargs.items()))
        if isinstance(fn, _KClass):
            raise KUnsupported("construction of %s inside the evaluated methods" % fn.ci.qn)
        if isinstance(fn, tuple) and fn and fn[0] == "builtin":
            return self.builtin(fn[1], args, kwargs, e)
        if isinstance(fn, tuple) and fn and fn[0] in ("external", "function"):
            # a function of the package or of a library: not entered; modelled as a pure function of its arguments
            return self.opaque_call(fn[1], args + sorted(kwargs.items()))
        if isinstance(fn, tuple) and fn and fn[0] == "native":
            if kwargs or any(not isinstance(a, _K_NATIVE) for a in args) or fn[2].startswith("_"):
                raise KUnsupported("`%s`" % txt(e))
            return getattr(fn[1], fn[2])(*args)
        raise KUnsupported("call `%s`" % txt(e))

    def args_of(self, e, env, f):
        args = self.elts(e.args, env, f)
        kwargs = {}
        for k in e.keywords:
            if k.arg is None:
                raise KUnsupported("`**` in `%s`" % txt(e))
            kwargs[k.arg] = self.ev(k.value, env, f)
        return args, kwargs

    def builtin(self, name, args, kwargs, e):
        if kwargs:
            raise KUnsupported("`%s`" % txt(e))
        if name == "hash" and len(args) == 1:
            return self.hash_of(args[0])
        if name == "id" and len(args) == 1:
            return id(args[0])
        if name == "isinstance" and len(args) == 2:
            v, cs = args
            res = False
            for c in cs if isinstance(cs, tuple) else (cs,):
                if isinstance(c, _KClass):
                    if isinstance(v, KInst):
                        res = res or c.ci.qn in self.prog.mro(v.ci.qn)
                    elif isinstance(v, KOpaque):
                        res = res or self._choose("isinstance(%r, %s)" % (v, c.ci.qn))
                elif isinstance(c, tuple) and c and c[0] == "builtin" and c[1] in _K_TYPES:
                    if isinstance(v, KOpaque):
                        res = res or self._choose("isinstance(%r, %s)" % (v, c[1]))
                    elif not isinstance(v, KInst):
                        res = res or isinstance(v, _K_TYPES[c[1]])
                else:
                    raise KUnsupported("`%s`" % txt(e))
            return res
        if name == "type" and len(args) == 1 and isinstance(args[0], KInst):
            return self.classref(args[0].ci)
        if name in ("getattr", "hasattr") and len(args) in (2, 3) and isinstance(args[1], str):
            try:
                v = self.getattr(args[0], args[1], None)
            except AttributeError:
                if name == "hasattr":
                    return False
                if len(args) == 3:
                    return args[2]
                raise
            return True if name == "hasattr" else v
        if name in _K_BUILTINS:
            if any(isinstance(a, (KInst, _KFunc, _KClass)) for a in args):
                raise KUnsupported("`%s`" % txt(e))
            if name not in ("str", "repr", "bool") and any(isinstance(a, KOpaque) and a.plain for a in args):
                raise TypeError("%s() of a plain object" % name)
            if any(isinstance(a, KOpaque) for a in args):
                return self.opaque_call(name, args)
            if name in ("str", "repr") and any(not isinstance(a, (str, bytes, int, bool, type(None))) for a in args):
                raise KUnsupported("`%s`" % txt(e))
            return _K_BUILTINS[name](*args)
        raise KUnsupported("`%s`" % txt(e))

    # -- the experiment -------------------------------------------------------------------------------------------
    def instances(self, ci, pool, limit=100):
        """instances of ci built by its own constructor from every combination (or, when those are too many, every
        one-at-a-time variation) of pool values for the parameters without default"""
        k = self.lookup(ci, "__init__")
        if self.lookup(ci, "__new__") is not None:
            raise KUnsupported("%s defines __new__" % ci.qn)
        if k is None:
            raise KUnsupported("%s has no constructor inside the package" % ci.qn)
        if k[0] != "method":
            raise KUnsupported("__init__ of %s is not a plain method" % ci.qn)
        fi, dci = k[1], k[2]
        a = fi.node.args
        if a.vararg is not None or a.kwarg is not None:
            raise KUnsupported("constructor of %s takes * / ** parameters" % ci.qn)
        pos = [p.arg for p in a.posonlyargs + a.args][1:]
        req = pos[: len(pos) - len(a.defaults)] if a.defaults else pos
        kwreq = [p.arg for p, d in zip(a.kwonlyargs, a.kw_defaults) if d is None]
        names = req + kwreq
        import itertools
        if len(pool) ** len(names) <= limit:
            combos = list(itertools.product(pool, repeat=len(names)))
        else:
            combos = []
            for base in pool[:2]:
                for i in range(len(names)):
                    for v in pool:
                        c = tuple(v if j == i else base for j in range(len(names)))
                        if c not in combos:
                            combos.append(c)
        # parameters with a default: the default everywhere, and every pool value on a few of the combinations
        opt = pos[len(req):] + [p.arg for p, d in zip(a.kwonlyargs, a.kw_defaults) if d is not None]
        few = list(itertools.product(pool[:2], repeat=len(names))) if 2 ** len(names) <= 8 else combos[:4]
        plans = [(c, {}) for c in combos] + [(c, {o: v}) for o in opt for c in few for v in pool]
        out = []
        for combo, extra in plans:
            def build(combo=combo, extra=extra):
                shown = list(zip(names, combo)) + sorted(extra.items())
                inst = KInst(ci, "%s(%s)" % (ci.qn.rsplit(".", 1)[-1], ", ".join("%s=%r" % nv for nv in shown)))
                kw = dict(zip(kwreq, combo[len(req):]))
                kw.update(extra)
                self.call(self.bind(fi, dci, inst), list(combo[: len(req)]), kw)
                return inst
            out.extend(self.explore(build))
        return out
