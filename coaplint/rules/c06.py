"""C06 Block-wise server: handlers see only complete bodies, blocks are exact slices."""

import ast

from ..rulekit import *
from ..norm import Normalizer, Poly, NormError, consteval
from ..exc import EscapeAnalysis

R = Rules(
    "C06",
    explanation=(
        "Structural clauses of server-side block-wise handling: (a) the escape set of Block1Spool.feed_and_take over its "
        "resolved closure is a subset of {ContinueException (2.31), IncompleteException (4.08), error.BadRequest (4.00)} -- "
        "anything else becomes 5.00; (b) the Continue response echoes the request's own Block1 option; (c) the transfer key "
        "is (remote.blockwise_key, code, cache key without Block1/Block2/Observe); (d) the append of a block is dominated "
        "by `block1.start == len(payload)` and the size check raises BadRequest; (e) feed_and_take returns normally only "
        "without Block1 or with the more-flag clear, and the handler is rendered only after it returned; (f) the Block2 "
        "cache renders iff Block2 is absent or number 0, otherwise looks up (KeyError -> 4.08) and slices through "
        "_extract_block (out of range -> 4.00, more-flag iff bytes remain); (g) TimeoutDict refreshes on get and set, "
        "_tick keeps exactly the recently accessed keys and re-arms iff items remain, and both stores use "
        "MAX_TRANSMIT_WAIT (paper step: lifetime in [T, 2T]).  Interleavings of several clients at run time are not decided."
    ),
    rule_text="escape sets over the resolved call graph with class-code facts; dominance/guard rules; normal forms of block arithmetic",
)

BW = "blockwise."
ALLOWED = {
    "aiocoap.blockwise.ContinueException": "CONTINUE",
    "aiocoap.blockwise.IncompleteException": "REQUEST_ENTITY_INCOMPLETE",
    "aiocoap.error.BadRequest": "BAD_REQUEST",
}


def fake(line):
    n = ast.Pass()
    n.lineno = line
    return n


def _class_code(prog, qn):
    v, ci = prog.class_attr(qn, "code")
    return chain(v).split(".")[-1] if v is not None and chain(v) else None


def _same_key_established(fi, sub, field):
    """Lemma L6: a read `self.F[k]` cannot raise KeyError when every path to
    it passes a store `self.F[k] = ...` or another read `self.F[k]` with the
    same (unmodified) key local in the same plain def."""
    if not is_plain_sync(fi):
        return False
    cfg = cfg_of(fi)
    key = sub.slice
    if not isinstance(key, ast.Name) or len(writes_to_name(fi.node, key.id)) != 1:
        return False
    nid = cfg.loc1(sub)
    est = set()
    for n in walk_no_nested(fi.node):
        if isinstance(n, ast.Subscript) and n is not sub and chain(n.value) == field and same(n.slice, key):
            x = cfg.loc1(n)
            if x != nid:
                est.add(x)
    # removal of the key in between would invalidate the lemma
    for k, n in stores_to(fi.node, field, nested=False):
        if k in ("pop", "delitem", "clear", "assign"):
            return False
    return bool(est) and not cfg.exists_path(cfg.entry, nid, avoid=est, skip_labels=("exc",))


@R.clause("C06.a", "only 2.31 / 4.08 / 4.00 conditions leave Block1Spool.feed_and_take")
def a(ctx):
    prog = ctx.prog
    fi = prog.func(BW + "Block1Spool.feed_and_take")
    EA = EscapeAnalysis(prog)
    # L6: the final `return self._assemblies[block_key]`
    for n in walk_no_nested(fi.node):
        if isinstance(n, ast.Subscript) and chain(n.value) == "self._assemblies" and isinstance(n.ctx, ast.Load):
            cfg = cfg_of(fi)
            in_try = any(isinstance(p_, ast.Try) for p_ in _ancestors(cfg, n))
            if not in_try and _same_key_established(fi, n, "self._assemblies"):
                EA.dead_nodes.add(id(n))
                EA.lemmas_used.append("L6 %s: key established on every path by an earlier store/read of the same key in this atomic function" % stmt_text(n))
    es = EA.escapes(fi)
    funcs = {k[0] for k in EA.memo}
    ctx.extra["escape_region_feed_and_take"] = {
        "functions_in_closure": sorted(f[len("aiocoap."):] for f in funcs),
        "resolved_call_edges": EA.resolved_edges,
        "unresolved_calls": EA.unresolved,
        "implicit_raiser_sites": sorted(set(EA.implicit_sites)),
        "lemmas": EA.lemmas_used,
        "by_unique_name": sorted(set(EA.res.by_unique_name)),
        "escape_set": sorted(repr(e) for e in es),
    }
    ctx.floor("functions in the closure of feed_and_take", len(funcs), 6)
    ctx.need(not EA.unresolved, "unresolved calls in the region: %s" % EA.unresolved[:4])
    ctx.need(("blockwise.Block1Spool.feed_and_take", "_append_request_block") in set(EA.res.by_unique_name) or any("_append_request_block" in f for f in funcs), "_append_request_block not part of the analysed closure")
    seen_allowed = set()
    bad = []
    for e in es:
        ok = [a for a in ALLOWED if e.cls == a or prog.is_subclass(e.cls, a)]
        if ok:
            seen_allowed.add(ok[0])
        else:
            bad.append(e)
    for e in sorted(bad, key=repr):
        ofi = prog.funcs.get("aiocoap." + e.func)
        ctx.ob("a block that cannot be accepted is answered 2.31/4.08/4.00, never 5.xx", False, ofi, fake(e.line), construct="%s: %s" % (e.cls, e.text), detail="escapes via %s" % " > ".join(e.via))
    if not bad:
        ctx.ob("escape set of feed_and_take is a subset of {Continue, Incomplete, BadRequest} (%d raise sites)" % len(es), True, fi, fi.node, construct="Block1Spool.feed_and_take")
    for qn, code in ALLOWED.items():
        ctx.ob("%s renders as %s" % (qn.split(".")[-1], code), _class_code(prog, qn) == code and prog.is_subclass(qn, "aiocoap.error.RenderableError"), None, None, construct="class %s" % qn.split(".")[-1], detail="code attribute %s" % _class_code(prog, qn))
    ctx.ob("all three outcomes are produced", seen_allowed == set(ALLOWED), fi, fi.node, construct="Block1Spool.feed_and_take outcomes", detail=str(sorted(seen_allowed)))
    # which condition yields which answer: a failed lookup / failed assembly -> Incomplete; more -> Continue
    cfg = cfg_of(fi)
    for r in [n for n in walk_no_nested(fi.node) if isinstance(n, ast.Raise)]:
        cls = EA._exc_class(fi, r.exc)
        if cls == "aiocoap.blockwise.ContinueException":
            ctx.ob("2.31 Continue is produced exactly for blocks with the more-flag", guarded_by(cfg, cfg.loc1(r), "$r.opt.block1.more", True), fi, r)


def _ancestors(cfg, n):
    p = cfg.parent.get(id(n))
    while p is not None:
        yield p
        p = cfg.parent.get(id(p))


@R.clause("C06.b", "the 2.31 response echoes the request's own Block1 option")
def b(ctx):
    fi = ctx.prog.func(BW + "Block1Spool.feed_and_take")
    rq = params(fi)[0]
    raises = [n for n in walk_no_nested(fi.node) if isinstance(n, ast.Raise) and isinstance(n.exc, ast.Call) and (chain(n.exc.func) or "").endswith("ContinueException")]
    ctx.floor("ContinueException raise sites", len(raises), 1)
    for r in raises:
        ctx.ob("Continue is constructed from the request's Block1 option", len(r.exc.args) == 1 and chain(r.exc.args[0]) == rq + ".opt.block1", fi, r)
    init = ctx.prog.func(BW + "ContinueException.__init__")
    p = params(init)[0]
    st = [n for n in walk_no_nested(init.node) if isinstance(n, ast.Assign) and isinstance(n.value, ast.Name) and n.value.id == p and isinstance(n.targets[0], ast.Attribute)]
    ctx.need(len(st) == 1, "ContinueException.__init__ does not store its argument in one attribute")
    attr = st[0].targets[0].attr
    tm = ctx.prog.func(BW + "ContinueException.to_message")
    stores = [n for n in walk_no_nested(tm.node) if isinstance(n, ast.Assign) and isinstance(n.targets[0], ast.Attribute) and n.targets[0].attr == "block1" and chain(n.value) == "self." + attr]
    rets = [n for n in walk_no_nested(tm.node) if isinstance(n, ast.Return)]
    ok = len(stores) == 1 and len(rets) == 1 and isinstance(rets[0].value, ast.Name) and chain(stores[0].targets[0]) == rets[0].value.id + ".opt.block1"
    ctx.ob("to_message writes exactly that value into the response's Block1 option", ok, tm, stores[0] if stores else tm.node)
    base = isinstance(resolve_local(tm.node, rets[0].value), ast.Call) and match("super().to_message()", resolve_local(tm.node, rets[0].value)) is not None if rets else False
    ctx.ob("the response is the error's own rendering (code 2.31)", base, tm, rets[0] if rets else tm.node)


@R.clause("C06.c", "transfer key = (remote.blockwise_key, code, cache key ignoring Block1/Block2/Observe)")
def c(ctx):
    fi = ctx.prog.func(BW + "_extract_block_key")
    m = params(fi, skip_self=False)[0]
    rets = [n for n in walk_no_nested(fi.node) if isinstance(n, ast.Return)]
    ctx.need(len(rets) == 1, "_extract_block_key is not single-return")
    v = resolve_local(fi.node, rets[0].value)
    b_ = match("($a, $b, $c)", v)
    ctx.ob("the key is a 3-tuple", b_ is not None, fi, rets[0])
    if b_ is None:
        return
    ctx.ob("first component separates endpoints (remote.blockwise_key)", chain(b_["a"]) == m + ".remote.blockwise_key", fi, rets[0], construct="_extract_block_key component 1: %s" % stmt_text(b_["a"]))
    ctx.ob("second component separates methods (code)", chain(b_["b"]) == m + ".code", fi, rets[0], construct="_extract_block_key component 2: %s" % stmt_text(b_["b"]))
    cb = match("%s.get_cache_key($l)" % m, b_["c"])
    ign = None
    if cb is not None and isinstance(cb["l"], (ast.List, ast.Tuple, ast.Set)):
        ign = {chain(e).split(".")[-1] for e in cb["l"].elts if chain(e)}
    ctx.ob("third component is the cache key ignoring exactly Block1, Block2 and Observe", ign == {"BLOCK1", "BLOCK2", "OBSERVE"}, fi, rets[0], construct="_extract_block_key component 3: %s" % stmt_text(b_["c"]), detail=str(ign))
    # blockwise_key of the UDP address keeps sockaddr (and local address)
    bk = ctx.prog.cls("transports.udp6.UDP6EndpointAddress").methods.get("blockwise_key")
    ctx.need(bk is not None, "UDP6EndpointAddress.blockwise_key missing")
    r = [n for n in walk_no_nested(bk.node) if isinstance(n, ast.Return)]
    okk = len(r) == 1 and any(chain(x) == "self.sockaddr" for x in ast.walk(r[0].value))
    ctx.ob("the UDP endpoint's blockwise_key contains the peer socket address", okk, bk, r[0] if r else bk.node)
    # get_cache_key: skips ignore_options and NoCacheKey options, includes (number, value) otherwise, plus code
    gk = ctx.prog.func("message.Message.get_cache_key")
    ig = params(gk)[0]
    cfg = cfg_of(gk)
    apps = [c_ for c_, bb in find("$l.append(($n, $v))", gk.node)]
    ctx.floor("cache key accumulation sites", len(apps), 1)
    for c_ in apps:
        nid = cfg.loc1(c_)
        gs = guard_exprs(cfg, nid)
        skip_ign = any((not pol) and isinstance(e, ast.Compare) and isinstance(e.ops[0], ast.In) and chain(e.comparators[0]) == ig for e, pol in gs) or \
            any(pol and isinstance(e, ast.Compare) and isinstance(e.ops[0], ast.NotIn) and chain(e.comparators[0]) == ig for e, pol in gs)
        # with `if A or (B and C): continue` the F side of A dominates
        ctx.ob("options listed in ignore_options never enter the key", skip_ign, gk, c_, detail="guards %s" % [(stmt_text(e), p) for e, p in gs])
        tb = match("$l.append(($n, $v))", c_)
        ctx.ob("every other cache-key option enters the key with number and value", chain(tb["n"]).endswith(".number") and chain(tb["v"]).endswith(".value"), gk, c_)


@R.clause("C06.d", "a block is appended only at the current end of the assembly; a wrong length is 4.00")
def d(ctx):
    fi = ctx.prog.func("message.Message._append_request_block")
    nb = params(fi)[0]
    cfg = cfg_of(fi)
    apps = [n for n in walk_no_nested(fi.node) if isinstance(n, ast.AugAssign) and chain(n.target) == "self.payload"] + \
           [n for n in walk_no_nested(fi.node) if isinstance(n, ast.Assign) and any(chain(t) == "self.payload" for t in n.targets)]
    ctx.floor("payload extension sites", len(apps), 1)
    env = norm.local_env(fi.node)
    N = Normalizer(env=env)
    want = ("eq", Normalizer(env=env).cmp(ast.parse("%s.opt.block1.start == len(self.payload)" % nb, mode="eval").body)[1])
    for a_ in apps:
        nid = cfg.loc1(a_)
        facts = cmp_guard_nf(cfg, nid, N)
        ctx.ob("the assembly is extended only when the block starts exactly at its current length (no gap, no overlap)", want in facts, fi, a_, detail="guards %s" % sorted(map(repr, facts)))
        val = a_.value
        if isinstance(a_, ast.Assign):
            bb = match("self.payload + $x", val)
            val = bb["x"] if bb else None
        ctx.ob("what is appended is the block's payload", val is not None and chain(val) == nb + ".payload", fi, a_)
    # mismatching start raises (not silently ignored)
    fnodes = [n.id for n in cfg.nodes if n.kind in ("T", "F") and isinstance(n.ast, ast.Compare)]
    other = []
    for n in cfg.nodes:
        if n.kind in ("T", "F") and isinstance(n.ast, ast.Compare):
            try:
                cn = N.cmp(n.ast)
            except NormError:
                continue
            holds = cn if n.kind == "T" else N.negate(cn)
            if holds == N.negate(want):
                other.append(n.id)
    ctx.need(other, "_append_request_block has no branch on block1.start == len(payload)")
    for o in other:
        r = cfg.reach({o}, skip_labels=("exc",))
        ctx.ob("a block that does not continue the assembly is refused (raises) and leaves the assembly untouched", cfg.exit not in r and not any(cfg.loc1(a_) in r for a_ in apps), fi, cfg.nodes[o].ast)
    # size guard
    raises = [n for n in walk_no_nested(fi.node) if isinstance(n, ast.Raise) and n.exc is not None and "BadRequest" in ast.unparse(n.exc)]
    ctx.ob("a non-final block whose payload length contradicts its block size is answered 4.00", bool(raises), fi, raises[0] if raises else fi.node, construct=stmt_text(raises[0]) if raises else "def _append_request_block: size guard")
    for r in raises:
        nid = cfg.loc1(r)
        gs = guard_exprs(cfg, nid)
        Ng = Normalizer(env=env)
        more = any(pol and Ng.atom_name(e) == nb + ".opt.block1.more" for e, pol in gs if isinstance(e, (ast.Attribute, ast.Name)))
        want_sz = Ng.cmp(ast.parse("len(%s.payload) == %s.opt.block1.size" % (nb, nb), mode="eval").body)
        eq_size = False
        for e, pol in gs:
            try:
                cn = Ng.cmp(e)
            except NormError:
                continue
            if (cn == want_sz and not pol) or (cn == Ng.negate(want_sz) and pol):
                eq_size = True
        ctx.ob("the size check applies to blocks with the more-flag and compares the payload length with the block size", more and eq_size, fi, r, detail="guards %s" % [(stmt_text(e), p) for e, p in gs])
        for a_ in apps:
            ctx.ob("the size check precedes the append", not cfg.exists_path(cfg.loc1(a_), nid), fi, r)


@R.clause("C06.e", "the handler runs only on complete bodies: feed_and_take returns only without Block1 or on the final block")
def e(ctx):
    fi = ctx.prog.func(BW + "Block1Spool.feed_and_take")
    rq = params(fi)[0]
    cfg = cfg_of(fi)
    rets = [n for n in walk_no_nested(fi.node) if isinstance(n, ast.Return)]
    ctx.floor("returns in feed_and_take", len(rets), 2)
    ctx.ob("feed_and_take is atomic (plain def)", is_plain_sync(fi), fi, fi.node, construct="def feed_and_take")
    for r in rets:
        nid = cfg.loc1(r)
        nob1 = guarded_by(cfg, nid, "%s.opt.block1 is None" % rq, True)
        final = guarded_by(cfg, nid, "%s.opt.block1.more" % rq, False)
        ctx.ob("a normal return happens only without Block1 or when the more-flag is clear", nob1 or final, fi, r)
        if nob1:
            ctx.ob("a request without Block1 is passed through unchanged", isinstance(r.value, ast.Name) and r.value.id == rq, fi, r)
        elif final:
            ctx.ob("on the final block the assembled request for this key is returned", match("self._assemblies[$k]", r.value) is not None, fi, r)
    # block 0 (re)starts the assembly, others append to the existing one
    stores = [(k, n) for k, n in stores_to(fi.node, "self._assemblies", nested=False) if k == "setitem"]
    ctx.floor("assembly (re)start sites", len(stores), 1)
    for k, st in stores:
        nid = cfg.loc1(st)
        ctx.ob("an assembly is (re)started only by block number 0", guarded_by(cfg, nid, "%s.opt.block1.block_number == 0" % rq, True), fi, st)
        ctx.ob("the assembly starts with the request itself", isinstance(st.value, ast.Name) and st.value.id == rq, fi, st)
    appc = [c_ for c_ in calls_in(fi.node) if isinstance(c_.func, ast.Attribute) and c_.func.attr == "_append_request_block"]
    ctx.floor("append sites", len(appc), 1)
    for c_ in appc:
        nid = cfg.loc1(c_)
        ctx.ob("later blocks are appended to the existing assembly of the same key", match("self._assemblies[$k]._append_request_block(%s)" % rq, c_) is not None and guarded_by(cfg, nid, "%s.opt.block1.block_number == 0" % rq, False), fi, c_)
    # keys: all subscripts use the same key local from _extract_block_key(req)
    keys = [n.slice for n in walk_no_nested(fi.node) if isinstance(n, ast.Subscript) and chain(n.value) == "self._assemblies"]
    okk = all(isinstance(k, ast.Name) for k in keys) and len({k.id for k in keys}) == 1 and match("_extract_block_key(%s)" % rq, resolve_local(fi.node, keys[0])) is not None
    ctx.ob("every access to the spool uses the transfer key of this request", okk, fi, fi.node, construct="feed_and_take key uses")
    # Resource._render_to_pipe
    rp = ctx.prog.func("interfaces.Resource._render_to_pipe")
    rcfg = cfg_of(rp)
    feeds = [c_ for c_ in calls_in(rp.node) if isinstance(c_.func, ast.Attribute) and c_.func.attr == "feed_and_take"]
    renders = [c_ for c_ in ast.walk(rp.node) if isinstance(c_, ast.Call) and call_name(c_) == "self.render"]
    ctx.floor("render call sites in Resource._render_to_pipe", len(renders), 2)
    ctx.floor("feed_and_take call sites in Resource._render_to_pipe", len(feeds), 1)
    for rc in renders:
        nid = rcfg.loc1(rc)
        asm = guarded_by(rcfg, nid, "await self.needs_blockwise_assembly($r)", True)
        if asm:
            ok = any(rcfg.dominates(rcfg.loc1(f_), nid) and rcfg.loc1(f_) != nid for f_ in feeds)
            ctx.ob("with block-wise assembly the handler is rendered only after feed_and_take returned normally", ok, rp, rc)
            # and it renders the assembled request
            arg = rc.args[0] if rc.args else None
            fed = any(isinstance(rcfg.nodes[rcfg.loc1(f_)].ast, ast.Assign) and isinstance(arg, ast.Name) and any(isinstance(t, ast.Name) and t.id == arg.id for t in rcfg.nodes[rcfg.loc1(f_)].ast.targets) for f_ in feeds)
            ctx.ob("the handler is rendered with the assembled request", fed, rp, rc)
            inl = any(isinstance(p_, ast.Lambda) for p_ in _ancestors(rcfg, rc))
            e2 = [c_ for c_ in calls_in(rp.node) if isinstance(c_.func, ast.Attribute) and c_.func.attr == "extract_or_insert"]
            ctx.ob("the rendering goes through the Block2 cache", inl and any(contains(c_, rc) for c_ in e2), rp, rc)
        else:
            ctx.ob("without assembly the resource handles blocks itself", guarded_by(rcfg, nid, "await self.needs_blockwise_assembly($r)", False), rp, rc)


@R.clause("C06.f", "Block2: one rendering per block-0 request, later blocks are slices of it (4.08 if unknown, 4.00 beyond the end)")
def f(ctx):
    prog = ctx.prog
    fi = prog.func(BW + "Block2Cache.extract_or_insert")
    p = params(fi)
    rq, builder = p[0], p[1]
    cfg = cfg_of(fi)
    builds = [n for n in walk_no_nested(fi.node) if isinstance(n, ast.Call) and isinstance(n.func, ast.Name) and n.func.id == builder]
    ctx.floor("builder invocations", len(builds), 1)
    N = Normalizer()
    for b_ in builds:
        nid = cfg.loc1(b_)
        gs = guard_exprs(cfg, nid)
        # reachable exactly when block2 is None or block_number == 0: the two T pseudo nodes join, so test via paths:
        t_none = [n.id for n in cfg.nodes if n.kind == "T" and match("%s.opt.block2 is None" % rq, n.ast) is not None]
        t_zero = [n.id for n in cfg.nodes if n.kind == "T" and match("%s.opt.block2.block_number == 0" % rq, n.ast) is not None]
        f_zero = [n.id for n in cfg.nodes if n.kind == "F" and match("%s.opt.block2.block_number == 0" % rq, n.ast) is not None]
        ok = bool(t_none) and bool(t_zero) and bool(f_zero) and all(nid in cfg.reach({t}) for t in t_none + t_zero) and not any(nid in cfg.reach({t}) for t in f_zero) and \
            not cfg.exists_path(cfg.entry, nid, avoid=set(t_none + t_zero))
        ctx.ob("the handler is rendered iff Block2 is absent or asks for block 0", ok, fi, b_)
    looks = [n for n in walk_no_nested(fi.node) if isinstance(n, ast.Subscript) and chain(n.value) == "self._completes" and isinstance(n.ctx, ast.Load)]
    ctx.floor("cache lookups", len(looks), 1)
    EA = EscapeAnalysis(prog)
    for l in looks:
        nid = cfg.loc1(l)
        hs = [d for d, lab in cfg.succ[nid] if lab == "exc" and cfg.nodes[d].kind == "handler"]
        okh = False
        for h in hs:
            hnode = cfg.nodes[h].ast
            if hnode.type is not None and chain(hnode.type) in ("KeyError", "LookupError"):
                rs = [cfg.nodes[x].ast for x in cfg.reach({h}) if cfg.nodes[x].kind == "raise"]
                okh = bool(rs) and all(EA._exc_class(fi, r.exc) == "aiocoap.blockwise.IncompleteException" for r in rs) and cfg.exit not in cfg.reach({h}, skip_labels=("exc",))
        ctx.ob("a later block without a stored rendering is answered 4.08", okh, fi, l)
    es = EA.escapes(fi)
    # named exemption L3': Message.__init__'s `payload is None` TypeError cannot be triggered by copy(payload=<bytes slice>)
    bad = []
    for e_ in es:
        if any(e_.cls == a or prog.is_subclass(e_.cls, a) for a in ALLOWED):
            continue
        if e_.cls == "TypeError" and e_.func == "message.Message.__init__" and "Payload must not be None" in e_.text:
            ctx.note("L3' applied: %r (copy() passes a bytes slice or the existing payload)" % e_)
            continue
        bad.append(e_)
    for e_ in sorted(bad, key=repr):
        ofi = prog.funcs.get("aiocoap." + e_.func)
        ctx.ob("a Block2 request that cannot be served is answered 4.08/4.00, never 5.xx", False, ofi, fake(e_.line), construct="%s: %s" % (e_.cls, e_.text), detail="escapes via %s" % " > ".join(e_.via))
    if not bad:
        ctx.ob("escape set of extract_or_insert (excluding the handler's own exceptions) is within {Incomplete, BadRequest}", True, fi, fi.node, construct="Block2Cache.extract_or_insert")
    ctx.need(not [u for u in EA.unresolved], "unresolved calls in extract_or_insert region: %s" % EA.unresolved[:3])
    # slicing via _extract_block with the request's block number and size exponent
    ex = [c_ for c_ in calls_in(fi.node) if isinstance(c_.func, ast.Attribute) and c_.func.attr == "_extract_block"]
    ctx.floor("_extract_block sites", len(ex), 1)
    for c_ in ex:
        a0 = c_.args
        ok = len(a0) == 3 and chain(a0[0]).endswith(".block_number") and chain(a0[1]).endswith(".size_exponent") and chain(a0[0]).split(".")[0] == chain(a0[1]).split(".")[0]
        src = resolve_local(fi.node, ast.Name(id=chain(a0[0]).split(".")[0], ctx=ast.Load())) if ok else None
        ok2 = src is not None and isinstance(src, ast.BoolOp) and isinstance(src.op, ast.Or) and chain(src.values[0]) == rq + ".opt.block2"
        ctx.ob("the slice is taken with the request's own Block2 number and size exponent", ok and ok2, fi, c_)
        recv = c_.func.value
        okr = isinstance(recv, ast.Name) and len(writes_to_name(fi.node, recv.id)) == 2
        ctx.ob("the slice is taken from the rendering just made or the stored one", okr, fi, c_)
    st = [(k, n) for k, n in stores_to(fi.node, "self._completes", nested=False) if k == "setitem"]
    ctx.ob("a rendering that needs more than one block is stored for the later blocks", len(st) == 1, fi, st[0][1] if st else fi.node, construct=stmt_text(st[0][1]) if st else "extract_or_insert: store")
    for k, n in st:
        for c_ in ex:
            ctx.ob("the rendering is stored before the first slice is returned", cfg.dominates(cfg.loc1(n), cfg.loc1(c_)), fi, n)
    # _extract_block arithmetic (non-BERT arm) -- RFC 7959: size 2**(szx+4), start num*size, more iff bytes remain
    xb = prog.func("message.Message._extract_block")
    num, szx, mb = params(xb)
    xcfg = cfg_of(xb)
    # roles are identified structurally, not by name: the payload slice self.payload[S:E] gives the start and end
    # locals, the option tuple (number, M, size_exp) gives the more local, and the non-BERT start definition
    # `number * X` gives the size local
    sl = [n for n in walk_no_nested(xb.node) if isinstance(n, ast.Subscript) and chain(n.value) == "self.payload" and isinstance(n.slice, ast.Slice) and isinstance(n.slice.lower, ast.Name) and n.slice.upper is not None and n.slice.step is None]
    ctx.need(len(sl) == 1, "_extract_block: the payload slice self.payload[start:end] was not found")
    S = sl[0].slice.lower.id
    E = sl[0].slice.upper.id if isinstance(sl[0].slice.upper, ast.Name) else None
    start_defs = [n for n in writes_to_name(xb.node, S) if isinstance(n, ast.Assign)]
    nonbert_start = [n for n in start_defs if guarded_by(xcfg, xcfg.loc1(n), "%s == 7" % szx, False)]
    ctx.need(len(nonbert_start) == 1, "_extract_block: non-BERT start definition not found")
    mb_ = match("%s * $x" % num, nonbert_start[0].value) or match("$x * %s" % num, nonbert_start[0].value)
    Nn = Normalizer()
    if mb_ is not None and isinstance(mb_["x"], ast.Name):
        Z = mb_["x"].id
        size_defs = [n for n in writes_to_name(xb.node, Z) if isinstance(n, ast.Assign)]
        nonbert_size = [n for n in size_defs if guarded_by(xcfg, xcfg.loc1(n), "%s == 7" % szx, False)]
        ctx.need(len(nonbert_size) == 1, "_extract_block: non-BERT size definition not found")
        size_p = Nn.poly(nonbert_size[0].value)
        ctx.ob("block size is 2**(SZX+4)", size_p == Nn.poly(ast.parse("2**(%s+4)" % szx, mode="eval").body), xb, nonbert_size[0], detail=repr(size_p), construct="_extract_block size: %s" % stmt_text(nonbert_size[0].value))
        st_p = Normalizer(penv={Z: size_p}).poly(nonbert_start[0].value)
    else:
        Z = None
        size_p = Nn.poly(ast.parse("2**(%s+4)" % szx, mode="eval").body)
        st_p = Nn.poly(nonbert_start[0].value)
    ctx.ob("block offset is NUM * 2**(SZX+4)", st_p == Poly.atom(num) * Nn.poly(ast.parse("2**(%s+4)" % szx, mode="eval").body), xb, nonbert_start[0], detail=repr(st_p), construct="_extract_block start: %s" % stmt_text(nonbert_start[0].value))
    raises = [n for n in walk_no_nested(xb.node) if isinstance(n, ast.Raise)]
    N2 = Normalizer()
    okr = False
    for r in raises:
        facts = cmp_guard_nf(xcfg, xcfg.loc1(r), N2)
        cls = EA._exc_class(xb, r.exc)
        if ("lt", Poly.atom("len(self.payload)") - Poly.atom(S) - Poly.const(1)) in facts and cls == "aiocoap.error.BadRequest":
            okr = True
    ctx.ob("a block starting at or beyond the end of the body is answered 4.00", okr, xb, raises[0] if raises else xb.node, construct="_extract_block out-of-range guard")
    end_defs = [n for n in writes_to_name(xb.node, E) if isinstance(n, ast.Assign)] if E else []
    oke = False
    ss = Poly.atom(S) + (Poly.atom(Z) if Z else size_p)
    ln = Poly.atom("len(self.payload)")
    clamped_end = False  # the upper bound is min(start+size, len) (True) or start+size relying on slice clamping (False)
    if E is None:
        try:
            oke = N2.poly(sl[0].slice.upper) == ss
        except NormError:
            oke = False
    elif len(end_defs) == 1:
        v = end_defs[0].value
        mm = match("min($a, $b)", v)
        if mm is not None:
            oke = {repr(N2.poly(mm["a"])), repr(N2.poly(mm["b"]))} == {repr(ss), repr(ln)}
            clamped_end = oke
        elif isinstance(v, ast.IfExp):
            try:
                t = N2.cmp(v.test)
                a_, b__ = N2.poly(v.body), N2.poly(v.orelse)
                if t == ("lt", ss - ln) or t == ("lt", ss - ln - Poly.const(1)):
                    oke = a_ == ss and b__ == ln
                elif t == ("lt", ln - ss) or t == ("lt", ln - ss - Poly.const(1)):
                    oke = a_ == ln and b__ == ss
                clamped_end = oke
            except NormError:
                oke = False
        else:
            try:
                oke = N2.poly(v) == ss
            except NormError:
                oke = False
    ctx.ob("the slice ends at min(start + size, len(body)) (explicitly, or start + size with slice clamping)", oke, xb, end_defs[0] if end_defs else sl[0], construct="_extract_block end")
    # the option tuple (number, M, size_exp)
    bo = []
    for n in walk_no_nested(xb.node):
        if isinstance(n, ast.Tuple) and len(n.elts) == 3 and isinstance(n.elts[0], ast.Name) and n.elts[0].id == num and isinstance(n.elts[2], ast.Name) and n.elts[2].id == szx and isinstance(n.elts[1], ast.Name):
            bo.append(n)
    ctx.ob("the block option of the answer is (NUM, more, SZX) as requested", len(bo) == 1, xb, bo[0] if bo else xb.node, construct="_extract_block option")
    okm = False
    more_defs = []
    if bo:
        M = bo[0].elts[1].id
        more_defs = [n for n in writes_to_name(xb.node, M) if isinstance(n, ast.Assign)]
        if len(more_defs) == 1:
            v = more_defs[0].value
            if isinstance(v, ast.IfExp) and isinstance(v.body, ast.Constant) and v.body.value is True and isinstance(v.orelse, ast.Constant) and v.orelse.value is False:
                v = v.test
            try:
                got = N2.cmp(v)
                okm = got == ("lt", ss - ln) or (E is not None and got == ("lt", Poly.atom(E) - ln))
            except NormError:
                okm = False
    ctx.ob("the more-flag is set exactly when bytes remain after the slice (end < len(body))", okm, xb, more_defs[0] if more_defs else xb.node, construct="_extract_block more")
    # the slice and the option reach the copy
    cps = [c_ for c_ in calls_in(xb.node) if call_name(c_) == "self.copy"]
    okc = bool(cps)
    for c_ in cps:
        pk = next((k.value for k in c_.keywords if k.arg == "payload"), None)
        bk_ = [k.value for k in c_.keywords if k.arg in ("block1", "block2")]
        okc = okc and pk is not None and resolve_local(xb.node, pk) is sl[0] and len(bk_) == 1 and bo and resolve_local(xb.node, bk_[0]) is bo[0]
    ctx.ob("the answer carries body[start:end] and that block option", okc, xb, cps[0] if cps else xb.node, construct="_extract_block result")


@R.clause("C06.g", "TimeoutDict: refreshed on get and set, expiry keeps exactly the recently used keys; lifetime is MAX_TRANSMIT_WAIT")
def g(ctx):
    td = "util.asyncio.timeoutdict.TimeoutDict."
    for name in ("__getitem__", "__setitem__"):
        fi = ctx.prog.func(td + name)
        key = params(fi)[0]
        cfg = cfg_of(fi)
        acc = [c_ for c_, b_ in find("self._accessed(%s)" % key, fi.node)]
        ctx.ob("%s marks the key as recently used on every normal path" % name, bool(acc) and cfg.must_pass(cfg.entry, [cfg.loc1(a_) for a_ in acc]), fi, acc[0] if acc else fi.node, construct="TimeoutDict.%s refresh" % name)
    acc = ctx.prog.func(td + "_accessed")
    key = params(acc)[0]
    cfg = cfg_of(acc)
    adds = [c_ for c_, b_ in find("self._recently_accessed.add(%s)" % key, acc.node)]
    starts = [c_ for c_, b_ in find("self._start_over()", acc.node)]
    ok = bool(adds) and bool(starts) and cfg.must_pass(cfg.entry, [cfg.loc1(x) for x in adds + starts])
    ctx.ob("_accessed either records the key or starts the timer (during whose first period everything survives)", ok, acc, acc.node, construct="TimeoutDict._accessed")
    for s in starts:
        ctx.ob("the timer is started only when none is running", guarded_by(cfg, cfg.loc1(s), "self._timeout is None", True), acc, s)
    so = ctx.prog.func(td + "_start_over")
    cl = [c_ for c_ in calls_in(so.node) if isinstance(c_.func, ast.Attribute) and c_.func.attr == "call_later"]
    okc = len(cl) == 1 and chain(cl[0].args[0]) == "self.timeout" and chain(cl[0].args[1]) == "self._tick"
    ctx.ob("_start_over arms call_later(self.timeout, self._tick)", okc, so, cl[0] if cl else so.node)
    rs = [n for n in walk_no_nested(so.node) if isinstance(n, ast.Assign) and chain(n.targets[0]) == "self._recently_accessed"]
    okr = len(rs) == 1 and ((isinstance(rs[0].value, ast.Call) and chain(rs[0].value.func) == "set" and not rs[0].value.args) or (isinstance(rs[0].value, ast.Set) and not rs[0].value.elts))
    ctx.ob("_start_over resets the set of recently used keys", okr, so, rs[0] if rs else so.node)
    tk = ctx.prog.func(td + "_tick")
    tcfg = cfg_of(tk)
    st = [n for n in walk_no_nested(tk.node) if isinstance(n, ast.Assign) and chain(n.targets[0]) == "self._items"]
    okt = False
    if len(st) == 1 and isinstance(st[0].value, ast.DictComp):
        dc = st[0].value
        g_ = dc.generators[0]
        if match("self._items.items()", g_.iter) is not None and len(g_.ifs) == 1:
            cond = g_.ifs[0]
            kname = g_.target.elts[0].id if isinstance(g_.target, ast.Tuple) else None
            okt = match("%s in self._recently_accessed" % kname, cond) is not None and chain(dc.key) == kname
    ctx.ob("_tick keeps exactly the keys used since the previous tick", okt, tk, st[0] if st else tk.node, construct="TimeoutDict._tick filter")
    so_calls = [c_ for c_, b_ in find("self._start_over()", tk.node)]
    okre = bool(so_calls) and all(guarded_by(tcfg, tcfg.loc1(c_), "self._items", True) for c_ in so_calls) and all(tcfg.dominates(tcfg.loc1(st[0]), tcfg.loc1(c_)) for c_ in so_calls) if st else False
    ctx.ob("_tick re-arms iff items remain (after filtering)", okre, tk, so_calls[0] if so_calls else tk.node, construct="TimeoutDict._tick re-arm")
    clr = [n for n in walk_no_nested(tk.node) if isinstance(n, ast.Assign) and chain(n.targets[0]) == "self._timeout" and isinstance(n.value, ast.Constant) and n.value.value is None]
    ctx.ob("otherwise the timer is marked as not running", bool(clr) and all(guarded_by(tcfg, tcfg.loc1(n), "self._items", False) for n in clr), tk, clr[0] if clr else tk.node, construct="TimeoutDict._tick idle")
    # lifetimes
    for short, field in ((BW + "Block1Spool.__init__", "_assemblies"), (BW + "Block2Cache.__init__", "_completes")):
        fi = ctx.prog.func(short)
        st = [n for n in walk_no_nested(fi.node) if isinstance(n, ast.Assign) and chain(n.targets[0]) == "self." + field]
        ok = False
        if len(st) == 1:
            b_ = match("TimeoutDict($t)", st[0].value)
            if b_ is not None:
                t = b_["t"]
                ok = isinstance(t, ast.Attribute) and t.attr == "MAX_TRANSMIT_WAIT" and isinstance(t.value, ast.Call) and (chain(t.value.func) or "").endswith("TransportTuning")
        ctx.ob("%s lives MAX_TRANSMIT_WAIT after its last use" % field, ok, fi, st[0] if st else fi.node)


F_B = "aiocoap/blockwise.py"
F_M = "aiocoap/message.py"
F_T = "aiocoap/util/asyncio/timeoutdict.py"
R.seed("C06.a", F_B, "            except (KeyError, ValueError):", "            except KeyError:", "gap/overlap becomes 5.00 (applies to the repaired tree)")
R.seed("C06.a", F_B, "    code = codes.REQUEST_ENTITY_INCOMPLETE", "    code = codes.BAD_REQUEST", "4.08 rendered as 4.00")
R.seed("C06.a", F_M, "                raise error.BadRequest(\"Payload size does not match Block1\")", "                raise ValueError(\"Payload size does not match Block1\")", "size mismatch not rendered as 4.00")
R.seed("C06.b", F_B, "            raise ContinueException(req.opt.block1)", "            raise ContinueException((0, True, req.opt.block1.size_exponent))", "Continue does not echo the block")
R.seed("C06.b", F_B, "        m.opt.block1 = self.block1\n", "", "Continue without Block1")
R.seed("C06.c", F_B, "        message.remote.blockwise_key,\n", "        None,\n", "remote dropped from the transfer key")
R.seed("C06.c", F_B, "        message.code,\n", "        None,\n", "method dropped from the transfer key")
R.seed("C06.c", F_B, "                OptionNumber.BLOCK1,\n", "", "Block1 part of the key: every block a new transfer")
R.seed("C06.d", F_M, "        if block1.start == len(self.payload):", "        if block1.start <= len(self.payload):", "overlap accepted")
R.seed("C06.d", F_M, "            if len(next_block.payload) == block1.size:", "            if len(next_block.payload) <= block1.size:", "short non-final block accepted")
R.seed("C06.e", F_B, "        if req.opt.block1.more:\n            raise ContinueException(req.opt.block1)", "        if False:\n            raise ContinueException(req.opt.block1)", "handler called on partial body")
R.seed("C06.e", F_B, "        if req.opt.block1.block_number == 0:\n            # silently", "        if req.opt.block1.block_number <= 1:\n            # silently", "block 1 restarts the assembly")
R.seed("C06.e", "aiocoap/interfaces.py", "            req = self._block1.feed_and_take(req)\n", "            self._block1.feed_and_take(req)\n", "handler sees the last block only")
R.seed("C06.f", F_B, "        if req.opt.block2 is None or req.opt.block2.block_number == 0:", "        if req.opt.block2 is None or req.opt.block2.block_number >= 0:", "every block re-rendered")
R.seed("C06.f", F_B, "            except KeyError:\n                raise IncompleteException from None\n\n        if (", "            except KeyError:\n                assembled = await response_builder()\n\n        if (", "unknown later block re-renders")
R.seed("C06.f", F_M, "        more = True if end < len(self.payload) else False", "        more = True if end <= len(self.payload) else False", "more-flag on the last block")
R.seed("C06.f", F_M, "            size = 2 ** (size_exp + 4)\n            start = number * size\n\n        if start >= len(self.payload):", "            size = 2 ** (size_exp + 4)\n            start = number * size\n\n        if start > len(self.payload):", "empty block beyond the end")
R.seed("C06.f", F_M, "            size = 2 ** (size_exp + 4)\n            start = number * size\n\n        if start", "            size = 2 ** (size_exp + 3)\n            start = number * size\n\n        if start", "wrong block size")
R.seed("C06.g", F_T, "        result = self._items[key]\n        self._accessed(key)\n", "        result = self._items[key]\n", "reads do not refresh")
R.seed("C06.g", F_T, "            k: v for (k, v) in self._items.items() if k in self._recently_accessed", "            k: v for (k, v) in self._items.items() if True", "nothing ever expires")
R.seed("C06.g", F_B, "        self._assemblies = TimeoutDict(numbers.TransportTuning().MAX_TRANSMIT_WAIT)", "        self._assemblies = TimeoutDict(numbers.TransportTuning().ACK_TIMEOUT)", "state lives 2 s")
R.seed("C06.g", F_T, "        if self._items:\n            self._start_over()", "        if not self._items:\n            self._start_over()", "timer stops while items remain")
