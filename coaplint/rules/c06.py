"""C06 Block-wise server: handlers see only complete bodies, blocks are exact slices.

All clauses are phrased over the symbolic paths of the anchored functions (`_kit_c06.SymExec`): what is stored /
raised / returned / called under which *facts*, with every local resolved to its value on that path.  Nothing depends
on the nesting of `if`s, early returns, named temporaries, conditional expressions against statements, `min()` against
a comparison, swapped arms, De Morgan forms or helper functions introduced by a clean-up."""

import ast

from ..rulekit import *
from ..norm import Normalizer, NormError
from ..exc import EscapeAnalysis
from ._kit_c06 import SymExec, ShapedEscapes, txt, parse as P, callable_body, _walk_values, apply_callable, filtered_iter, handler_types, inline_walrus
from ._kit_c06 import CollView, kind_of_container, views_at_result, container_views_at_result, function_of_fields
from ._kit_c06 import CUnsupported, CRaise, CMethod, CVal, CHandle, ConcreteEval, fresh_timeoutdict, run_tick, tick_tables, recent_subset_invariant, run_history, history_tables

R = Rules(
    "C06",
    explanation=(
        "Structural clauses of server-side block-wise handling: (a) the escape set of Block1Spool.feed_and_take over its "
        "resolved closure is a subset of {ContinueException (2.31), IncompleteException (4.08), error.BadRequest (4.00)} -- "
        "anything else becomes 5.00; (b) the Continue response echoes the request's own Block1 option; (c) the transfer key "
        "is (remote.blockwise_key, code, cache key without Block1/Block2/Observe), the cache key holds (number, value) of "
        "every option INSTANCE except the ignored and the safe-to-forward NoCacheKey ones (none of the others is left out; "
        "a repeated option contributes one element per instance, in order: no set, no dictionary keyed by the option number, "
        "no re-sorting on the way into the result), the UDP "
        "endpoint's blockwise_key holds the complete socket address; (d) on every path of "
        "_append_request_block the assembly is extended exactly when `block1.start == len(payload)` (otherwise it raises "
        "and leaves the assembly untouched) and a non-final block of the wrong size raises BadRequest; (e) feed_and_take "
        "returns normally only without Block1 or with the more-flag clear, block 0 (re)starts and later blocks extend the "
        "assembly of the same transfer key, and the handler is rendered only with what feed_and_take returned; (f) the "
        "Block2 cache renders on exactly the paths on which Block2 is absent or number 0, otherwise looks up (KeyError -> "
        "4.08); the rendering is served whole iff it fits the transport's payload limit and the requested block size, else "
        "stored and sliced through _extract_block with the request's own number / size exponent (0 and the peer's maximum "
        "exponent without Block2), which on every path raises 4.00 iff NUM*2**(SZX+4) >= len(body), returns "
        "body[start:min(start+size, len)] and sets the more-flag iff start+size < len(body); nothing but 4.08/4.00 escapes "
        "-- Message.copy and Message.__init__ are analysed for the keyword sets and values _extract_block passes (no "
        "Type(None), no URI parsing, no None payload, no left-over keyword that is not an option); (g) TimeoutDict returns "
        "the stored value and raises KeyError for an absent key, refreshes on "
        "get and set, _tick keeps exactly the recently accessed keys and re-arms iff items remain (decided by its effect: the "
        "checker's own interpreter runs _tick on every table of up to three stored keys x every set of used keys and compares "
        "the final state -- entries, pending timers, handle, set of used keys -- with the specification), and both stores use "
        "MAX_TRANSMIT_WAIT; (h) the lifetime bound itself over histories: a fresh TimeoutDict is driven through its public protocol "
        "on a model loop whose timers fire when due (accesses within a period, across a tick, across and long after an idle phase "
        "in which the timer stopped) and a key is found 0.97 lifetimes and not found 2.03 lifetimes after its last use -- whatever "
        "state the class keeps between periods.  Interleavings of several clients at run time are not decided."
    ),
    rule_text="escape sets over the resolved call graph with class-code facts, call shapes decided by abstract execution of the callee (keyword sets, sentinels, values); symbolic path facts (interval facts with transitive difference bounds for block arithmetic, truth facts otherwise) with forward-substituted values, namedtuple components / properties / helper functions read as their definitions; concrete evaluation of the expiry step on small tables (the checker's own syntax-tree interpreter over its own values)",
)

BW = "blockwise."
ALLOWED = {
    "aiocoap.blockwise.ContinueException": "CONTINUE",
    "aiocoap.blockwise.IncompleteException": "REQUEST_ENTITY_INCOMPLETE",
    "aiocoap.error.BadRequest": "BAD_REQUEST",
}
CONT = "aiocoap.blockwise.ContinueException"
INCOMPLETE = "aiocoap.blockwise.IncompleteException"
BADREQ = "aiocoap.error.BadRequest"


def fake(line):
    n = ast.Pass()
    n.lineno = line
    return n


def _class_code(prog, qn):
    v, ci = prog.class_attr(qn, "code")
    return chain(v).split(".")[-1] if v is not None and chain(v) else None


class _Agg:
    """One obligation per (text, construct): refuted when it fails on any path; the detail names the first such path."""

    def __init__(self, ctx, fi):
        self.ctx, self.fi = ctx, fi
        self.items = {}
        self.unfollowed = set()
        self.floors = []

    def saw(self, sx, paths):
        """remember the helpers with effects that the executor could not look into on these paths"""
        for p in paths:
            self.unfollowed |= sx.unfollowed(p)

    def add(self, desc, ok, node, detail=None, construct=None):
        k = (desc, construct if construct is not None else id(node))
        it = self.items.setdefault(k, [desc, True, node, None, construct])
        if not ok and it[1]:
            it[1] = False
            it[3] = detail
        return ok

    def floor(self, what, n, floor):
        """an instance-count floor checked after the obligations have been recorded: a refuted obligation is reported even
        when the fault also empties a site family"""
        self.floors.append((what, n, floor))

    def flush(self):
        try:
            self._flush()
        finally:
            fl, self.floors = self.floors, []
        for what, n, floor in fl:
            self.ctx.floor(what, n, floor)

    def _flush(self):
        if self.unfollowed and any(not it[1] for it in self.items.values()):
            # a failing obligation on paths with an unexplored helper is not a finding: refuse
            raise AnalysisError("%s calls %s, whose effects the path executor does not follow (not a function of the confirmed tree, not expanded by the canonicalisation)" % (self.fi.short, ", ".join(sorted(q[len("aiocoap."):] if q.startswith("aiocoap.") else q for q in self.unfollowed))))
        for desc, ok, node, detail, construct in self.items.values():
            self.ctx.ob(desc, ok, self.fi, node, detail=detail, construct=construct)
        self.items = {}


def _where(sx, facts):
    return "on the path [%s]" % facts.describe()


def _exc_of(EA, fi, ev):
    """class of the exception raised by a raise event (the raised expression resolved through locals)"""
    e = ev.value if ev.value is not None else ev.node.exc
    if e is None:
        return None
    return EA._exc_class(fi, e)


def _end_class(EA, fi, p):
    ev = p.raised()
    return _exc_of(EA, fi, ev) if ev is not None else None


def _handler_catches(cfg, hid, names, prog=None, module=None):
    h = cfg.nodes[hid].ast
    if h.type is None:
        return True
    ts = handler_types(prog, module, h) if module is not None else (h.type.elts if isinstance(h.type, ast.Tuple) else [h.type])
    got = {(chain(t) or "").split(".")[-1] for t in ts}
    return bool(got & (set(names) | {"Exception", "BaseException"}))


def _reads(sx, p, field):
    """(event, subscript node, resolved key) of every executed read `field[key]` on the path"""
    for ev in p.events:
        if ev.raw is None or ev.kind == "exc":
            continue
        for n in _walk_values(ev.raw):
            if isinstance(n, ast.Subscript) and isinstance(n.ctx, ast.Load) and not isinstance(n.slice, ast.Slice):
                if chain(sx.resolve(n.value, ev)) == field:
                    yield ev, n, sx.resolve(n.slice, ev)


def _failed_reads(sx, p, field, cfg):
    """(exc event, handler id) for every read of `field[...]` on the path that ended in a handler of this function"""
    for ev in p.events:
        if ev.kind != "exc" or not isinstance(ev.node, ast.AST):
            continue
        for n in _walk_values(ev.node):
            if isinstance(n, ast.Subscript) and isinstance(n.ctx, ast.Load) and chain(sx.subst(n.value, ev.env, ev.chains)) == field:
                yield ev, ev.value, sx.subst(n.slice, ev.env, ev.chains)
                break


def _stores(p, field, kind="setitem"):
    return [ev for ev in p.events if ev.kind == kind and isinstance(ev.target, ast.AST) and chain(ev.target) == field]


def _calls(sx, p, attr=None, name=None):
    """executed call sites whose resolved callee is `<recv>.attr` / the plain name `name`"""
    for ev, c, r in sx.calls(p):
        if attr is not None and isinstance(r.func, ast.Attribute) and r.func.attr == attr:
            yield ev, c, r
        elif name is not None and isinstance(r.func, ast.Name) and r.func.id == name:
            yield ev, c, r


def _arg(call, idx, kw):
    if len(call.args) > idx and not any(isinstance(a, ast.Starred) for a in call.args[: idx + 1]):
        return call.args[idx]
    for k in call.keywords:
        if k.arg == kw:
            return k.value
    return None


def _bt_fields(prog):
    """field names of optiontypes.BlockOption.BlockwiseTuple (a namedtuple), in order"""
    ci = prog.cls("optiontypes.BlockOption.BlockwiseTuple")
    for b in ci.node.bases:
        if isinstance(b, ast.Call) and (chain(b.func) or "").endswith("namedtuple") and len(b.args) >= 2:
            f = b.args[1]
            if isinstance(f, (ast.List, ast.Tuple)) and all(isinstance(x, ast.Constant) for x in f.elts):
                return [x.value for x in f.elts]
            if isinstance(f, ast.Constant) and isinstance(f.value, str):
                return f.value.replace(",", " ").split()
    raise AnalysisError("BlockwiseTuple is not a namedtuple with literal field names")


def _block_domains(opt, fields):
    """Value ranges of the components of a block option as they come off the wire (BlockOption.decode: number =
    as_integer >> 4 is unsigned, more = bool(bit 3), size exponent = 3 bits): `number > 0`, `number >= 1`,
    `number != 0`, `number` are the same fact, as are `more`, `more == 1`, `more is True`."""
    return {"%s.%s" % (opt, fields[0]): (0, float("inf")), "%s.%s" % (opt, fields[1]): (0, 1), "%s.%s" % (opt, fields[2]): (0, 7)}


def _declare_blocks(prog, sx):
    """Block option values (`<x>.opt.block1`, `<x>.opt.block2`, BlockwiseTuple(...)) are namedtuples of the program:
    components by index or by name, their properties (`size`, `start`, `is_bert`) and side-effect-free methods
    (`is_valid_for_payload_size`) mean what optiontypes.BlockOption.BlockwiseTuple defines."""
    ci = prog.cls("optiontypes.BlockOption.BlockwiseTuple")
    fields = _bt_fields(prog)

    def pred(e):
        if isinstance(e, ast.Attribute) and e.attr in ("block1", "block2") and isinstance(e.value, ast.Attribute) and e.value.attr == "opt":
            return True
        return isinstance(e, ast.Call) and (chain(e.func) or "").split(".")[-1] == "BlockwiseTuple"

    sx.declare_type(pred, ci, fields)
    return sx


def _field_of(e, fields):
    """Normal form of a component of a block option value: X.block_number == X[0], BlockwiseTuple(a, b, c).more == b,
    (a, b, c)[2] == c.   -> ('of', base expr, index) | ('val', expr)"""
    idx = None
    base = None
    if isinstance(e, ast.Attribute) and e.attr in fields:
        idx, base = fields.index(e.attr), e.value
    elif isinstance(e, ast.Subscript) and isinstance(e.slice, ast.Constant) and isinstance(e.slice.value, int) and 0 <= e.slice.value < len(fields):
        idx, base = e.slice.value, e.value
    if idx is None:
        return ("val", e)
    if isinstance(base, ast.Call) and (chain(base.func) or "").split(".")[-1] == "BlockwiseTuple":
        v = _arg(base, idx, fields[idx])
        if v is not None:
            return ("val", v)
    if isinstance(base, ast.Tuple) and len(base.elts) == len(fields):
        return ("val", base.elts[idx])
    return ("of", base, idx)


def _as_block_tuple(v, fields):
    """BlockwiseTuple(a, b, c) / BlockwiseTuple(block_number=a, ...) as the tuple (a, b, c)"""
    if isinstance(v, ast.Call) and (chain(v.func) or "").split(".")[-1] == "BlockwiseTuple" and not any(isinstance(a, ast.Starred) for a in v.args) and not any(k.arg is None for k in v.keywords):
        got = [_arg(v, i, f) for i, f in enumerate(fields)]
        if all(x is not None for x in got) and len(v.args) + len(v.keywords) == len(fields):
            return ast.Tuple(elts=got, ctx=ast.Load())
    return v


def _is_field(e, fields, base, name):
    r = _field_of(e, fields)
    return r[0] == "of" and same(r[1], base) and r[2] == fields.index(name)


# ---------------------------------------------------------------------------------------------------------------------


def _key_established(sx, paths, cfg, sub, field):
    """Lemma L6: a read `self.F[k]` cannot raise KeyError when, on every path on which it is executed, an earlier
    statement of the same atomic (plain) function has stored to or successfully read `self.F[k']` with k' the same
    value, and nothing has removed entries in between."""
    if not is_plain_sync(sx.fi):
        return False
    nid = cfg.loc1(sub)
    seen = False
    for p in paths:
        for i, ev in enumerate(p.events):
            if ev.nid != nid or ev.kind == "exc" or ev.raw is None or not contains(ev.raw, sub):
                continue
            K = sx.resolve(sub.slice, ev)
            est = False
            for ev2 in p.events[:i]:
                if ev2.kind == "exc":
                    continue
                if ev2.kind in ("store", "delitem", "del") and isinstance(ev2.target, ast.AST) and chain(ev2.target) == field:
                    return False
                if ev2.kind == "setitem" and chain(ev2.target) == field and same(ev2.key, K):
                    est = True
                if ev2.raw is None:
                    continue
                for n in _walk_values(ev2.raw):
                    if isinstance(n, ast.Subscript) and isinstance(n.ctx, ast.Load) and chain(sx.resolve(n.value, ev2)) == field and same(sx.resolve(n.slice, ev2), K):
                        est = True
                    if isinstance(n, ast.Call) and isinstance(n.func, ast.Attribute) and n.func.attr in ("pop", "popitem", "clear") and chain(sx.resolve(n.func.value, ev2)) == field:
                        return False
            if not est:
                return False
            seen = True
    return seen


def _in_try(cfg, n):
    p = cfg.parent.get(id(n))
    while p is not None:
        if isinstance(p, ast.Try):
            return True
        p = cfg.parent.get(id(p))
    return False


@R.clause("C06.a", "only 2.31 / 4.08 / 4.00 conditions leave Block1Spool.feed_and_take")
def a(ctx):
    prog = ctx.prog
    fi = prog.func(BW + "Block1Spool.feed_and_take")
    rq = params(fi)[0]
    cfg = cfg_of(fi)
    EA = ShapedEscapes(prog)
    sx = _declare_blocks(prog, SymExec(prog, fi))
    sx.nonempty_when_set = {"%s.opt.block1" % rq}
    sx.domains = _block_domains("%s.opt.block1" % rq, _bt_fields(prog))
    paths = sx.paths()
    # L6: e.g. the final `return self._assemblies[block_key]`
    for n in walk_no_nested(fi.node):
        if isinstance(n, ast.Subscript) and isinstance(n.ctx, ast.Load) and chain(resolve_local(fi.node, n.value)) == "self._assemblies":
            if not _in_try(cfg, n) and _key_established(sx, paths, cfg, n, "self._assemblies"):
                EA.dead_nodes.add(id(n))
                EA.lemmas_used.append("L6 %s: key established on every path by an earlier store/read of the same key in this atomic function" % stmt_text(n))
    es = EA.escapes(fi)
    funcs = {k[0] for k in EA.memo}
    ctx.extra["escape_region_feed_and_take"] = {
        "functions_in_closure": sorted(f[len("aiocoap."):] for f in funcs),
        "resolved_call_edges": EA.resolved_edges,
        "unresolved_calls": EA.unresolved,
        "implicit_raiser_sites": sorted(set(EA.implicit_sites)),
        "lemmas": EA.lemmas_used,
        "by_unique_name": sorted(set(EA.res.by_unique_name)),
        "escape_set": sorted(repr(e) for e in es),
        "call_shape_flow": [list(x) for x in EA.flow_log],
    }
    ctx.floor("functions in the closure of feed_and_take", len(funcs), 6)
    ctx.need(not EA.unresolved, "unresolved calls in the region: %s" % EA.unresolved[:4])
    ctx.need(any(f.endswith("._append_request_block") for f in funcs), "_append_request_block not part of the analysed closure")
    seen_allowed = set()
    bad = []
    for e in es:
        ok = [a for a in ALLOWED if e.cls == a or prog.is_subclass(e.cls, a)]
        if ok:
            seen_allowed.add(ok[0])
        else:
            bad.append(e)
    for e in sorted(bad, key=repr):
        ofi = prog.funcs.get("aiocoap." + e.func)
        ctx.ob("a block that cannot be accepted is answered 2.31/4.08/4.00, never 5.xx", False, ofi, fake(e.line), construct="%s: %s" % (e.cls, e.text), detail="escapes via %s" % " > ".join(e.via))
    if not bad:
        ctx.ob("escape set of feed_and_take is a subset of {Continue, Incomplete, BadRequest} (%d raise sites)" % len(es), True, fi, fi.node, construct="Block1Spool.feed_and_take")
    for qn, code in ALLOWED.items():
        ctx.ob("%s renders as %s" % (qn.split(".")[-1], code), _class_code(prog, qn) == code and prog.is_subclass(qn, "aiocoap.error.RenderableError"), None, None, construct="class %s" % qn.split(".")[-1], detail="code attribute %s" % _class_code(prog, qn))
    ctx.ob("all three outcomes are produced", seen_allowed == set(ALLOWED), fi, fi.node, construct="Block1Spool.feed_and_take outcomes", detail=str(sorted(seen_allowed)))
    # which condition yields which answer: 2.31 only for blocks that announce more
    MORE = P("%s.opt.block1.more" % rq)
    ag = _Agg(ctx, fi)
    ag.saw(sx, paths)
    for p in paths:
        ev = p.raised()
        if ev is not None and _exc_of(EA, fi, ev) == CONT:
            ag.add("2.31 Continue is produced exactly for blocks with the more-flag", sx.entails(p.facts, MORE), ev.node, detail=_where(sx, p.facts))
    ag.flush()


@R.clause("C06.b", "the 2.31 response echoes the request's own Block1 option")
def b(ctx):
    prog = ctx.prog
    fi = prog.func(BW + "Block1Spool.feed_and_take")
    rq = params(fi)[0]
    EA = ShapedEscapes(prog)
    sx = _declare_blocks(prog, SymExec(prog, fi))
    paths = sx.paths()
    own = P("%s.opt.block1" % rq)
    ag = _Agg(ctx, fi)
    ag.saw(sx, paths)
    n = 0
    for p in paths:
        ev = p.raised()
        if ev is None or _exc_of(EA, fi, ev) != CONT:
            continue
        n += 1
        v = ev.value
        arg = None
        if isinstance(v, ast.Call):
            ip = params(prog.func(BW + "ContinueException.__init__"))
            arg = _arg(v, 0, ip[0]) if ip else None
        ag.add("Continue is constructed from the request's Block1 option", arg is not None and same(arg, own), ev.node, detail="argument %s" % (txt(arg) if arg is not None else None))
    ag.floor("paths raising ContinueException", n, 1)
    ag.flush()
    init = prog.func(BW + "ContinueException.__init__")
    ip = params(init)[0]
    si = SymExec(prog, init)
    attrs = set()
    for p in si.paths():
        got = {ev.target.attr for ev in p.evs("store") if isinstance(ev.target, ast.Attribute) and chain(ev.target.value) == "self" and isinstance(ev.value, ast.Name) and ev.value.id == ip}
        ctx.need(len(got) == 1, "ContinueException.__init__ does not store its argument in one attribute")
        attrs |= got
    ctx.need(len(attrs) == 1, "ContinueException.__init__ does not store its argument in one attribute")
    attr = attrs.pop()
    tm = prog.func(BW + "ContinueException.to_message")
    st = SymExec(prog, tm)
    ag = _Agg(ctx, tm)
    ag.saw(st, st.paths())
    tpaths = [p for p in st.paths() if p.end != "raise"]
    ctx.floor("normal paths of ContinueException.to_message", len(tpaths), 1)
    for p in tpaths:
        rnode = next((ev.node for ev in reversed(p.events) if ev.kind == "ret"), tm.node)
        ret = p.ret
        base, stored = ret, None
        # the option given as a keyword of Message.copy (`m.copy(block1=v)`: a copy of m with that option set -- what
        # copy() does with left-over keywords is part of C06.f) is the same fact as a later `m.opt.block1 = v`
        if isinstance(ret, ast.Call) and isinstance(ret.func, ast.Attribute) and ret.func.attr == "copy" and not ret.args and [k.arg for k in ret.keywords] == ["block1"]:
            base, stored = ret.func.value, ret.keywords[0].value
        w = [ev for ev in p.evs("store") if isinstance(ev.target, ast.Attribute) and ev.target.attr == "block1" and base is not None and same(ev.target.value, ast.Attribute(value=base, attr="opt", ctx=ast.Load()))]
        if w:
            stored = w[-1].value
        okw = stored is not None and same(stored, P("self.%s" % attr))
        ag.add("to_message writes exactly that value into the response's Block1 option", okw, w[-1].node if w else rnode, construct="ContinueException.to_message block1", detail="stored %s" % (txt(stored) if stored is not None else None))
        n_render = sum(1 for ev, c_, r in st.calls(p) if isinstance(r.func, ast.Attribute) and r.func.attr == "to_message")
        ag.add("the response is the error's own rendering (code 2.31)", base is not None and match("super().to_message()", base) is not None and n_render == 1, rnode, construct="ContinueException.to_message result", detail="%d rendering call(s) on the path" % n_render)
    ag.flush()


def _literal_elts(prog, fi, e):
    """elements of a literal collection, also behind a module-level constant or a list()/tuple()/set()/frozenset() call"""
    for _ in range(4):
        if isinstance(e, (ast.List, ast.Tuple, ast.Set)):
            return list(e.elts)
        if isinstance(e, ast.Call) and chain(e.func) in ("list", "tuple", "set", "frozenset") and len(e.args) == 1 and not e.keywords:
            e = e.args[0]
            continue
        if isinstance(e, ast.Name):
            try:
                e = prog.module_const(fi.module.name, e.id)
            except AnchorError:
                return None
            continue
        return None
    return None


def _iter_roles(sx, it, target, coll):
    """A loop / comprehension `for target in it` over the mapping `coll`: -> (key expr, value expr) of the element, or None.
    Spellings: coll.items() with a pair target; coll / coll.keys() / list(coll) / sorted(coll) with a plain target."""
    while isinstance(it, ast.Call) and chain(it.func) in ("list", "tuple", "sorted", "iter") and len(it.args) == 1 and not it.keywords:
        it = it.args[0]
    if isinstance(it, ast.Call) and isinstance(it.func, ast.Attribute) and not it.args and not it.keywords and chain(it.func.value) == coll:
        if it.func.attr == "items" and isinstance(target, (ast.Tuple, ast.List)) and len(target.elts) == 2:
            return target.elts[0], target.elts[1]
        if it.func.attr == "items" and isinstance(target, ast.Name):
            return (ast.Subscript(value=target, slice=ast.Constant(value=0), ctx=ast.Load()), ast.Subscript(value=target, slice=ast.Constant(value=1), ctx=ast.Load()))
        if it.func.attr == "keys" and isinstance(target, ast.Name):
            return target, ast.Subscript(value=P(coll), slice=target, ctx=ast.Load())
        return None
    if chain(it) == coll and isinstance(target, ast.Name):
        return target, ast.Subscript(value=P(coll), slice=target, ctx=ast.Load())
    return None


@R.clause("C06.c", "transfer key = (remote.blockwise_key, code, cache key ignoring Block1/Block2/Observe)")
def c(ctx):
    prog = ctx.prog
    fi = prog.func(BW + "_extract_block_key")
    m = params(fi, skip_self=False)[0]
    sx = _declare_blocks(prog, SymExec(prog, fi))
    paths = [p for p in sx.paths() if p.end != "raise"]
    ctx.need(len(paths) >= 1 and all(p.end == "return" and p.ret is not None for p in paths), "_extract_block_key does not return a value on every path")
    ag = _Agg(ctx, fi)
    ag.saw(sx, paths)
    for p in paths:
        rnode = next(ev.node for ev in reversed(p.events) if ev.kind == "ret")
        v = p.ret
        is3 = isinstance(v, ast.Tuple) and len(v.elts) == 3
        ag.add("the key is a 3-tuple", is3, rnode, construct="_extract_block_key result")
        if not is3:
            continue
        c1, c2, c3 = v.elts
        ag.add("first component separates endpoints (remote.blockwise_key)", chain(c1) == m + ".remote.blockwise_key", rnode, construct="_extract_block_key component 1", detail=txt(c1))
        ag.add("second component separates methods (code)", chain(c2) == m + ".code", rnode, construct="_extract_block_key component 2", detail=txt(c2))
        ign = None
        if isinstance(c3, ast.Call) and chain(c3.func) == m + ".get_cache_key":
            gp = params(prog.func("message.Message.get_cache_key"))
            l = _arg(c3, 0, gp[0]) if gp else None
            if isinstance(l, ast.Name) and l.id in p.objs and sum(1 for n in ast.walk(fi.node) if isinstance(n, ast.Name) and n.id == l.id) == 2:
                l = p.objs[l.id]  # a local list / set display used for nothing but this argument
            elts = _literal_elts(prog, fi, l) if l is not None else None
            if elts is not None and all(chain(e) for e in elts):
                ign = {chain(e).split(".")[-1] for e in elts}
        ag.add("third component is the cache key ignoring exactly Block1, Block2 and Observe", ign == {"BLOCK1", "BLOCK2", "OBSERVE"}, rnode, construct="_extract_block_key component 3", detail="%s ignoring %s" % (txt(c3), sorted(ign) if ign is not None else None))
    ag.flush()
    # blockwise_key of the UDP address keeps sockaddr (and local address)
    ucls = prog.cls("transports.udp6.UDP6EndpointAddress")
    bk = ucls.methods.get("blockwise_key")
    SOCK = P("self.sockaddr")

    def whole(v):
        # the complete socket address (host AND port ...) is a component of the key -- not a part of it like sockaddr[0]
        if same(v, SOCK):
            return True
        return isinstance(v, (ast.Tuple, ast.List)) and any(whole(x) for x in v.elts)

    if bk is not None:
        sb = SymExec(prog, bk)
        bpaths = [p for p in sb.paths() if p.end != "raise"]
        ctx.need(bpaths, "UDP6EndpointAddress.blockwise_key has no normal path")
        okk = all(p.ret is not None and whole(p.ret) for p in bpaths)
        ctx.ob("the UDP endpoint's blockwise_key contains the peer socket address", okk, bk, bk.node, construct="UDP6EndpointAddress.blockwise_key")
    else:
        # blockwise_key = property(<callable>): the callable applied to the instance
        pv = ucls.attrs.get("blockwise_key")
        ctx.need(isinstance(pv, ast.Call) and chain(pv.func) == "property" and len(pv.args) == 1 and not pv.keywords, "UDP6EndpointAddress.blockwise_key missing")
        anyf = next(iter(ucls.methods.values()))
        sb = SymExec(prog, anyf)
        v = apply_callable(sb, None, sb.subst(pv.args[0], sb.module_env()), [ast.Name(id="self", ctx=ast.Load())], anyf.module.imports) if not isinstance(pv.args[0], ast.Name) or pv.args[0].id not in ucls.methods else None
        ctx.need(v is not None, "UDP6EndpointAddress.blockwise_key: property(%s) is outside the rule's vocabulary" % txt(pv.args[0]))
        ctx.ob("the UDP endpoint's blockwise_key contains the peer socket address", whole(sb.subst(v, {})), None, None, construct="UDP6EndpointAddress.blockwise_key", detail=txt(v))
    # get_cache_key: an option enters the key as (number, value), and never when its number is listed in ignore_options
    gk = prog.func("message.Message.get_cache_key")
    ig = params(gk)[0]
    sg = SymExec(prog, gk)
    # option numbers: `n.is_safetoforward()` is `not n.is_unsafe()`, `n.is_cachekey()` is `not n.is_nocachekey()` (the
    # side-effect-free one-line predicates of numbers.optionnumbers.OptionNumber are read as their bodies)
    sg.declare_type(lambda e: isinstance(e, ast.Attribute) and e.attr == "number", prog.cls("numbers.optionnumbers.OptionNumber"), [])
    gpaths = sg.paths()
    ag = _Agg(ctx, gk)
    ag.saw(sg, gpaths)
    sites = 0

    def member(o, elt, facts_true, node, what):
        # `facts_true`: the facts under which the element enters the key
        nonlocal sites
        sites += 1
        IGN = ast.Compare(left=ast.Attribute(value=o, attr="number", ctx=ast.Load()), ops=[ast.In()], comparators=[ast.Name(id=ig, ctx=ast.Load())])
        ag.add("options listed in ignore_options never enter the key", all(sg.refutes(f, IGN) for f in facts_true), node, construct="get_cache_key %s: filter" % what, detail="facts %s" % [f.describe() for f in facts_true][:2])
        oke = isinstance(elt, ast.Tuple) and len(elt.elts) == 2 and same(elt.elts[0], ast.Attribute(value=o, attr="number", ctx=ast.Load())) and same(elt.elts[1], ast.Attribute(value=o, attr="value", ctx=ast.Load()))
        ag.add("every other cache-key option enters the key with number and value", oke, node, construct="get_cache_key %s: element" % what, detail=txt(elt))

    def skipped(o, facts_false, node, what):
        # `facts_false`: the facts under which an option does NOT enter the key -- only ignored options and the
        # safe-to-forward NoCacheKey ones may be left out (anything else would make different requests share a key)
        num = ast.Attribute(value=o, attr="number", ctx=ast.Load())
        IGN = ast.Compare(left=num, ops=[ast.In()], comparators=[ast.Name(id=ig, ctx=ast.Load())])
        SAFE = ast.Call(func=ast.Attribute(value=num, attr="is_safetoforward", ctx=ast.Load()), args=[], keywords=[])
        NCK = ast.Call(func=ast.Attribute(value=num, attr="is_nocachekey", ctx=ast.Load()), args=[], keywords=[])
        allowed = ast.BoolOp(op=ast.Or(), values=[IGN, ast.BoolOp(op=ast.And(), values=[SAFE, NCK])])
        bad = [f for f in facts_false if not sg.entails(f, allowed)]
        ag.add("an option is left out of the key only if it is listed in ignore_options or is a safe-to-forward NoCacheKey option", not bad, node, construct="get_cache_key %s: completeness" % what, detail="left out %s" % (_where(sg, bad[0]) if bad else ""))

    def instances(o, view, node, what):
        # The transfer key separates requests by their "set of cache-key options", and an option may be repeated
        # (Uri-Path, Uri-Query, Location-*, ETag, If-Match ...): `/a/b` and `/b/a`, `?dev=1&slot=x` and `?dev=2&slot=x`
        # are different requests.  The key therefore needs one element per option INSTANCE, in the order of the option
        # list -- which is what a list / tuple / generator gives, and what a set (equal elements merged, order gone), a
        # dictionary keyed by something that two instances can share (only one of them survives) or a plain sorted() does
        # not.  `view` is how the collection arrives in the result after all conversions (see _kit_c06.CollView).
        ctx.need(view.opaque is None, "get_cache_key: the options are converted by %s, which is outside the rule's vocabulary" % view.opaque)
        for K in view.collapse:
            # merged by equality of K: a loss exactly when two instances can agree in K -- certain when K is computed from
            # the option's number / value alone; a K that tells instances apart (a counter, id(), the option object
            # itself) is not interpreted
            ctx.need(function_of_fields(K, o.id, ("number", "value")), "get_cache_key: options are merged by %s, which is not a function of the option's number and value" % txt(K))
        lost = "merged by equal %s" % ", ".join(txt(K) for K in view.collapse) if view.collapse else ("order lost" if not view.ordered else "")
        ag.add("every instance of a repeated option enters the key, in the order of the option list", not view.collapse and view.ordered, node, construct="get_cache_key %s: instances" % what, detail=lost)

    def emit(o, view0, where, facts_true, node, what):
        """one contribution `view0` per option `o` to the local collection `where` (a name) / made by the expression
        `where` = (node, name of the tree it occurs in): judged as it arrives in the result"""
        finals = container_views_at_result(p, view0, where) if isinstance(where, str) else views_at_result(p, view0, where[0], where[1])
        for fv in finals:
            member(o, fv.elt, facts_true, node, what)
            instances(o, fv, node, what)
        return finals

    def opt_iter(it):
        return isinstance(it, ast.Call) and chain(it.func) == "self.opt.option_list" and not it.args

    def pairs_of(d):
        """(key, value) expressions of a literal mapping argument: {k: v}, [(k, v)], ((k, v),)"""
        if isinstance(d, ast.Dict) and all(k is not None for k in d.keys):
            return list(zip(d.keys, d.values))
        if isinstance(d, (ast.List, ast.Tuple)) and all(isinstance(x, ast.Tuple) and len(x.elts) == 2 for x in d.elts):
            return [(x.elts[0], x.elts[1]) for x in d.elts]
        return None

    for p in gpaths:
        if p.end == "raise":
            continue
        fors = [ev for ev in p.evs("for") if opt_iter(ev.value) and isinstance(ev.target, ast.Name)]
        sites_before = sites
        # a local collection filled in a loop over the options, in every spelling of "add one element": list.append /
        # insert / extend([x]) / += [x], set.add / update({x}) / |= {x}, dict[k] = v / setdefault / update({k: v}) / |= {k: v}
        for ev, c_, r in sg.calls(p):
            if not (isinstance(r.func, ast.Attribute) and isinstance(r.func.value, ast.Name) and r.func.value.id in p.objs and fors) or r.keywords:
                continue
            name, a_ = r.func.value.id, r.func.attr
            kind = kind_of_container(p.objs[name])
            one = (lambda x: CollView.set_(x)) if (kind == "set" or (kind is None and a_ in ("add", "update"))) else (lambda x: CollView.seq(x))
            got = []
            if kind == "map":
                if a_ in ("setdefault", "__setitem__") and len(r.args) == 2:
                    got = [CollView.map_(r.args[0], r.args[1])]
                elif a_ == "update" and len(r.args) == 1 and pairs_of(r.args[0]) is not None:
                    got = [CollView.map_(k_, v_) for k_, v_ in pairs_of(r.args[0])]
            elif a_ in ("append", "add", "appendleft") and len(r.args) == 1:
                got = [one(r.args[0])]
            elif a_ == "insert" and len(r.args) == 2:
                got = [one(r.args[1])]
            elif a_ in ("extend", "update", "extendleft") and len(r.args) == 1 and isinstance(r.args[0], (ast.List, ast.Tuple, ast.Set)):
                got = [one(x) for x in r.args[0].elts]
            for v0 in got:
                emit(fors[-1].target, v0, name, [ev.facts], c_, "accumulation")
        for ev in p.evs("setitem"):
            if fors and isinstance(ev.target, ast.Name) and ev.target.id in p.objs and kind_of_container(p.objs[ev.target.id]) == "map" and p.events.index(ev) > p.events.index(fors[-1]):
                emit(fors[-1].target, CollView.map_(ev.key, ev.value), ev.target.id, [ev.facts], ev.node, "accumulation")
        # `acc += [x]` / `acc = acc + [x]` / `acc |= {k: v}` inside the loop
        for ev in p.evs("bind"):
            v = ev.value
            if not (fors and isinstance(v, ast.BinOp) and isinstance(v.op, (ast.Add, ast.BitOr)) and any(isinstance(n, ast.Name) and n.id in p.objs for n in ast.walk(v.left)) and p.events.index(ev) > p.events.index(fors[-1])):
                continue
            got = []
            if isinstance(v.op, ast.Add) and isinstance(v.right, (ast.List, ast.Tuple)):
                got = [CollView.seq(x) for x in v.right.elts]
            elif isinstance(v.op, ast.BitOr) and isinstance(v.right, ast.Set):
                got = [CollView.set_(x) for x in v.right.elts]
            elif isinstance(v.op, ast.BitOr) and pairs_of(v.right) is not None and isinstance(v.right, ast.Dict):
                got = [CollView.map_(k_, v_) for k_, v_ in pairs_of(v.right)]
            for v0 in got:
                emit(fors[-1].target, v0, ev.target, [ev.facts], ev.node, "accumulation")
        if fors and sites == sites_before:
            # an iteration that added nothing to the key
            skipped(fors[-1].target, [p.facts], fors[-1].node, "accumulation")
        # comprehension / generator over the option list, anywhere in what is returned (also behind a local list)
        if p.ret is None:
            continue
        trees = [(None, p.ret)] + list(p.objs.items())
        imports = gk.module.imports
        for tname, root in trees:
            for n in ast.walk(root):
                # an element per option of the (possibly filtered) option list: comprehension / generator, map(f, options)
                tgt = None
                exprs = []
                conds = []
                if isinstance(n, (ast.ListComp, ast.GeneratorExp, ast.SetComp, ast.DictComp)) and len(n.generators) == 1 and isinstance(n.generators[0].target, ast.Name) and not n.generators[0].is_async:
                    g = n.generators[0]
                    r = filtered_iter(sg, p, g.iter, ast.Name(id=g.target.id, ctx=ast.Load()), imports)
                    if r is not None and opt_iter(r[0]):
                        tgt, conds = g.target, list(r[1]) + list(g.ifs)
                        exprs = [n.key, n.value] if isinstance(n, ast.DictComp) else [n.elt]
                elif isinstance(n, ast.Call) and chain(n.func) == "map" and len(n.args) == 2 and not n.keywords:
                    el = ast.Name(id="<option>", ctx=ast.Load())
                    r = filtered_iter(sg, p, n.args[1], el, imports)
                    if r is not None and opt_iter(r[0]):
                        if not views_at_result(p, CollView.seq(el), n, tname):
                            continue
                        elt = apply_callable(sg, p, n.args[0], [el], imports)
                        ctx.need(elt is not None, "get_cache_key: the function mapped over the options (%s) is outside the rule's vocabulary" % txt(n.args[0]))
                        tgt, conds, exprs = el, list(r[1]), [elt]
                if tgt is None:
                    continue
                if any(isinstance(x, ast.NamedExpr) for c_ in conds + exprs for x in ast.walk(c_)):
                    flat = inline_walrus(sg, conds + exprs)
                    conds, exprs = flat[: len(conds)], flat[len(conds):]
                view0 = CollView.map_(exprs[0], exprs[1]) if isinstance(n, ast.DictComp) else (CollView.set_(exprs[0]) if isinstance(n, ast.SetComp) else CollView.seq(exprs[0]))
                if not views_at_result(p, view0, n, tname):
                    continue  # does not reach the result
                cond = ast.BoolOp(op=ast.And(), values=conds) if len(conds) > 1 else (conds[0] if conds else ast.Constant(value=True))
                cond = sg.subst(cond, p.env, p.chains)
                sg._defs_now = p.defs
                sg._env_now = p.env
                decided = list(sg.decide(cond, p.facts))
                outs = [f for b_, f in decided if b_]
                rnode = next(ev.node for ev in reversed(p.events) if ev.kind == "ret")
                ctx.need(outs, "get_cache_key: the comprehension filter is never true")
                emit(tgt, view0, (n, tname), outs, rnode, "comprehension")
                skipped(tgt, [f for b_, f in decided if not b_], rnode, "comprehension")
    ag.floor("cache key accumulation sites", sites, 1)
    ag.flush()


@R.clause("C06.d", "a block is appended only at the current end of the assembly; a wrong length is 4.00")
def d(ctx):
    prog = ctx.prog
    fi = prog.func("message.Message._append_request_block")
    nb = params(fi)[0]
    EA = ShapedEscapes(prog)
    sx = _declare_blocks(prog, SymExec(prog, fi))
    sx.domains = _block_domains("%s.opt.block1" % nb, _bt_fields(prog))
    # the BERT case (size exponent 7: any multiple of the block size) belongs to C05
    paths = sx.paths(assume=[("%s.opt.block1.size_exponent == 7" % nb, False)])
    START = P("%s.opt.block1.start == len(self.payload)" % nb)
    MORE = P("%s.opt.block1.more" % nb)
    EQSZ = P("len(%s.payload) == %s.opt.block1.size" % (nb, nb))
    ag = _Agg(ctx, fi)
    ag.saw(sx, paths)
    n_app = n_bad = 0
    for p in paths:
        ctx.need(p.end in ("return", "fall", "raise"), "_append_request_block: loop in the path model")
        apps = _stores(p, "self.payload", "store")
        # a path whose decisions do not depend on the block at all is a precondition failure of the receiver, not a verdict on the block
        about_block = any(nb in names_in(ev.value) for ev in p.evs("test"))
        last = p.events[-1].node if p.events else fi.node
        for ev in apps:
            n_app += 1
            ag.add("the assembly is extended only when the block starts exactly at its current length (no gap, no overlap)", sx.entails(ev.facts, START), ev.node, detail=_where(sx, ev.facts))
            bb = match("self.payload + $x", ev.value) or match("b''.join([self.payload, $x])", ev.value) or match("b''.join((self.payload, $x))", ev.value)
            ag.add("what is appended is the block's payload", bb is not None and same(bb["x"], P("%s.payload" % nb)), ev.node, detail=txt(ev.value))
        if p.end == "raise" and not about_block and not apps:
            continue
        for st_ok, f in sx.decide(START, p.facts):
            if not st_ok:
                ag.add("a block that does not continue the assembly is refused (raises) and leaves the assembly untouched", p.end == "raise" and not apps, last, construct="_append_request_block: block out of place", detail=_where(sx, f))
            for mo, f1 in sx.decide(MORE, f):
                for eq, f2 in sx.decide(EQSZ, f1):
                    if mo and not eq:
                        ok = p.end == "raise" and not apps and (not st_ok or _end_class(EA, fi, p) == BADREQ)
                        ag.add("a non-final block whose payload length contradicts its block size is answered 4.00", ok, last, construct="_append_request_block: size guard", detail="%s: ends with %s %s" % (_where(sx, f2), p.end, _end_class(EA, fi, p) or ""))
        if p.end == "raise" and _end_class(EA, fi, p) == BADREQ:
            n_bad += 1
            ev = p.raised()
            ag.add("the size check applies to blocks with the more-flag and compares the payload length with the block size", sx.entails(p.facts, MORE) and sx.refutes(p.facts, EQSZ), ev.node, detail=_where(sx, p.facts))
            ag.add("the size check precedes the append", not apps, ev.node)
    ag.floor("payload extension sites", n_app, 1)
    ag.add("a non-final block whose payload length contradicts its block size is answered 4.00", n_bad >= 1, fi.node, construct="_append_request_block: size guard", detail="no path raises BadRequest")
    ag.flush()


@R.clause("C06.e", "the handler runs only on complete bodies: feed_and_take returns only without Block1 or on the final block")
def e(ctx):
    prog = ctx.prog
    fi = prog.func(BW + "Block1Spool.feed_and_take")
    rq = params(fi)[0]
    sx = _declare_blocks(prog, SymExec(prog, fi))
    sx.nonempty_when_set = {"%s.opt.block1" % rq}
    sx.domains = _block_domains("%s.opt.block1" % rq, _bt_fields(prog))
    paths = sx.paths()
    NOB1 = P("%s.opt.block1 is None" % rq)
    MORE = P("%s.opt.block1.more" % rq)
    ZERO = P("%s.opt.block1.block_number == 0" % rq)
    K = P("_extract_block_key(%s)" % rq)
    RQ = ast.Name(id=rq, ctx=ast.Load())
    F = "self._assemblies"
    EA_e = ShapedEscapes(prog)
    ctx.floor("normal paths of feed_and_take", len([p for p in paths if p.end == "return"]), 2)
    ctx.ob("feed_and_take is atomic (plain def)", is_plain_sync(fi), fi, fi.node, construct="def feed_and_take")
    ag = _Agg(ctx, fi)
    ag.saw(sx, paths)
    n_store = n_app = 0
    for p in paths:
        ctx.need(p.end in ("return", "fall", "raise"), "feed_and_take: loop in the path model")
        stores = _stores(p, F)
        apps = [(ev, c_, r) for ev, c_, r in _calls(sx, p, attr="_append_request_block")]
        rnode = next((ev.node for ev in reversed(p.events) if ev.kind in ("ret", "raise")), fi.node)
        for ev in stores:
            n_store += 1
            ag.add("an assembly is (re)started only by block number 0", sx.entails(ev.facts, ZERO) and sx.refutes(ev.facts, NOB1), ev.node, detail=_where(sx, ev.facts))
            ag.add("the assembly starts with the request itself", same(ev.value, RQ), ev.node, detail=txt(ev.value))
            ag.add("every access to the spool uses the transfer key of this request", same(ev.key, K), ev.node, construct="feed_and_take key uses", detail=txt(ev.key))
        for ev, c_, r in apps:
            n_app += 1
            recv = r.func.value
            okr = isinstance(recv, ast.Subscript) and chain(recv.value) == F and same(recv.slice, K) and len(r.args) == 1 and same(r.args[0], RQ)
            ag.add("later blocks are appended to the existing assembly of the same key", okr and sx.refutes(ev.facts, ZERO) and sx.refutes(ev.facts, NOB1), c_, detail="%s %s" % (txt(r), _where(sx, ev.facts)))
        for ev, n, key in _reads(sx, p, F):
            ag.add("every access to the spool uses the transfer key of this request", same(key, K), ev.node, construct="feed_and_take key uses", detail=txt(key))
        if p.end == "raise":
            if _end_class(EA_e, fi, p) == CONT:
                # the block that is acknowledged with 2.31 must have gone into the assembly before
                for z, f2 in sx.decide(ZERO, p.facts):
                    ag.add("a block acknowledged with 2.31 Continue has been stored (block 0) or appended (later blocks)", (bool(stores) if z else (bool(apps) and not stores)), rnode, construct="feed_and_take: acknowledged block", detail=_where(sx, f2))
            continue
        for nob1, f in sx.decide(NOB1, p.facts):
            if nob1:
                ag.add("a request without Block1 is passed through unchanged", p.ret is not None and same(p.ret, RQ) and not stores and not apps, rnode, detail=_where(sx, f))
                continue
            ag.add("a normal return happens only without Block1 or when the more-flag is clear", sx.refutes(f, MORE), rnode, detail=_where(sx, f))
            stored = [ev.value for ev in stores if same(ev.key, K)]
            okret = p.ret is not None and ((isinstance(p.ret, ast.Subscript) and chain(p.ret.value) == F and same(p.ret.slice, K)) or any(same(p.ret, v) for v in stored[-1:]))
            ag.add("on the final block the assembled request for this key is returned", okret, rnode, detail="returns %s" % (txt(p.ret) if p.ret is not None else None))
            for z, f2 in sx.decide(ZERO, f):
                if z:
                    ag.add("block number 0 (re)starts the assembly", bool(stores), rnode, construct="feed_and_take: block 0", detail=_where(sx, f2))
                else:
                    ag.add("a later block reaches the handler only appended to the existing assembly", bool(apps) and not stores, rnode, construct="feed_and_take: continuation", detail=_where(sx, f2))
    ag.floor("assembly (re)start sites", n_store, 1)
    ag.floor("append sites", n_app, 1)
    ag.flush()
    # Resource._render_to_pipe
    rp = prog.func("interfaces.Resource._render_to_pipe")
    pipe = params(rp)[0]
    sr = SymExec(prog, rp, include_exc=False)
    rpaths = sr.paths()
    PREQ = P("%s.request" % pipe)
    ag = _Agg(ctx, rp)
    ag.saw(sr, rpaths)
    n_asm = n_plain = 0
    eoi = prog.func(BW + "Block2Cache.extract_or_insert")
    eoi_p = params(eoi)
    for p in rpaths:
        # the path's answer to `await self.needs_blockwise_assembly(request)`, however the test is spelled
        needs = [n for ev in p.evs("test") if isinstance(ev.value, ast.AST) for n in ast.walk(ev.value) if match("await self.needs_blockwise_assembly($r)", n) is not None]
        if not needs or p.end == "raise":
            continue
        if sr.entails(p.facts, needs[-1]):
            asm = True
        elif sr.refutes(p.facts, needs[-1]):
            asm = False
        else:
            continue
        calls = list(sr.calls(p))
        direct = [(ev, c_, r) for ev, c_, r in calls if chain(r.func) == "self.render"]
        feeds = [(i, ev, c_, r) for i, (ev, c_, r) in enumerate(calls) if isinstance(r.func, ast.Attribute) and r.func.attr == "feed_and_take"]
        e2 = [(i, ev, c_, r) for i, (ev, c_, r) in enumerate(calls) if isinstance(r.func, ast.Attribute) and r.func.attr == "extract_or_insert"]
        if asm:
            n_asm += 1
            anchor = (e2[0][2] if e2 else (feeds[0][2] if feeds else rp.node))
            ag.add("with block-wise assembly the handler is rendered only after feed_and_take returned normally", len(feeds) == 1 and not direct and bool(e2) and all(feeds[0][0] < x[0] for x in e2), direct[0][1] if direct else anchor, construct="_render_to_pipe: assembly before rendering", detail="%d feed_and_take call(s)" % len(feeds))
            if not feeds or not e2:
                continue
            fed = feeds[0][3]
            ag.add("the spool is fed with the pipe's request", len(fed.args) == 1 and same(fed.args[0], PREQ), feeds[0][2])
            for i, ev, c_, r in e2:
                a0 = _arg(r, 0, eoi_p[0])
                cb = _arg(r, 1, eoi_p[1])
                body = callable_body(sr, p, cb, ev) if cb is not None else None
                through = isinstance(body, ast.Call) and chain(body.func) == "self.render"
                ag.add("the rendering goes through the Block2 cache", through, c_, detail="builder %s" % (txt(cb) if cb is not None else None))
                okarg = through and len(body.args) == 1 and same(body.args[0], fed) and a0 is not None and same(a0, fed)
                ag.add("the handler is rendered with the assembled request", okarg, c_, detail="cache keyed by %s, handler called as %s" % (txt(a0) if a0 is not None else None, txt(body) if body is not None else None))
        else:
            n_plain += 1
            ag.add("without assembly the resource handles blocks itself", bool(direct) and not feeds, direct[0][1] if direct else rp.node, construct="_render_to_pipe: plain rendering")
    ag.floor("paths of Resource._render_to_pipe with block-wise assembly", n_asm, 1)
    ag.floor("paths of Resource._render_to_pipe without block-wise assembly", n_plain, 1)
    ag.flush()


def _explicit_kwargs(sx, p, call, facts):
    """[(keyword dict, facts)] of a resolved call: explicit keywords plus `**mapping` arguments whose mapping is a
    display `{"k": v}` / `dict(k=v)` with constant keys, also behind a local and behind a conditional expression (one
    variant per alternative); None when a key cannot be evaluated."""

    def mapping_items(d):
        if isinstance(d, ast.Dict):
            out = {}
            for kk, vv in zip(d.keys, d.values):
                if not (isinstance(kk, ast.Constant) and isinstance(kk.value, str)):
                    return None
                out[kk.value] = vv
            return out
        if isinstance(d, ast.Call) and chain(d.func) == "dict" and not d.args and all(k.arg is not None for k in d.keywords):
            return {k.arg: k.value for k in d.keywords}
        return None

    variants = [({}, facts)]
    base = None
    for v, f in sx.value(call, facts):
        base = v
        break
    if base is None:
        return None
    out = []
    for v, f in sx.value(call, facts):
        partial = [({}, f)]
        for k in v.keywords:
            if k.arg is not None:
                for kw, _f in partial:
                    kw[k.arg] = k.value
                continue
            d = k.value
            if isinstance(d, ast.Name) and d.id in p.objs:
                d = p.objs[d.id]
            nxt = []
            for kw, f0 in partial:
                for dv, f1 in sx.value(d, f0):
                    if isinstance(dv, ast.Name) and dv.id in p.objs:
                        dv = p.objs[dv.id]
                    items = mapping_items(dv)
                    if items is None:
                        return None
                    nxt.append((dict(kw, **items), f1))
            partial = nxt
        out.extend(partial)
    return out


@R.clause("C06.f", "Block2: one rendering per block-0 request, later blocks are slices of it (4.08 if unknown, 4.00 beyond the end)")
def f(ctx):
    prog = ctx.prog
    fi = prog.func(BW + "Block2Cache.extract_or_insert")
    pr = params(fi)
    rq, builder = pr[0], pr[1]
    cfg = cfg_of(fi)
    fields = _bt_fields(prog)
    ctx.need(len(fields) == 3, "BlockwiseTuple does not have three fields")
    B2 = P("%s.opt.block2" % rq)
    sx = _declare_blocks(prog, SymExec(prog, fi))
    # a block option value is None or a (non-empty) BlockwiseTuple: `x or default` and `x is None` are the same fact
    sx.nonempty_when_set = {txt(B2)}
    sx.domains = _block_domains("%s.opt.block2" % rq, fields)
    paths = sx.paths()
    HASB2 = P("%s.opt.block2 is not None" % rq)
    FIRST = P("%s.opt.block2 is None or %s.opt.block2.%s == 0" % (rq, rq, fields[0]))
    K = P("_extract_block_key(%s)" % rq)
    F = "self._completes"
    EA = ShapedEscapes(prog)
    ag = _Agg(ctx, fi)
    ag.saw(sx, paths)
    n_build = n_look = n_slice = 0
    miss_sites = {}
    for p in paths:
        ctx.need(p.end in ("return", "fall", "raise"), "extract_or_insert: loop in the path model")
        builds = list(_calls(sx, p, name=builder))
        n_build += len(builds)
        hits = [(ev, n, key) for ev, n, key in _reads(sx, p, F)]
        misses = list(_failed_reads(sx, p, F, cfg))
        n_look += len(hits) + len(misses)
        anchor = builds[0][1] if builds else (hits[0][1] if hits else fi.node)
        # 1. the handler runs on exactly the paths of a block-0 request, and once
        for first, f_ in sx.decide(FIRST, p.facts):
            ag.add("the handler is rendered iff Block2 is absent or asks for block 0", (len(builds) == 1) == first and len(builds) <= 1, anchor, construct="extract_or_insert: rendering decision", detail="%s: %d rendering(s)" % (_where(sx, f_), len(builds)))
            if not first:
                served = any(same(key, K) for _e, _n, key in hits) or (bool(misses) and p.end == "raise")
                ag.add("a later block is served from the rendering stored under the transfer key", served, anchor, construct="extract_or_insert: later block", detail=_where(sx, f_))
        for ev, n, key in hits:
            ag.add("the cache is read with the transfer key of this request", same(key, K), n, detail=txt(key))
        # 2. an unknown / expired transfer is 4.08
        for ev, hid, key in misses:
            okh = _handler_catches(cfg, hid, ("KeyError", "LookupError"), prog, fi.module) and p.end == "raise" and _end_class(EA, fi, p) == INCOMPLETE and not builds
            it = miss_sites.setdefault(ev.nid, [ev.node, True])
            it[1] = it[1] and okh
        # 3. slicing
        for ev, c_, r in _calls(sx, p, attr="_extract_block"):
            n_slice += 1
            recv = r.func.value
            xb_p = params(prog.func("message.Message._extract_block"))
            a0, a1 = _arg(r, 0, xb_p[0]), _arg(r, 1, xb_p[1])
            ok_own = False
            if a0 is not None and a1 is not None:
                if sx.entails(ev.facts, HASB2):
                    ok_own = _is_field(a0, fields, B2, fields[0]) and _is_field(a1, fields, B2, fields[2])
                elif sx.refutes(ev.facts, HASB2):
                    # no preference expressed: block 0 with the largest block size the peer takes
                    n0 = _field_of(a0, fields)
                    n1 = _field_of(a1, fields)
                    ok_own = n0[0] == "val" and isinstance(n0[1], ast.Constant) and n0[1].value == 0 and type(n0[1].value) is int
                    ok_own = ok_own and n1[0] == "val" and same(n1[1], P("%s.remote.maximum_block_size_exp" % rq))
                else:
                    ctx.need(False, "extract_or_insert: the slice is requested on a path that has not decided whether Block2 is present")
            ag.add("the slice is taken with the request's own Block2 number and size exponent", ok_own, c_, detail="%s: number %s, size exponent %s" % (_where(sx, ev.facts), txt(a0) if a0 is not None else None, txt(a1) if a1 is not None else None))
            fresh = [x for x in builds if isinstance(recv, ast.Await) and same(recv.value, x[2]) or same(recv, x[2])]
            stored_hit = isinstance(recv, ast.Subscript) and chain(recv.value) == F and same(recv.slice, K)
            ag.add("the slice is taken from the rendering just made or the stored one", bool(fresh) or stored_hit, c_, detail=txt(recv))
            if builds:
                kept = [s for s in _stores(p, F) if same(s.key, K) and same(s.value, recv) and p.events.index(s) <= p.events.index(ev)]
                ag.add("a rendering that needs more than one block is stored for the later blocks", bool(kept), c_, construct="extract_or_insert: store", detail=_where(sx, ev.facts))
        for s in _stores(p, F):
            ag.add("the rendering is stored under the transfer key of this request", same(s.key, K), s.node, detail=txt(s.key))
        # 4. the answer is one block of the rendering exactly when the rendering does not fit: longer than the
        # transport's payload limit, or than the block size the request asks for
        if p.end == "return":
            slices = list(_calls(sx, p, attr="_extract_block"))
            body = slices[0][2].func.value if slices else p.ret
            rnode = slices[0][1] if slices else next((ev.node for ev in reversed(p.events) if ev.kind == "ret"), fi.node)
            if body is not None:
                if isinstance(body, ast.Await):
                    pass
                LEN = ast.Call(func=ast.Name(id="len", ctx=ast.Load()), args=[ast.Attribute(value=body, attr="payload", ctx=ast.Load())], keywords=[])
                CHUNK = ast.BoolOp(op=ast.Or(), values=[
                    ast.Compare(left=LEN, ops=[ast.Gt()], comparators=[P("%s.remote.maximum_payload_size" % rq)]),
                    ast.BoolOp(op=ast.And(), values=[HASB2, ast.Compare(left=LEN, ops=[ast.Gt()], comparators=[P("%s.opt.block2.size" % rq)])]),
                ])
                for chunk, f_ in sx.decide(CHUNK, p.facts):
                    ag.add("the rendering is served whole iff it fits the transport's payload limit and the requested block size, else as one block of it", bool(slices) == chunk, rnode, construct="extract_or_insert: chunking decision", detail="%s: %s" % (_where(sx, f_), "a block is cut" if slices else "served whole"))
    ag.floor("builder invocations", n_build, 1)
    ag.floor("cache lookups", n_look, 1)
    ag.floor("_extract_block sites", n_slice, 1)
    ag.flush()
    # every lookup site has its miss answered 4.08
    look_nodes = {}
    for n in walk_no_nested(fi.node):
        if isinstance(n, ast.Subscript) and isinstance(n.ctx, ast.Load) and chain(resolve_local(fi.node, n.value)) == F:
            look_nodes.setdefault(cfg.loc1(n), n)
    for nid, n in look_nodes.items():
        it = miss_sites.get(nid)
        ctx.ob("a later block without a stored rendering is answered 4.08", it is not None and it[1], fi, n)
    # escapes
    xb = prog.func("message.Message._extract_block")
    num, szx, mb = params(xb)
    xs = SymExec(prog, xb, include_exc=False)
    xpaths = xs.paths(assume=[("%s == 7" % szx, False)])  # the BERT arm (SZX 7) belongs to C05
    es = set(EA.escapes(fi))
    ctx.extra["call_shape_flow_extract_or_insert"] = [list(x) for x in EA.flow_log]
    ctx.extra["lemmas_extract_or_insert"] = sorted(set(EA.lemmas_used))
    # L3' (Message.__init__'s `payload is None` TypeError cannot be triggered by copy(payload=<bytes slice>)) is no longer
    # a named exemption: ShapedEscapes follows the value -- _extract_block passes a slice (not None), copy() takes it out
    # of **kwargs and hands it to the constructor, which stores it in self.payload and tests that -- and finds the raise
    # dead for this call chain; with copy(payload=None) or a removed keyword it is live and reported.
    bad = []
    for e_ in es:
        if any(e_.cls == a or prog.is_subclass(e_.cls, a) for a in ALLOWED):
            continue
        bad.append(e_)
    for e_ in sorted(bad, key=repr):
        ofi = prog.funcs.get("aiocoap." + e_.func)
        ctx.ob("a Block2 request that cannot be served is answered 4.08/4.00, never 5.xx", False, ofi, fake(e_.line), construct="%s: %s" % (e_.cls, e_.text), detail="escapes via %s" % " > ".join(e_.via))
    if not bad:
        ctx.ob("escape set of extract_or_insert (excluding the handler's own exceptions) is within {Incomplete, BadRequest}", True, fi, fi.node, construct="Block2Cache.extract_or_insert")
    ctx.need(not [u for u in EA.unresolved], "unresolved calls in extract_or_insert region: %s" % EA.unresolved[:3])
    # _extract_block (non-BERT) -- RFC 7959: size 2**(SZX+4), start NUM*size; refused iff start >= len(body);
    # the answer is body[start:min(start+size, len)], the more-flag is set iff start+size < len(body)
    N = Normalizer()
    SIZE = "2 ** (%s + 4)" % szx
    START = "%s * %s" % (num, SIZE)
    LEN = "len(self.payload)"
    OUT = P("%s >= %s" % (START, LEN))
    REMAIN = P("%s + %s < %s" % (START, SIZE, LEN))
    start_p = N.poly(P(START))
    end_p = N.poly(P("%s + %s" % (START, SIZE)))
    ag = _Agg(ctx, xb)
    ag.saw(xs, xpaths)
    n_ret = n_raise = 0
    for p in xpaths:
        ctx.need(p.end in ("return", "raise"), "_extract_block: a path neither returns a message nor raises")
        if p.end == "raise":
            n_raise += 1
            ev = p.raised()
            ok = _exc_of(EA, xb, ev) == BADREQ and xs.entails(p.facts, OUT)
            ag.add("a block starting at or beyond the end of the body is answered 4.00", ok, ev.node, construct="_extract_block out-of-range guard", detail="%s raised %s" % (_exc_of(EA, xb, ev), _where(xs, p.facts)))
            continue
        n_ret += 1
        rnode = next(ev.node for ev in reversed(p.events) if ev.kind == "ret")
        ag.add("a block starting at or beyond the end of the body is answered 4.00", xs.refutes(p.facts, OUT), rnode, construct="_extract_block out-of-range guard", detail="a message is returned %s" % _where(xs, p.facts))
        ret = p.ret
        ctx.need(isinstance(ret, ast.Call) and chain(ret.func) == "self.copy", "_extract_block does not return self.copy(...)")
        kws = _explicit_kwargs(xs, p, ret, p.facts)
        ctx.need(kws is not None and len(kws) >= 1, "_extract_block: keyword arguments of copy() are not constant names")
        # an option assigned to the copy afterwards (`m = self.copy(..); m.opt.block2 = v`) is the same fact as the keyword
        later = {}
        for sev in p.evs("store"):
            t_ = sev.target
            if isinstance(t_, ast.Attribute) and isinstance(t_.value, ast.Attribute) and t_.value.attr == "opt" and same(t_.value.value, ret):
                later[t_.attr] = sev.value
        for kw, f_ in kws:
            kw = dict(kw, **later)
            for k_ in ("block1", "block2"):
                if k_ in kw:
                    kw[k_] = _as_block_tuple(kw[k_], fields)
            pay = kw.get("payload")
            sl = pay if isinstance(pay, ast.Subscript) and chain(pay.value) == "self.payload" and isinstance(pay.slice, ast.Slice) and pay.slice.step is None else None
            opts = [k for k in ("block1", "block2") if k in kw]
            opt = kw[opts[0]] if len(opts) == 1 else None
            is_req = [b_ for b_, _ in xs.decide(P("self.code.is_request()"), f_)]
            right_opt = len(opts) == 1 and (len(is_req) != 1 or opts[0] == ("block1" if is_req[0] else "block2"))
            ag.add("the answer carries body[start:end] and that block option", sl is not None and right_opt, rnode, construct="_extract_block result", detail="payload %s, options %s" % (txt(pay) if pay is not None else None, opts))
            if sl is not None:
                lo, up = sl.slice.lower, sl.slice.upper
                try:
                    ok_lo = lo is not None and N.poly(lo) == start_p
                except NormError:
                    ok_lo = False
                ag.add("block offset is NUM * 2**(SZX+4)", ok_lo, rnode, construct="_extract_block start", detail=txt(lo) if lo is not None else "open")
                if isinstance(up, ast.Constant) and up.value is None:
                    up = None
                for rem, f2 in xs.decide(REMAIN, f_):
                    if up is None:
                        ok_up = not rem
                    else:
                        ok_up = True
                        for u, f3 in xs.value(up, f2):
                            try:
                                if rem:
                                    ok_up = ok_up and N.poly(u) == end_p
                                else:  # clamped explicitly, or relying on slice clamping: anything >= len(body)
                                    ok_up = ok_up and xs.entails(f3, ast.Compare(left=u, ops=[ast.GtE()], comparators=[P(LEN)]))
                            except NormError:
                                ok_up = False
                    ag.add("the slice ends at min(start + size, len(body)) (explicitly, or start + size with slice clamping)", ok_up, rnode, construct="_extract_block end", detail="%s: upper bound %s" % (_where(xs, f2), txt(up) if up is not None else "open"))
            if opt is not None:
                ok_t = isinstance(opt, ast.Tuple) and len(opt.elts) == 3 and same(opt.elts[0], ast.Name(id=num, ctx=ast.Load())) and same(opt.elts[2], ast.Name(id=szx, ctx=ast.Load()))
                ag.add("the block option of the answer is (NUM, more, SZX) as requested", ok_t, rnode, construct="_extract_block option", detail=txt(opt))
                if ok_t:
                    okm = True
                    for rem, f2 in xs.decide(REMAIN, f_):
                        for mv, _f3 in xs.decide(opt.elts[1], f2):
                            okm = okm and (mv == rem)
                    ag.add("the more-flag is set exactly when bytes remain after the slice (end < len(body))", okm, rnode, construct="_extract_block more", detail="%s: more = %s" % (_where(xs, f_), txt(opt.elts[1])))
    ag.floor("_extract_block: paths returning a block", n_ret, 1)
    ag.add("a block starting at or beyond the end of the body is answered 4.00", n_raise >= 1, xb.node, construct="_extract_block out-of-range guard", detail="no path raises")
    ag.flush()


def _as_filtered_dict(st, p, comp, imports):
    """A dictionary built by filtering: {K: V for T in IT if C}, dict((K, V) for T in IT if C), dict(filter(P, IT)),
    dict(itertools.filterfalse(P, IT)), with IT itself possibly `filter(P, X)` / `list(X)` / a filtering generator.
    -> (key expr, value expr, element target, base iterable, [conditions]) | None (not of this kind) | "nested" | "filter"
    (a filter whose predicate is not understood)."""
    if isinstance(comp, ast.Call) and chain(comp.func) == "dict" and len(comp.args) == 1 and not comp.keywords:
        a0 = comp.args[0]
        if isinstance(a0, (ast.GeneratorExp, ast.ListComp)) and isinstance(a0.elt, ast.Tuple) and len(a0.elt.elts) == 2:
            comp = ast.DictComp(key=a0.elt.elts[0], value=a0.elt.elts[1], generators=a0.generators)
        else:
            el = ast.Name(id="<item>", ctx=ast.Load())
            r = filtered_iter(st, p, a0, el, imports)
            if r is None:
                return "filter"
            it, conds = r
            if not conds:
                return None
            return (ast.Subscript(value=el, slice=ast.Constant(value=0), ctx=ast.Load()), ast.Subscript(value=el, slice=ast.Constant(value=1), ctx=ast.Load()), el, it, conds)
    if isinstance(comp, ast.DictComp):
        if len(comp.generators) != 1 or comp.generators[0].is_async:
            return "nested"
        g_ = comp.generators[0]
        tgt = g_.target
        el = ast.Tuple(elts=list(tgt.elts), ctx=ast.Load()) if isinstance(tgt, (ast.Tuple, ast.List)) else tgt
        r = filtered_iter(st, p, g_.iter, el, imports)
        if r is None:
            return "filter"
        it, conds = r
        return comp.key, comp.value, tgt, it, list(conds) + list(g_.ifs)
    return None


def _dict_sets(sx, p, coll, key, value):
    """On this path, is `coll[key]` made `value`?  coll[key] = value; coll.update({key: value}) / coll |= {key: value};
    coll = {**coll, key: value}; coll = coll | {key: value} (the right operand wins -- `{key: value} | coll` does not)."""

    def gives(d):
        # a dict display whose LAST entry for key is key: value
        if isinstance(d, ast.Name) and d.id in p.objs:
            d = p.objs[d.id]
        if isinstance(d, ast.Dict):
            for kk, vv in reversed(list(zip(d.keys, d.values))):
                if kk is None:
                    return False  # a later **mapping may override
                if same(kk, key):
                    return same(vv, value)
            return False
        if isinstance(d, ast.Call) and chain(d.func) == "dict" and len(d.args) == 1 and not d.keywords and isinstance(d.args[0], (ast.List, ast.Tuple)) and len(d.args[0].elts) == 1:
            it = d.args[0].elts[0]
            return isinstance(it, ast.Tuple) and len(it.elts) == 2 and same(it.elts[0], key) and same(it.elts[1], value)
        return False

    def merged(v):
        # new dictionary value that contains key: value on top of the old entries
        if isinstance(v, ast.BinOp) and isinstance(v.op, ast.BitOr):
            return chain(v.left) == coll and gives(v.right)
        if isinstance(v, ast.Dict) and v.keys and v.keys[0] is None and chain(v.values[0]) == coll:
            return gives(ast.Dict(keys=v.keys[1:], values=v.values[1:]))
        return False

    for ev in p.events:
        if ev.kind == "setitem" and chain(ev.target) == coll and same(ev.key, key) and same(ev.value, value):
            return True
        if ev.kind == "store" and isinstance(ev.target, ast.AST) and chain(ev.target) == coll and merged(ev.value):
            return True
    for ev, c_, r in sx.calls(p):
        if isinstance(r.func, ast.Attribute) and chain(r.func.value) == coll and r.func.attr in ("update", "__setitem__"):
            if r.func.attr == "__setitem__" and len(r.args) == 2 and same(r.args[0], key) and same(r.args[1], value):
                return True
            if r.func.attr == "update" and len(r.args) == 1 and not r.keywords and gives(r.args[0]):
                return True
    return False


def _get_with_default(e, coll, key):
    """`coll.get(key, D)` -> D (a Constant None when omitted), else None"""
    if isinstance(e, ast.Call) and chain(e.func) == coll + ".get" and not e.keywords and 1 <= len(e.args) <= 2 and same(e.args[0], key):
        return e.args[1] if len(e.args) == 2 else ast.Constant(value=None)
    return None


def _sentinel_value(prog, fi, p, d):
    """the default of a lookup is an object that cannot be a stored value: bound once, at module level or in this
    function, to a fresh `object()` / an instance of a class of the program"""
    if not isinstance(d, ast.Name):
        return False
    v = None
    try:
        v = prog.module_const(fi.module.name, d.id)
    except AnchorError:
        v = None
    if v is None:
        ws = writes_to_name(fi.node, d.id)
        if len(ws) == 1 and isinstance(ws[0], ast.Assign):
            v = ws[0].value
    if not isinstance(v, ast.Call) or v.args and chain(v.func) == "object":
        return False
    if chain(v.func) == "object":
        return True
    try:
        return prog.resolve_in_module(fi.module, chain(v.func) or "?") in prog.classes
    except Exception:
        return False


def _is_sentinel_miss(prog, fi, sx, p, t):
    """a test event that established `coll.get(key, S) is S` for a sentinel S on this path"""
    e = t.value
    pol = t.outcome
    while isinstance(e, ast.UnaryOp) and isinstance(e.op, ast.Not):
        e, pol = e.operand, not pol
    if isinstance(e, ast.Compare) and len(e.ops) == 1 and isinstance(e.ops[0], (ast.Is, ast.IsNot)):
        if isinstance(e.ops[0], ast.IsNot):
            pol = not pol
        for a, b in ((e.left, e.comparators[0]), (e.comparators[0], e.left)):
            if isinstance(a, ast.Call) and isinstance(a.func, ast.Attribute) and a.func.attr == "get" and len(a.args) == 2 and same(a.args[1], b) and _sentinel_value(prog, fi, p, b):
                return bool(pol)
    return False


def _tick_filter(ctx, st, tk, p):
    """The expiry step on one path of TimeoutDict._tick.  Recognised spellings of "keep the entries whose key is in
    _recently_accessed": a dict comprehension / dict(generator) over the old items assigned to self._items, a fresh
    dict filled in a loop over the old items and then assigned, deletion in place while looping over a copy of the keys.
    -> (ok, detail, expression whose truth says that items remain, index of the last event of the step, anchor node)"""
    ITEMS = "self._items"
    RA = "self._recently_accessed"

    def recent(kx):
        return ast.Compare(left=kx, ops=[ast.In()], comparators=[P(RA)])

    ws = _stores(p, ITEMS, "store")
    fors = [n for n in walk_no_nested(tk.node) if isinstance(n, ast.For)]
    if len(ws) > 1:
        return False, "%d assignments of self._items" % len(ws), ws[-1].value, p.events.index(ws[-1]), ws[-1].node
    # R: the dictionary that self._items is at the end -- self._items itself (changed in place), or a local object
    # assigned to it.  `initial`: does R start out with the old entries (itself / a copy of it) or empty?
    if ws:
        V = ws[-1].value
        widx = p.events.index(ws[-1])
        anchor = ws[-1].node
        comp = p.objs[V.id] if isinstance(V, ast.Name) and V.id in p.objs else V
        flt = _as_filtered_dict(st, p, comp, tk.module.imports)
        if flt == "nested":
            return False, "nested comprehension", V, widx, anchor
        ctx.need(flt != "filter", "_tick: a filter of the new value of self._items (%s) is outside the rule's vocabulary" % txt(V))
        if flt is not None:
            key_, value_, target_, iter_, conds_ = flt
            roles = _iter_roles(st, iter_, target_, ITEMS)
            if roles is None or not (same(key_, roles[0]) and same(value_, roles[1])):
                return False, "element %s: %s for %s in %s" % (txt(key_), txt(value_), txt(target_), txt(iter_)), V, widx, anchor
            cond = ast.BoolOp(op=ast.And(), values=list(conds_)) if len(conds_) > 1 else (conds_[0] if conds_ else ast.Constant(value=True))
            cond = st.subst(cond, ws[-1].env, ws[-1].chains)  # free variables of a lambda predicate: the locals at the assignment
            # predicates given as nested functions are evaluated in place, with the locals in force at the assignment
            st._defs_now = p.defs
            st._env_now = ws[-1].env
            for b_, f_ in st.decide(cond, ws[-1].facts):
                if not (st.entails(f_, recent(roles[0])) if b_ else st.refutes(f_, recent(roles[0]))):
                    return False, "an entry is %s %s" % ("kept" if b_ else "dropped", _where(st, f_)), V, widx, anchor
            return True, None, V, widx, anchor
        fresh_dict = (isinstance(comp, ast.Dict) and not comp.keys) or (isinstance(comp, ast.Call) and chain(comp.func) == "dict" and not comp.args and not comp.keywords)
        a0 = comp.args[0] if isinstance(comp, ast.Call) and len(comp.args) == 1 and not comp.keywords else None
        copy_of_old = (
            (isinstance(comp, ast.Call) and chain(comp.func) == "dict" and a0 is not None and (chain(a0) == ITEMS or (isinstance(a0, ast.Call) and chain(a0.func) == ITEMS + ".items" and not a0.args)))
            or (isinstance(comp, ast.Call) and chain(comp.func) == ITEMS + ".copy" and not comp.args and not comp.keywords)
            or (isinstance(comp, ast.Dict) and len(comp.keys) == 1 and comp.keys[0] is None and chain(comp.values[0]) == ITEMS)
        )
        ctx.need(isinstance(V, ast.Name) and V.id in p.objs and (fresh_dict or copy_of_old), "_tick: the new value of self._items (%s) is outside the rule's vocabulary" % txt(V))
        initial = copy_of_old
        rname = V.id

        def is_r(e):
            return isinstance(e, ast.Name) and e.id == rname

        truth = V
    else:
        ctx.need(fors, "_tick: neither an assignment of self._items nor a loop over its keys")
        widx = None
        anchor = fors[0]
        initial = True
        rname = None

        def is_r(e):
            return chain(e) == ITEMS

        truth = P(ITEMS)
    # the loops over the old entries (over self._items, or over R where R holds them), one iteration standing for the
    # entry with an arbitrary key k: R contains k afterwards iff (it did before and k was not removed) or k was stored
    loops = []
    for ev in p.evs("for"):
        roles = _iter_roles(st, ev.value, ev.target, ITEMS)
        over_r = rname is None
        if roles is None and rname is not None and initial:
            roles = _iter_roles(st, ev.value, ev.target, rname)
            over_r = roles is not None
        if roles is not None:
            loops.append((ev, roles, over_r))
    if not fors:
        return False, "no loop over the old items", truth, widx if widx is not None else 0, anchor
    fills = [ev for ev in p.evs("setitem") if is_r(ev.target)]
    dels = [(ev, ev.key) for ev in p.evs("delitem") if is_r(ev.target)]
    for ev, c_, r in st.calls(p):
        if isinstance(r.func, ast.Attribute) and is_r(r.func.value):
            if r.func.attr == "pop" and 1 <= len(r.args) <= 2 and not r.keywords:
                dels.append((ev, r.args[0]))
            elif r.func.attr in ("popitem", "clear", "update", "setdefault", "__setitem__", "__delitem__"):
                return False, "%s on the dictionary" % r.func.attr, truth, widx if widx is not None else 0, anchor
    ok, detail = True, None
    last = 0
    if not loops and (dels or fills):
        ok, detail = False, "entries changed outside a loop over the old items"
    for ev, roles, over_r in loops:
        li = p.events.index(ev)
        mine_f = [x for x in fills if same(x.key, roles[0]) and p.events.index(x) > li]
        mine_d = [x for x, k in dels if same(k, roles[0]) and p.events.index(x) > li]
        other = [x for x in fills if x not in mine_f] + [x for x, k in dels if x not in mine_d]
        last = max([last, li] + [p.events.index(x) for x in mine_f + mine_d])
        if other:
            ok, detail = False, "changes the entry %s" % txt(getattr(other[0], "key", None) or other[0].node)
        if widx is not None and any(p.events.index(x) > widx for x in mine_f + mine_d):
            ok, detail = False, "the dictionary is still changed after it has become self._items"
        if mine_f and mine_d:
            ok, detail = False, "an entry is stored and removed in the same iteration"
        elif mine_f:
            for x in mine_f:
                if not (same(x.value, roles[1]) and st.entails(x.facts, recent(roles[0]))):
                    ok, detail = False, "an entry is kept %s" % _where(st, x.facts)
        elif mine_d:
            if not initial:
                ok, detail = False, "removes from a dictionary that starts empty"
            for x in mine_d:
                if not st.refutes(x.facts, recent(roles[0])):
                    ok, detail = False, "an entry is dropped %s" % _where(st, x.facts)
        else:
            # untouched: stays in R iff R had the old entries
            if initial and not st.entails(p.facts, recent(roles[0])):
                ok, detail = False, "an entry is kept %s" % _where(st, p.facts)
            if not initial and not st.refutes(p.facts, recent(roles[0])):
                ok, detail = False, "an entry is dropped %s" % _where(st, p.facts)
        # changing the very dictionary that is being iterated needs a copy of its keys
        if over_r and (mine_d or mine_f):
            raw = ev.value
            if not (isinstance(raw, ast.Call) and chain(raw.func) in ("list", "tuple", "sorted")):
                ok, detail = False, "the dictionary is modified while it is iterated"
    return ok, detail, truth, (widx if widx is not None else last), anchor


def _start_over_concrete(ctx, prog, so, tk):
    """`_start_over` decided by its effect (concrete runs from the idle state and from the state of a timer that has just
    fired, with two different lifetimes): afterwards exactly one timer is pending, due after `self.timeout` seconds --
    call_later(self.timeout, ..), call_at(loop.time() + self.timeout, ..), the loop taken from get_running_loop() or kept
    in a field are the same fact --, its callback is this instance's `_tick`, `self._timeout` is its handle, the set of
    recently used keys is a fresh empty set and the stored entries are untouched.
    -> False when outside the evaluator's vocabulary."""
    cls = so.cls
    if cls is None:
        return False
    runs = []
    try:
        for lifetime in (93.0, 7.5):
            for running in (False, True):
                ce = ConcreteEval(prog)
                k = (0, 1)
                items = {k: CVal("v1")} if running else {}
                obj = fresh_timeoutdict(ce, prog, cls, items, {k} if running else None, CHandle(lifetime, None, ()) if running else None, lifetime)
                before = list(items.items())
                exc = None
                try:
                    ce.call_method(obj, so, [])
                except CRaise as r:
                    exc = r.exc
                pending = [h for h in ce.loop.handles if not h.cancelled]
                for h in pending:
                    if not isinstance(h.callback, CMethod):
                        raise CUnsupported("a timer callback that is not a bound method")
                runs.append((lifetime, obj, exc, pending, before))
    except CUnsupported as u:
        ctx.note("TimeoutDict._start_over decided on symbolic paths (concrete evaluation: %s)" % u)
        return False
    okt, dt, okr, dr = True, None, True, None
    for lifetime, obj, exc, pending, before in runs:
        if exc is not None:
            okt, dt = False, "raises %s" % type(exc).__name__
            continue
        h = pending[0] if len(pending) == 1 else None
        if h is None:
            okt, dt = False, "%d timers pending afterwards" % len(pending)
        elif not (h.callback.fi is tk and h.callback.obj is obj and not h.args):
            okt, dt = False, "the timer does not call self._tick()"
        elif not (isinstance(h.delay, (int, float)) and abs(h.delay - lifetime) < 1e-9):
            okt, dt = False, "the timer is due after %r s with self.timeout = %r" % (h.delay, lifetime)
        elif obj.fields.get("_timeout") is not h:
            okt, dt = False, "self._timeout is not the timer's handle"
        ra = obj.fields.get("_recently_accessed")
        if not (isinstance(ra, set) and not ra):
            okr, dr = False, "the set of recently used keys is %s afterwards" % ("not a set" if not isinstance(ra, set) else "not empty")
        it = obj.fields.get("_items")
        if not (isinstance(it, dict) and list(it.items()) == before):
            okr, dr = False, "the stored entries are changed"
    ctx.ob("_start_over arms call_later(self.timeout, self._tick)", okt, so, so.node, detail=dt, construct="TimeoutDict._start_over: timer")
    ctx.ob("_start_over resets the set of recently used keys", okr, so, so.node, detail=dr, construct="TimeoutDict._start_over: reset")
    return True


def _tick_concrete(ctx, prog, tk):
    """The expiry step decided by its EFFECT: `_tick` (with everything it calls: `_start_over`, helpers, the timer
    primitives of the event loop) is run by the kit's concrete evaluator on every table of up to three stored keys x every
    set of keys used since the previous tick (plus a few larger ones), on an instance whose timer has just fired, and the
    final state is compared with the specification:

      * self._items is a dict holding exactly the old entries (same value objects) whose key was used;
      * if entries remain, exactly one timer is pending afterwards, self._timeout is its handle and the set of recently
        used keys is empty again; if none remain, no timer is pending and self._timeout is None.

    How the sweep is written -- a comprehension, dict(filter(...)), a fresh dict filled in a loop, stale keys computed
    as `keys() - used` and deleted, pop in a loop over a copy, early returns, chained assignments -- is immaterial:
    every such spelling is accepted because (and only if) it produces the specified final state on all tables; a
    spelling that fails on some table is refuted by that table (a genuine counterexample: a run that raises, e.g. a
    RuntimeError for deleting from the dict that is being iterated, is one too).  Tables in which a key is marked as used
    but not stored are left out only when the class provably never produces them (every entry point, run concretely
    on all states over two keys, preserves `used <= stored`); otherwise the step must cope with them.
    -> False when the code is outside the evaluator's vocabulary (the caller then decides on symbolic paths)."""
    cls = tk.cls
    if cls is None:
        return False
    try:
        inv, why = recent_subset_invariant(prog, cls)
        runs = [run_tick(prog, cls, tk, stored, recent) for stored, recent in tick_tables(with_foreign=not inv)]
        for r in runs:
            for h in r.pending:
                if not isinstance(h.callback, CMethod):
                    raise CUnsupported("a timer callback that is not a bound method")
    except CUnsupported as u:
        ctx.note("TimeoutDict._tick decided on symbolic paths (concrete evaluation: %s)" % u)
        return False
    ctx.note("TimeoutDict._tick decided by concrete evaluation on %d tables (%s)" % (len(runs), "used <= stored is an invariant of the class" if inv else "including keys marked as used that are not stored: " + str(why)))

    def ks(keys):
        return "{%s}" % ", ".join("k%d" % k[1] for k in sorted(keys))

    verdicts = {"filter": None, "rearm": None, "kept": None, "idle": None}

    def fail(what, r, node, detail):
        if verdicts[what] is None:
            verdicts[what] = (node if node is not None else tk.node, "with %s: %s" % (r.describe(), detail))

    anchor = next((r.first_change for r in runs if r.first_change is not None), None)
    for r in runs:
        expected = {k: v for k, v in r.items0.items() if k in r.recent0}
        node = r.first_change or anchor
        if r.raised is not None:
            fail("filter", r, node, "raises %s" % type(r.raised).__name__)
            continue
        if not isinstance(r.items, dict):
            fail("filter", r, node, "self._items is no dictionary afterwards")
            continue
        if set(r.items) != set(expected):
            lost, extra = set(expected) - set(r.items), set(r.items) - set(expected)
            fail("filter", r, node, "; ".join(x for x in ("drops %s" % ks(lost) if lost else "", "keeps %s" % ks(extra) if extra else "") if x))
        elif any(r.items[k] is not expected[k] for k in expected):
            fail("filter", r, node, "an entry no longer holds the stored value")
        tnode = r.last_timer_stmt or anchor
        if r.items:
            if len(r.pending) != 1:
                fail("rearm", r, tnode, "%d timers pending although entries remain" % len(r.pending))
            elif not (r.timeout is r.pending[0] and isinstance(r.recent, set) and not r.recent):
                fail("kept", r, tnode, "self._timeout is not the pending timer's handle" if r.timeout is not r.pending[0] else "the set of recently used keys is not empty again")
        else:
            if r.pending:
                fail("rearm", r, tnode, "a timer stays pending although nothing remains")
            if r.timeout is not None:
                fail("idle", r, tnode, "self._timeout is not None")
    for what, desc, construct in (
        ("filter", "_tick keeps exactly the keys used since the previous tick", "TimeoutDict._tick filter"),
        ("rearm", "_tick re-arms iff items remain (after filtering)", "TimeoutDict._tick re-arm"),
        ("kept", "a re-armed timer is not marked as stopped afterwards", "TimeoutDict._tick re-arm kept"),
        ("idle", "otherwise the timer is marked as not running", "TimeoutDict._tick idle"),
    ):
        v = verdicts[what]
        ctx.ob(desc, v is None, tk, v[0] if v else (anchor or tk.node), detail=v[1] if v else None, construct=construct)
    return True


@R.clause("C06.g", "TimeoutDict: refreshed on get and set, expiry keeps exactly the recently used keys; lifetime is MAX_TRANSMIT_WAIT")
def g(ctx):
    prog = ctx.prog
    td = "util.asyncio.timeoutdict.TimeoutDict."
    for name in ("__getitem__", "__setitem__"):
        fi = prog.func(td + name)
        key = params(fi)[0]
        sx = SymExec(prog, fi, include_exc=False)
        ok = True
        site = None
        for p in sx.paths():
            if p.end == "raise":
                continue
            acc = [c_ for ev, c_, r in sx.calls(p) if chain(r.func) == "self._accessed" and len(r.args) == 1 and same(r.args[0], ast.Name(id=key, ctx=ast.Load()))]
            site = site or (acc[0] if acc else None)
            ok = ok and bool(acc)
        ctx.ob("%s marks the key as recently used on every normal path" % name, ok and site is not None, fi, site if site is not None else fi.node, construct="TimeoutDict.%s refresh" % name)
        if name == "__setitem__":
            val = params(fi)[1]
            K_ = ast.Name(id=key, ctx=ast.Load())
            V_ = ast.Name(id=val, ctx=ast.Load())
            oks, node = True, fi.node
            for p in sx.paths():
                if p.end == "raise":
                    continue
                if not _dict_sets(sx, p, "self._items", K_, V_):
                    oks = False
                    node = next((ev.node for ev in p.events if ev.kind in ("store", "setitem", "expr")), fi.node)
            ctx.ob("__setitem__ stores the value under the key", oks, fi, node, construct="TimeoutDict.__setitem__ store")
        if name != "__getitem__":
            continue
        # what the spool and the cache rely on: a lookup returns the stored value, and raises KeyError for an absent key
        K_ = ast.Name(id=key, ctx=ast.Load())
        READ = ast.Subscript(value=P("self._items"), slice=K_, ctx=ast.Load())
        PRESENT = ast.Compare(left=K_, ops=[ast.In()], comparators=[P("self._items")])
        okr, detail, node = True, None, fi.node
        sx2 = SymExec(prog, fi, include_exc=False)
        for p in sx2.paths():
            last = next((ev.node for ev in reversed(p.events) if ev.kind in ("ret", "raise")), fi.node)
            if p.end == "raise":
                ev = p.raised()
                cls_ = ShapedEscapes(prog)._exc_class(fi, ev.value if ev.value is not None else ev.node.exc) if ev is not None and (ev.value is not None or ev.node.exc is not None) else None
                absent = sx2.refutes(p.facts, PRESENT) or any(_is_sentinel_miss(prog, fi, sx2, p, t) for t in p.evs("test"))
                if cls_ != "KeyError" or not absent:
                    okr, detail, node = False, "raises %s %s" % (cls_, _where(sx2, p.facts)), last
                continue
            r = p.ret
            if r is not None and same(r, READ):
                continue  # the plain subscript raises KeyError by itself
            g = _get_with_default(r, "self._items", K_) if r is not None else None
            if g is not None and _sentinel_value(prog, fi, p, g) and sx2.refutes(p.facts, ast.Compare(left=r, ops=[ast.Is()], comparators=[g])):
                continue  # .get(key, <private sentinel>) on a path that has excluded the sentinel
            okr, detail, node = False, "returns %s %s" % (txt(r) if r is not None else None, _where(sx2, p.facts)), last
        ctx.ob("a lookup returns the stored value and raises KeyError for an absent key", okr, fi, node, detail=detail, construct="TimeoutDict.__getitem__ lookup")
    acc = prog.func(td + "_accessed")
    key = params(acc)[0]
    sa = SymExec(prog, acc, include_exc=False)
    IDLE = P("self._timeout is None")
    ag = _Agg(ctx, acc)
    ag.saw(sa, sa.paths())
    for p in sa.paths():
        if p.end == "raise":
            continue
        starts = [c_ for ev, c_, r in sa.calls(p) if chain(r.func) == "self._start_over"]
        adds = [c_ for ev, c_, r in sa.calls(p) if isinstance(r.func, ast.Attribute) and r.func.attr == "add" and chain(r.func.value) == "self._recently_accessed" and len(r.args) == 1 and same(r.args[0], ast.Name(id=key, ctx=ast.Load()))]
        for idle, f_ in sa.decide(IDLE, p.facts):
            ag.add("_accessed either records the key or starts the timer (during whose first period everything survives)", bool(starts) if idle else bool(adds), acc.node, construct="TimeoutDict._accessed", detail=_where(sa, f_))
            if not idle:
                ag.add("the timer is started only when none is running", not starts, starts[0] if starts else acc.node, construct="TimeoutDict._accessed: start", detail=_where(sa, f_))
    ag.flush()
    so = prog.func(td + "_start_over")
    if not _start_over_concrete(ctx, prog, so, prog.func(td + "_tick")):
        _start_over_symbolic(ctx, prog, so)
    # _tick: new items = the old items whose key was used since the previous tick; re-arm iff any remain
    tk = prog.func(td + "_tick")
    if not _tick_concrete(ctx, prog, tk):
        _tick_symbolic(ctx, prog, tk)
    _lifetimes(ctx, prog, td)


@R.clause("C06.h", "TimeoutDict over histories: an entry survives one lifetime after its last use and is gone after two, whatever was used or idle before")
def h(ctx):
    """The lifetime bound decided over HISTORIES instead of over one step from a fabricated state: the kit's concrete
    evaluator drives a fresh TimeoutDict through its public protocol only (__init__, __setitem__, __getitem__) on a model
    loop with a clock whose timers (call_later / call_at / call_soon, whichever the class uses) fire exactly when due, for
    every history of `history_tables()` -- accesses within a period, across a tick, across an idle phase in which the timer
    has stopped, long after it --, and then looks the key up

      * 0.97 lifetimes after its last use: the value of the last set must be returned (`survives at least MAX_TRANSMIT_WAIT`);
      * 2.03 lifetimes after its last use: KeyError (`discarded within twice that time`).

    This is the statement of the property itself on an ideal loop, so whatever state the class keeps between periods
    (deadlines, generation counters, a stopped timer's leftovers) is covered without the clause knowing it: a run that
    misses is a genuine counterexample, and no behaviour-preserving spelling can produce one.  Spellings outside the
    evaluator's vocabulary are not decided here (note; C06.g still decides the single steps)."""
    prog = ctx.prog
    td = "util.asyncio.timeoutdict.TimeoutDict."
    geti = prog.func(td + "__getitem__")
    cls = geti.cls
    if cls is None:
        raise AnchorError("TimeoutDict is not a class")
    T = 93.0
    early = late = other = None
    n = 0
    try:
        for events in history_tables():
            for key in sorted({k for _, op, k in events if op == "set"}):
                for probe_at in {round(t + d, 6) for t, op, k in events if k == key for d in (0.97, 2.03) if t + d > events[-1][0]}:
                    r = run_history(prog, cls, T, events, key, probe_at)
                    n += 1
                    if r.raised is not None:
                        other = other or "%s: %s raises %s" % (r.describe(), r.raised_in, type(r.raised).__name__)
                        continue
                    if r.early_loss is not None:
                        early = early or "%s: k%d is not found at %.4gT" % (r.describe(), r.early_loss[0][1], r.early_loss[1])
                    if r.last_use is None:
                        continue
                    if probe_at < r.last_use + 1:
                        if r.missing:
                            early = early or "%s: KeyError %.2f lifetimes after its last use" % (r.describe(), probe_at - r.last_use)
                        elif r.found is not r.value:
                            other = other or "%s: returns something else than the value stored last" % r.describe()
                    elif probe_at > r.last_use + 2:
                        if not r.missing:
                            late = late or "%s: still found %.2f lifetimes after its last use" % (r.describe(), probe_at - r.last_use)
    except CUnsupported as u:
        ctx.note("TimeoutDict lifetimes over histories not decided (concrete evaluation: %s)" % u)
        return
    ctx.note("TimeoutDict lifetimes decided by concrete evaluation of %d histories" % n)
    so = geti
    ctx.ob("an entry is found until one lifetime after its last use, in every history", early is None, so, so.node, detail=early, construct="TimeoutDict history: survives T")
    ctx.ob("an entry is gone two lifetimes after its last use, in every history", late is None, so, so.node, detail=late, construct="TimeoutDict history: gone after 2T")
    ctx.ob("no access or timer callback fails in any history", other is None, so, so.node, detail=other, construct="TimeoutDict history: runs")


def _start_over_symbolic(ctx, prog, so):
    """only for spellings of _start_over outside the concrete evaluator's vocabulary"""
    ss = SymExec(prog, so, include_exc=False)
    ag = _Agg(ctx, so)
    ag.saw(ss, ss.paths())
    for p in ss.paths():
        if p.end == "raise":
            continue
        cl = [(c_, r) for ev, c_, r in ss.calls(p) if isinstance(r.func, ast.Attribute) and r.func.attr == "call_later"]
        okc = len(cl) == 1 and len(cl[0][1].args) >= 2 and chain(cl[0][1].args[0]) == "self.timeout" and chain(cl[0][1].args[1]) == "self._tick"
        tm = [ev for ev in _stores(p, "self._timeout", "store")]
        okc = okc and bool(tm) and same(tm[-1].value, cl[0][1])
        ag.add("_start_over arms call_later(self.timeout, self._tick)", okc, cl[0][0] if cl else so.node, construct="TimeoutDict._start_over: timer")
        rs = _stores(p, "self._recently_accessed", "store")
        v = rs[-1].value if rs else None
        okr = v is not None and ((isinstance(v, ast.Call) and chain(v.func) == "set" and not v.args and not v.keywords) or (isinstance(v, ast.Set) and not v.elts))
        ag.add("_start_over resets the set of recently used keys", okr, rs[-1].node if rs else so.node, construct="TimeoutDict._start_over: reset")
    ag.flush()


def _tick_symbolic(ctx, prog, tk):
    """the expiry step decided on symbolic paths: only for spellings the concrete evaluator does not cover"""
    st = SymExec(prog, tk, include_exc=False)
    ag = _Agg(ctx, tk)
    ag.saw(st, st.paths())
    n_paths = 0
    for p in st.paths():
        if p.end == "raise":
            continue
        n_paths += 1
        okf, detail, V, widx, anchor = _tick_filter(ctx, st, tk, p)
        ag.add("_tick keeps exactly the keys used since the previous tick", okf, anchor, construct="TimeoutDict._tick filter", detail=detail)
        if V is None:
            continue
        so_calls = [(p.events.index(ev), c_) for ev, c_, r in st.calls(p) if chain(r.func) == "self._start_over"]
        early = [c_ for i, c_ in so_calls if i < widx]
        late = [c_ for i, c_ in so_calls if i > widx]
        idle = [ev for ev in _stores(p, "self._timeout", "store") if isinstance(ev.value, ast.Constant) and ev.value.value is None and p.events.index(ev) > widx]
        for remain, f_ in st.decide(V, p.facts):
            if remain:
                ag.add("_tick re-arms iff items remain (after filtering)", bool(late) and not early, (early or late or [anchor])[0], construct="TimeoutDict._tick re-arm", detail=_where(st, f_))
                undone = [ev for ev in list(_stores(p, "self._timeout", "store")) + list(_stores(p, "self._recently_accessed", "store")) if so_calls and p.events.index(ev) > so_calls[-1][0]]
                ag.add("a re-armed timer is not marked as stopped afterwards", not undone, undone[0].node if undone else anchor, construct="TimeoutDict._tick re-arm kept", detail=_where(st, f_))
            else:
                ag.add("_tick re-arms iff items remain (after filtering)", not so_calls, so_calls[0][1] if so_calls else anchor, construct="TimeoutDict._tick re-arm", detail=_where(st, f_))
                ag.add("otherwise the timer is marked as not running", bool(idle), idle[0].node if idle else anchor, construct="TimeoutDict._tick idle", detail=_where(st, f_))
    ag.floor("normal paths of TimeoutDict._tick", n_paths, 2)
    ag.flush()


def _lifetimes(ctx, prog, td):
    for short, field in ((BW + "Block1Spool.__init__", "_assemblies"), (BW + "Block2Cache.__init__", "_completes")):
        fi = prog.func(short)
        si = SymExec(prog, fi, include_exc=False)
        tdp = params(prog.func(td + "__init__"))
        for p in si.paths():
            if p.end == "raise":
                continue
            w = _stores(p, "self." + field, "store")
            ok = False
            if len(w) == 1 and isinstance(w[0].value, ast.Call) and (chain(w[0].value.func) or "").split(".")[-1] == "TimeoutDict":
                t = _arg(w[0].value, 0, tdp[0])
                if isinstance(t, ast.Name):  # a module-level constant
                    try:
                        t = prog.module_const(fi.module.name, t.id)
                    except AnchorError:
                        pass
                ok = isinstance(t, ast.Attribute) and t.attr == "MAX_TRANSMIT_WAIT" and isinstance(t.value, ast.Call) and (chain(t.value.func) or "").endswith("TransportTuning")
            ctx.ob("%s lives MAX_TRANSMIT_WAIT after its last use" % field, ok, fi, w[0].node if w else fi.node, construct="%s lifetime" % field)


F_B = "aiocoap/blockwise.py"
F_M = "aiocoap/message.py"
F_T = "aiocoap/util/asyncio/timeoutdict.py"
R.seed("C06.a", F_B, "            except (KeyError, ValueError):", "            except KeyError:", "gap/overlap becomes 5.00 (applies to the repaired tree)")
R.seed("C06.a", F_B, "    code = codes.REQUEST_ENTITY_INCOMPLETE", "    code = codes.BAD_REQUEST", "4.08 rendered as 4.00")
R.seed("C06.a", F_M, "                raise error.BadRequest(\"Payload size does not match Block1\")", "                raise ValueError(\"Payload size does not match Block1\")", "size mismatch not rendered as 4.00")
R.seed("C06.a", F_B, "        if req.opt.block1.more:\n            raise ContinueException(req.opt.block1)", "        if not req.opt.block1.more:\n            raise ContinueException(req.opt.block1)", "2.31 for the final block")
R.seed("C06.b", F_B, "            raise ContinueException(req.opt.block1)", "            raise ContinueException((0, True, req.opt.block1.size_exponent))", "Continue does not echo the block")
R.seed("C06.b", F_B, "        m.opt.block1 = self.block1\n", "", "Continue without Block1")
R.seed("C06.c", F_B, "        message.remote.blockwise_key,\n", "        None,\n", "remote dropped from the transfer key")
R.seed("C06.c", F_B, "        message.code,\n", "        None,\n", "method dropped from the transfer key")
R.seed("C06.c", F_B, "                OptionNumber.BLOCK1,\n", "", "Block1 part of the key: every block a new transfer")
R.seed("C06.c", F_M, "            if option.number in ignore_options or (", "            if option.number not in ignore_options or (", "ignore list inverted")
R.seed("C06.d", F_M, "        if block1.start == len(self.payload):", "        if block1.start <= len(self.payload):", "overlap accepted")
R.seed("C06.d", F_M, "            if len(next_block.payload) == block1.size:", "            if len(next_block.payload) <= block1.size:", "short non-final block accepted")
R.seed("C06.d", F_M, "            raise ValueError()\n", "            pass\n", "a block out of place is silently dropped and the transfer goes on")
R.seed("C06.d", F_M, "        if block1.more:\n            if len(next_block.payload) == block1.size:", "        if not block1.more:\n            if len(next_block.payload) == block1.size:", "size check on the final block only")
R.seed("C06.e", F_B, "        if req.opt.block1.more:\n            raise ContinueException(req.opt.block1)", "        if False:\n            raise ContinueException(req.opt.block1)", "handler called on partial body")
R.seed("C06.e", F_B, "        if req.opt.block1.block_number == 0:\n            # silently", "        if req.opt.block1.block_number <= 1:\n            # silently", "block 1 restarts the assembly")
R.seed("C06.e", "aiocoap/interfaces.py", "            req = self._block1.feed_and_take(req)\n", "            self._block1.feed_and_take(req)\n", "handler sees the last block only")
R.seed("C06.e", F_B, "            return self._assemblies[block_key]", "            return req", "handler sees the last block only (spool side)")
R.seed("C06.f", F_B, "        if req.opt.block2 is None or req.opt.block2.block_number == 0:", "        if req.opt.block2 is None or req.opt.block2.block_number >= 0:", "every block re-rendered")
R.seed("C06.f", F_B, "            except KeyError:\n                raise IncompleteException from None\n\n        if (", "            except KeyError:\n                assembled = await response_builder()\n\n        if (", "unknown later block re-renders")
R.seed("C06.f", F_M, "        more = True if end < len(self.payload) else False", "        more = True if end <= len(self.payload) else False", "more-flag on the last block")
R.seed("C06.f", F_M, "            size = 2 ** (size_exp + 4)\n            start = number * size\n\n        if start >= len(self.payload):", "            size = 2 ** (size_exp + 4)\n            start = number * size\n\n        if start > len(self.payload):", "empty block beyond the end")
R.seed("C06.f", F_M, "            size = 2 ** (size_exp + 4)\n            start = number * size\n\n        if start", "            size = 2 ** (size_exp + 3)\n            start = number * size\n\n        if start", "wrong block size")
R.seed("C06.f", F_M, "        end = start + size if start + size < len(self.payload) else len(self.payload)", "        end = start + size if start + size < len(self.payload) else len(self.payload) - 1", "last block loses a byte")
R.seed("C06.f", F_B, "                block2.block_number,\n", "                0,\n", "every Block2 request gets block 0")
R.seed("C06.f", F_B, "            self._completes[block_key] = assembled\n", "", "rendering not kept for the later blocks")
R.seed("C06.g", F_T, "        result = self._items[key]\n        self._accessed(key)\n", "        result = self._items[key]\n", "reads do not refresh")
R.seed("C06.g", F_T, "            k: v for (k, v) in self._items.items() if k in self._recently_accessed", "            k: v for (k, v) in self._items.items() if True", "nothing ever expires")
R.seed("C06.g", F_B, "        self._assemblies = TimeoutDict(numbers.TransportTuning().MAX_TRANSMIT_WAIT)", "        self._assemblies = TimeoutDict(numbers.TransportTuning().ACK_TIMEOUT)", "state lives 2 s")
R.seed("C06.g", F_T, "        self._items = {\n            k: v for (k, v) in self._items.items() if k in self._recently_accessed\n        }\n", "        for k in self._items:\n            if k not in self._recently_accessed:\n                del self._items[k]\n", "stale entries are deleted from the dictionary while it is iterated: RuntimeError in the timer callback, the timer is never re-armed and nothing expires any more")
R.seed("C06.g", F_T, "        self._items = {\n            k: v for (k, v) in self._items.items() if k in self._recently_accessed\n        }\n", "        for k in self._recently_accessed - self._items.keys():\n            del self._items[k]\n", "the set difference the wrong way round: no stale entry is ever removed")
R.seed("C06.g", F_T, "        self._items = {\n            k: v for (k, v) in self._items.items() if k in self._recently_accessed\n        }\n", "        for k in self._items.keys() - self._recently_accessed:\n            del self._items[k]\n            break\n", "only one stale entry is removed per period")
R.seed("C06.g", F_T, "        if self._items:\n            self._start_over()", "        if len(self._items) > 1:\n            self._start_over()", "a single remaining entry does not re-arm the timer: it never expires, and the next access starts a period that forgets nothing")
R.seed("C06.g", F_T, "call_later(self.timeout, self._tick)", "call_later(self.timeout / 2, self._tick)", "the period is half the lifetime: an entry used just after a tick is dropped before the lifetime is over")
R.seed("C06.g", F_T, "call_later(self.timeout, self._tick)", "call_later(self.timeout, self._start_over)", "the timer re-arms itself without ever sweeping: nothing expires")
R.seed("C06.g", F_T, "        if self._items:\n            self._start_over()", "        if not self._items:\n            self._start_over()", "timer stops while items remain")
R.seed("C06.g", F_T, "        if self._timeout is None:\n            self._start_over()", "        if self._timeout is not None:\n            self._start_over()", "every access restarts the period and forgets the other keys")

# second pass: the generalised / added obligations bite
R.seed("C06.g", F_T, "        result = self._items[key]\n", "        result = self._items.get(key)\n", "a lookup of an absent key returns None instead of raising KeyError: no 4.08 for an unknown transfer")
R.seed("C06.f", F_B, "                0, 0, req.remote.maximum_block_size_exp\n", "                0, 0, req.remote.maximum_payload_size\n", "without Block2 the first block is cut with a byte count as size exponent")
R.seed("C06.c", F_M, "                option.number.is_safetoforward() and option.number.is_nocachekey()\n", "                option.number.is_safetoforward()\n", "all safe-to-forward options dropped from the cache key: different requests share a transfer")
R.seed("C06.f", F_B, "            or req.opt.block2 is not None\n", "            and req.opt.block2 is not None\n", "a large rendering for a request without Block2 is sent whole")
R.seed("C06.f", F_M, "        new.mtype = Type(kwargs.pop(\"mtype\")) if \"mtype\" in kwargs else self.mtype\n", "        new.mtype = Type(kwargs.pop(\"mtype\", self.mtype))\n", "copy() converts the inherited mtype: Type(None) -> ValueError -> 5.00 for every sliced response")
R.seed("C06.f", F_M, "        if \"uri\" in kwargs:\n            new.set_request_uri(kwargs.pop(\"uri\"))\n", "        if \"uri\" not in kwargs:\n            new.set_request_uri(self.get_request_uri())\n", "copy() re-parses the URI when none is given: URL errors -> 5.00")
R.seed("C06.f", F_M, "        new.mid = kwargs.pop(\"mid\", self.mid)\n", "        new.mid = self.mid\n", "mid= stays among the left-over keywords and is set as an option: AttributeError -> 5.00")
R.seed("C06.g", F_T, "        self._items[key] = value\n        self._accessed(key)\n", "        self._items.setdefault(key, value)\n        self._accessed(key)\n", "a key that is set again keeps its old value: a transfer restarted with block 0 continues the stale assembly")
R.seed("C06.g", F_T, "            self._start_over()\n        else:\n            self._timeout = None\n", "            self._start_over()\n        if True:\n            self._timeout = None\n", "the re-armed timer is marked as stopped: the next access arms a second one and forgets the recently used keys")
R.seed("C06.e", F_B, "        if req.opt.block1.block_number == 0:\n            # silently discarding any old incomplete operation\n            self._assemblies[block_key] = req\n        else:\n", "        if req.opt.block1.block_number == 0 and not req.opt.block1.more:\n            # silently discarding any old incomplete operation\n            self._assemblies[block_key] = req\n        elif req.opt.block1.block_number != 0:\n", "block 0 of a longer body is acknowledged with 2.31 but never stored")
R.seed("C06.b", F_B, "        m = super().to_message()\n        m.opt.block1 = self.block1\n        return m\n", "        super().to_message().opt.block1 = self.block1\n        return super().to_message()\n", "the Block1 echo is written into one rendering and another one is returned")
R.seed("C06.c", "aiocoap/transports/udp6.py", "        return (self.sockaddr, self.pktinfo)\n", "        return (self.sockaddr[0], self.pktinfo)\n", "only the peer's host, not its port, separates transfers")

# fifth pass: repeated options (Uri-Path, Uri-Query, ETag, If-Match ...) keep one key element per instance, in order
R.seed("C06.c", F_M, "            options.append((option.number, option.value))\n\n        return (self.code, tuple(options))", "            options.append((option.number, option.value))\n\n        return (self.code, tuple(dict(options).items()))", "options de-duplicated by number on the way into the key: ?dev=1&slot=x and ?dev=2&slot=x share a transfer")
R.seed("C06.c", F_M, "        return (self.code, tuple(options))", "        return (self.code, frozenset(options))", "the key is a set of options: /a/b and /b/a below a path-capable site share a transfer")
R.seed("C06.c", F_M, "        options = []\n\n        for option in self.opt.option_list():\n            if option.number in ignore_options or (\n                option.number.is_safetoforward() and option.number.is_nocachekey()\n            ):\n                continue\n            options.append((option.number, option.value))\n\n        return (self.code, tuple(options))", "        options = {}\n\n        for option in self.opt.option_list():\n            if option.number in ignore_options or (\n                option.number.is_safetoforward() and option.number.is_nocachekey()\n            ):\n                continue\n            options[option.number] = option.value\n\n        return (self.code, tuple(options.items()))", "the key is built in a dictionary keyed by option number: only the last instance of a repeated option separates transfers")
R.seed("C06.h", F_T, "call_later(self.timeout, self._tick)", "call_later(self.timeout * 0.9, self._tick)", "the period is a little shorter than the lifetime: an entry set while the timer is idle is dropped after 0.9 lifetimes")
R.seed("C06.h", F_T, "            self._timeout = None\n            self._recently_accessed = None", "            self._recently_accessed = set()", "a dict that has run empty keeps the handle of its last timer: after an idle phase no timer is armed again and nothing expires any more")
R.seed("C06.h", F_T, "        self._timeout = asyncio.get_running_loop().call_later(self.timeout, self._tick)\n", "        loop = asyncio.get_running_loop()\n        self._timeout = loop.call_at(loop.time() + (self.timeout if self._timeout is None else 0.0), self._tick)\n", "a re-armed period ends at once (absolute deadline without the lifetime): an entry used during the first period is gone right after its end")
