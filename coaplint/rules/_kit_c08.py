"""Helpers of rules/c08.py.

Two small analyses, both purely syntactic (nothing of the analysed repository is executed):

* `Flow`  -- def-use resolution of a value inside one function: what can an expression denote at a CFG node?
  (reaching bindings of locals, both arms of a conditional expression, components of literal tuples and of tuple
  targets, elements produced by a `for` loop or a comprehension, the returned expression of a small same-class
  helper the engine did not expand).  Rules use it to state "the value passed here IS the value read there"
  independently of how many locals, tuple (un)packings or hoisted names lie between the two sites.

* `Sym`   -- a path enumerator with a symbolic store over the CFG of one function: value numbers for locals and
  attribute chains (must-alias), three-valued truth of boolean expressions under the decisions taken on the path
  (one decision per *atomic condition*, keyed by the value numbers it reads, so a decision does not survive a
  re-binding of what it reads), boolean locals as formulas over those atoms, integer counters and
  `itertools.count` iterators as polynomials.  Rules use it for every obligation of the form "on every path on
  which C holds, X happens / the value of F is V".
"""

import ast
import copy
import itertools

from ..rulekit import *
from ..norm import Normalizer, Poly
from .. import norm


# ---------------------------------------------------------------------------
# small syntax helpers


def kwarg(call, name, pos=None):
    for k in call.keywords:
        if k.arg == name:
            return k.value
    if pos is not None and len(call.args) > pos and not any(isinstance(a, ast.Starred) for a in call.args[: pos + 1]):
        return call.args[pos]
    return None


def path_in_target(t, name):
    if isinstance(t, ast.Name):
        return () if t.id == name else None
    if isinstance(t, (ast.Tuple, ast.List)):
        for i, e in enumerate(t.elts):
            if isinstance(e, ast.Starred):
                continue
            p = path_in_target(e, name)
            if p is not None:
                return (i,) + p
    return None


def target_names(t):
    return [n.id for n in ast.walk(t) if isinstance(n, ast.Name)]


class Elem:
    """pseudo expression: one element produced by iterating `it`; `scope` is the For statement or the
    comprehension that iterates."""

    _fields = ()

    def __init__(self, it, scope):
        self.it = it
        self.scope = scope

    def __repr__(self):
        return "<element of %s>" % stmt_text(self.it)


class Opaque:
    """pseudo expression: a binding the rules do not interpret (with-target, except-target, augmented assignment)"""

    _fields = ()

    def __init__(self, node):
        self.node = node


def unwrap_iter(e):
    """strip copies (`list(x)`, `tuple(x)`, `sorted(x)`, `x.copy()`, `dict(x)`, `x[:]`) from an iterable:
    -> (inner expression, copied?)"""
    copied = False
    while True:
        if isinstance(e, ast.Call) and chain(e.func) in ("list", "tuple", "set", "frozenset", "dict", "sorted") and len(e.args) == 1 and not e.keywords:
            e = e.args[0]
            copied = True
        elif isinstance(e, ast.Call) and isinstance(e.func, ast.Attribute) and e.func.attr == "copy" and not e.args:
            e = e.func.value
            copied = True
        elif isinstance(e, ast.Subscript) and isinstance(e.slice, ast.Slice) and e.slice.lower is None and e.slice.upper is None and e.slice.step is None:
            e = e.value
            copied = True
        else:
            return e, copied


# ---------------------------------------------------------------------------
# callables: lambda, nested def, functools.partial(f, a...), bound method -- one description


class Callable_:
    """fnode: the FunctionDef/Lambda that runs; bind: {parameter name: expression in the *creating* scope};
    closure: True when free variables of fnode denote the locals of the creating function (nested def / lambda),
    False for a method (only its parameters connect it to the creating scope)."""

    def __init__(self, fnode, bind, closure, fi=None):
        self.fnode = fnode
        self.bind = bind
        self.closure = closure
        self.fi = fi

    def outer(self, name):
        """the expression (in the creating scope) a Name used inside the callable denotes, or None"""
        a = self.fnode.args
        allargs = a.posonlyargs + a.args
        defaults = [None] * (len(allargs) - len(a.defaults)) + list(a.defaults)
        for arg, d in list(zip(allargs, defaults)) + list(zip(a.kwonlyargs, a.kw_defaults)):
            if arg.arg == name:
                if name in self.bind:
                    return self.bind[name]
                if not self.closure:
                    return None  # the default of a method / module-level function is not evaluated in the creating scope
                return d  # default-argument capture `x=outer` (evaluated in the creating scope), or None: a real parameter
        if (a.vararg is not None and a.vararg.arg == name) or (a.kwarg is not None and a.kwarg.arg == name):
            return None
        if not self.closure:
            return None
        if not isinstance(self.fnode, ast.Lambda) and writes_to_name(self.fnode, name):
            return None
        return ast.Name(id=name, ctx=ast.Load())

    def free_params(self):
        """positional parameters still open when the callable is invoked"""
        a = self.fnode.args
        allargs = a.posonlyargs + a.args
        defaults = [None] * (len(allargs) - len(a.defaults)) + list(a.defaults)
        return [arg.arg for arg, d in zip(allargs, defaults) if arg.arg not in self.bind and d is None]


def _is_partial(prog, fi, e):
    if not isinstance(e, ast.Call):
        return False
    c = chain(e.func)
    if c is None:
        return False
    if c in ("functools.partial", "partial"):
        return True
    return prog.resolve_in_module(fi.module, c) in ("functools.partial",)


def _single_call_body(fnode):
    """the call a callable consists of: `lambda ...: f(...)`, `def g(...): [return] f(...)`; else None"""
    if isinstance(fnode, ast.Lambda):
        return fnode.body if isinstance(fnode.body, ast.Call) else None
    body = list(fnode.body)
    if body and isinstance(body[0], ast.Expr) and isinstance(body[0].value, ast.Constant) and isinstance(body[0].value.value, str):
        body = body[1:]
    if len(body) == 1 and isinstance(body[0], (ast.Expr, ast.Return)) and isinstance(body[0].value, ast.Call):
        return body[0].value
    return None


def _translate(cb, e):
    """expression e of callable cb's body in terms of the creating scope, or None"""
    if isinstance(e, ast.Constant):
        return e
    if isinstance(e, ast.Name):
        return cb.outer(e.id)
    if isinstance(e, ast.Attribute):
        b = _translate(cb, e.value)
        return None if b is None else ast.Attribute(value=b, attr=e.attr, ctx=ast.Load())
    return None


def _compose(prog, fi, cb, depth):
    """a wrapper that only forwards to another callable (`lambda a=x: self._m(a)`) is that callable with the
    forwarded arguments bound"""
    call = _single_call_body(cb.fnode)
    if call is None or depth <= 0 or any(isinstance(a, ast.Starred) for a in call.args) or any(k.arg is None for k in call.keywords) or cb.free_params():
        return cb
    target = _translate(cb, call.func)
    if target is None:
        return cb
    inner = resolve_callable(prog, fi, target, depth=depth - 1)
    if inner is None:
        return cb
    bind = dict(inner.bind)
    free = inner.free_params()
    if len(call.args) > len(free):
        return cb
    for p, a in list(zip(free, call.args)) + [(k.arg, k.value) for k in call.keywords]:
        t = _translate(cb, a)
        if t is None:
            return cb
        bind[p] = t
    return Callable_(inner.fnode, bind, inner.closure, inner.fi)


def _scope_binds(fi, name):
    """is `name` a parameter or a local (assignment, def, class, import, loop/with/except target) of function fi
    or of a function enclosing it?  Such a name does not denote a module-level object."""
    f = fi
    while f is not None:
        a = f.node.args
        if name in [x.arg for x in a.posonlyargs + a.args + a.kwonlyargs] or (a.vararg is not None and a.vararg.arg == name) or (a.kwarg is not None and a.kwarg.arg == name):
            return True
        if writes_to_name(f.node, name):
            return True
        for n in walk_no_nested(f.node):
            if n is f.node:
                continue
            if isinstance(n, (ast.FunctionDef, ast.AsyncFunctionDef, ast.ClassDef)) and n.name == name:
                return True
            if isinstance(n, (ast.Import, ast.ImportFrom)) and any((al.asname or al.name.split(".")[0]) == name for al in n.names):
                return True
            if isinstance(n, ast.Name) and n.id == name and isinstance(n.ctx, (ast.Store, ast.Del)):
                return True
            if isinstance(n, ast.ExceptHandler) and n.name == name:
                return True
        f = f.parent
    return False


def _module_function(prog, fi, e):
    """Callable_ for a name / dotted name that denotes a function defined at module level (in fi's module or
    imported into it): nothing but its parameters connects it to the creating scope (closure=False)."""
    c = chain(e)
    if c is None or _scope_binds(fi, c.split(".")[0]):
        return None
    m = prog.funcs.get(prog.resolve_in_module(fi.module, c))
    if m is None or m.cls is not None or m.parent is not None or not isinstance(m.node, (ast.FunctionDef, ast.AsyncFunctionDef)):
        return None
    if m.node.decorator_list:
        return None  # a decorated function is whatever its decorator returns
    # the module-level name must have this one binding
    others = [st for st in m.module.tree.body if st is not m.node and (
        (isinstance(st, (ast.FunctionDef, ast.AsyncFunctionDef, ast.ClassDef)) and st.name == m.node.name)
        or (isinstance(st, ast.Assign) and any(isinstance(t, ast.Name) and t.id == m.node.name for t in st.targets)))]
    if others:
        return None
    return Callable_(m.node, {}, False, m)


def invocation(prog, fi, call, depth=3):
    """Callable_ describing the *activation* created by `call`: the callee (lambda, nested def, module-level function,
    bound method, functools.partial over these) with the call's arguments bound to its open parameters (positional
    and keyword).  For a coroutine function this is the coroutine object `f(a, b)`.  None when the callee or the
    argument list (`*args`, `**kw`, too many arguments) is outside the vocabulary."""
    if not isinstance(call, ast.Call) or any(isinstance(a, ast.Starred) for a in call.args) or any(k.arg is None for k in call.keywords):
        return None
    cb = resolve_callable(prog, fi, call.func, depth=depth)
    if cb is None:
        return None
    a = cb.fnode.args
    if len(call.args) > len([x for x in a.posonlyargs + a.args if x.arg not in cb.bind]):
        return None
    bind = dict(cb.bind)
    # positional arguments fill the parameters that are not bound yet, in order (defaults included)
    open_ = [x.arg for x in a.posonlyargs + a.args if x.arg not in cb.bind]
    for p, v in zip(open_, call.args):
        bind[p] = v
    names = {x.arg for x in a.posonlyargs + a.args + a.kwonlyargs}
    for k in call.keywords:
        if k.arg not in names or k.arg in open_[: len(call.args)]:
            return None
        bind[k.arg] = k.value
    return Callable_(cb.fnode, bind, cb.closure, cb.fi)


def resolve_callable(prog, fi, e, flow=None, at=None, depth=3):
    cb = _resolve_callable(prog, fi, e, flow, at, depth)
    if cb is not None and cb.closure:
        return _compose(prog, fi, cb, depth)
    return cb


def _resolve_callable(prog, fi, e, flow=None, at=None, depth=3):
    """Callable_ for: a lambda, the name of a nested def, `self.method` / `Class.method` of the enclosing class,
    `functools.partial(<callable>, args...)`; names are followed through their (unique) binding."""
    if depth == 0 or e is None:
        return None
    fnode = fi.node
    if isinstance(e, ast.Lambda):
        return Callable_(e, {}, True)
    if isinstance(e, ast.Name):
        defs = [n for n in walk_no_nested(fnode) if isinstance(n, (ast.FunctionDef, ast.AsyncFunctionDef)) and n.name == e.id and n is not fnode]
        ws = writes_to_name(fnode, e.id)
        if len(defs) == 1 and not ws:
            return Callable_(defs[0], {}, True)
        if not defs and len(ws) == 1 and isinstance(ws[0], ast.Assign) and len(ws[0].targets) == 1 and isinstance(ws[0].targets[0], ast.Name):
            return resolve_callable(prog, fi, ws[0].value, flow, at, depth - 1)
        if not defs and not ws:
            return _module_function(prog, fi, e)
        return None
    if isinstance(e, ast.Attribute) and chain(e) is not None and not (isinstance(e.value, ast.Name) and _scope_binds(fi, e.value.id)):
        m = _module_function(prog, fi, e)
        if m is not None:
            return m
    if _is_partial(prog, fi, e) and e.args and not any(isinstance(a, ast.Starred) for a in e.args):
        inner = resolve_callable(prog, fi, e.args[0], flow, at, depth - 1)
        if inner is None:
            return None
        bind = dict(inner.bind)
        free = inner.free_params()
        if len(e.args) - 1 > len(free):
            return None
        for p, a in zip(free, e.args[1:]):
            bind[p] = a
        for k in e.keywords:
            if k.arg is None:
                return None
            bind[k.arg] = k.value
        return Callable_(inner.fnode, bind, inner.closure, inner.fi)
    if isinstance(e, ast.Attribute) and isinstance(e.value, ast.Name) and fi.cls is not None:
        recv = e.value.id
        p = fi
        while p is not None and p.cls is None:
            p = p.parent
        first = None
        if fi.node.args.args:
            first = fi.node.args.args[0].arg
        if recv == first or recv == fi.cls.qn.split(".")[-1]:
            m = prog.lookup_method(fi.cls.qn, e.attr)
            if m is not None and isinstance(m.node, (ast.FunctionDef, ast.AsyncFunctionDef)):
                a = m.node.args
                names = [x.arg for x in a.posonlyargs + a.args]
                static = any(chain(d) == "staticmethod" for d in m.node.decorator_list)
                bind = {}
                if not static and names and recv == first:
                    bind[names[0]] = ast.Name(id=recv, ctx=ast.Load())
                elif not static:
                    return None
                return Callable_(m.node, bind, False, m)
    return None


# ---------------------------------------------------------------------------
# Flow


class _Ren(ast.NodeTransformer):
    def __init__(self, mapping, locals_):
        self.mapping = mapping
        self.locals_ = locals_

    def visit_Name(self, n):
        if n.id in self.mapping:
            return copy.deepcopy(self.mapping[n.id])
        if n.id in self.locals_:
            return ast.Name(id="%s@callee" % n.id, ctx=n.ctx)
        return n

    def visit_Lambda(self, n):
        return n


class Flow:
    def __init__(self, prog, fi, cfg=None, fnode=None):
        self.prog = prog
        self.fi = fi
        self.fnode = fnode if fnode is not None else fi.node
        if cfg is None:
            from ..cfg import CFG
            cfg = cfg_of(fi) if fnode is None else CFG(fnode)
        self.cfg = cfg
        self._wn = {}
        a = self.fnode.args
        self.params = {x.arg for x in a.posonlyargs + a.args + a.kwonlyargs}
        self._summaries = {}

    # -- reaching bindings ---------------------------------------------------
    def rn(self, astnode):
        return [i for i in self.cfg.locate(astnode) if self.cfg.is_reachable(i)]

    def write_nodes(self, name):
        if name not in self._wn:
            out = []
            for w in writes_to_name(self.fnode, name):
                for nid in self.cfg.locate(w):
                    if self.cfg.is_reachable(nid):
                        out.append((nid, w))
            for n in walk_no_nested(self.fnode):
                if isinstance(n, ast.Delete) and any(isinstance(t, ast.Name) and t.id == name for t in n.targets):
                    for nid in self.cfg.locate(n):
                        if self.cfg.is_reachable(nid):
                            out.append((nid, n))
            self._wn[name] = out
        return self._wn[name]

    def reaching(self, name, at):
        """(writes that can be the latest binding of `name` on arrival at node `at`, entry binding live?)"""
        cfg = self.cfg
        ws = self.write_nodes(name)
        ids = {nid for nid, _ in ws}
        out = []
        for nid, w in ws:
            if at in cfg.reach({nid}, avoid=ids - {nid, at}):
                out.append((nid, w))
        entry_live = at in cfg.reach({cfg.entry}, avoid=ids - {at}, include_src=True)
        return out, entry_live

    # -- comprehension scopes -----------------------------------------------
    def _comp_binding(self, e):
        """(Elem, path) when Name e is bound by a generator of an enclosing comprehension"""
        child = e
        p = self.cfg.parent.get(id(e))
        while p is not None and not isinstance(p, (ast.FunctionDef, ast.AsyncFunctionDef, ast.Lambda)):
            if isinstance(p, (ast.ListComp, ast.SetComp, ast.GeneratorExp, ast.DictComp)):
                gens = p.generators
                # a name inside the iterable of generator i sees the targets of generators < i only
                limit = len(gens)
                for i, g in enumerate(gens):
                    if any(x is child for x in ast.walk(g.iter)) or child is g.iter:
                        limit = i
                        break
                for g in reversed(gens[:limit]):
                    pp = path_in_target(g.target, e.id)
                    if pp is not None:
                        return Elem(g.iter, p), pp
            child = p
            p = self.cfg.parent.get(id(p))
        return None

    # -- helper summaries ----------------------------------------------------
    def call_summary(self, call):
        """the expression a call to a small helper of the same class/module returns, in the caller's terms
        (parameters replaced by the arguments, callee locals renamed apart), when every `return <value>` of the
        helper returns the same expression; else None.  Used for helpers the engine could not expand (a return
        inside a loop, a helper called on another object)."""
        key = id(call)
        if key in self._summaries:
            return self._summaries[key]
        res = self._call_summary(call)
        self._summaries[key] = res
        return res

    def _callee(self, call):
        f = call.func
        prog = self.prog
        if isinstance(f, ast.Attribute):
            cands = [m for m in prog.funcs.values() if m.name == f.attr and m.cls is not None and m.parent is None]
            own = self.fi.cls
            if isinstance(f.value, ast.Name) and own is not None and (f.value.id in ("self", "cls") or f.value.id == own.qn.split(".")[-1]):
                m = prog.lookup_method(own.qn, f.attr)
                return m, f.value
            if len(cands) == 1:
                return cands[0], f.value
            return None, None
        if isinstance(f, ast.Name):
            q = prog.resolve_in_module(self.fi.module, f.id)
            for m in prog.funcs.values():
                if m.qn == q and m.cls is None:
                    return m, None
        return None, None

    def _call_summary(self, call):
        if any(isinstance(a, ast.Starred) for a in call.args) or any(k.arg is None for k in call.keywords):
            return None
        m, recv = self._callee(call)
        if m is None or not isinstance(m.node, (ast.FunctionDef, ast.AsyncFunctionDef)) or m.node is self.fnode:
            return None
        # like the engine's helper expansion: only helpers that are not anchored functions of the confirmed tree
        from ..inline import baseline
        if m.qn in baseline():
            return None
        fn = m.node
        if any(isinstance(n, (ast.Yield, ast.YieldFrom)) for n in walk_no_nested(fn)):
            return None
        if isinstance(fn, ast.AsyncFunctionDef):
            return None  # the value of the call is a coroutine object, not what the body returns
        # no recursion (the summary of a summary must terminate)
        if any(isinstance(n, ast.Call) and (call_name(n) or "").split(".")[-1] == fn.name for n in ast.walk(fn)):
            return None
        rets = [n for n in walk_no_nested(fn) if isinstance(n, ast.Return) and n.value is not None]
        if not rets or any(not same(r.value, rets[0].value) for r in rets[1:]):
            return None
        a = fn.args
        if a.vararg or a.kwarg:
            return None
        names = [x.arg for x in a.posonlyargs + a.args]
        static = any(chain(d) in ("staticmethod",) for d in fn.decorator_list)
        mapping = {}
        if m.cls is not None and not static:
            if recv is None or not names:
                return None
            mapping[names[0]] = recv
            names = names[1:]
        if len(call.args) > len(names):
            return None
        for n_, v in zip(names, call.args):
            mapping[n_] = v
        for k in call.keywords:
            mapping[k.arg] = k.value
        defaults = dict(zip([x.arg for x in (a.posonlyargs + a.args)][-len(a.defaults):] if a.defaults else [], a.defaults))
        for n_ in names:
            if n_ not in mapping:
                if n_ in defaults:
                    mapping[n_] = defaults[n_]
                else:
                    return None
        locals_ = {n.id for n in ast.walk(fn) if isinstance(n, ast.Name) and isinstance(n.ctx, ast.Store)}
        # a parameter that the helper re-binds does not denote the argument any more
        if any(p in locals_ for p in mapping):
            return None
        e = _Ren(mapping, locals_).visit(copy.deepcopy(rets[0].value))
        ast.fix_missing_locations(e)
        return e

    # -- origins ------------------------------------------------------------------
    def origins(self, e, at=None, depth=8):
        """[(expression, index path)]: everything `e` can denote at CFG node `at`; `value[path...]`.  Names that
        cannot be followed (parameters, free variables, multiply bound in a way the flow cannot index) are returned
        as themselves."""
        out = []
        self._orig(e, (), at, depth, out, set())
        return out

    def one(self, e, at=None):
        o = self.origins(e, at)
        return o[0] if len(o) == 1 else (None, None)

    def _index(self, v, p):
        while p and isinstance(v, (ast.Tuple, ast.List)) and len(v.elts) > p[0] and not any(isinstance(x, ast.Starred) for x in v.elts):
            v, p = v.elts[p[0]], p[1:]
        return v, p

    def _orig(self, e, path, at, depth, out, seen):
        e, path = self._index(e, path)
        if depth == 0 or isinstance(e, (Elem, Opaque)):
            out.append((e, path))
            return
        if at is None and isinstance(e, ast.AST):
            ids = self.rn(e)
            at = ids[0] if ids else None
        if isinstance(e, ast.Name):
            cb = self._comp_binding(e)
            if cb is not None:
                out.append((cb[0], cb[1] + path))
                return
            if at is None:
                out.append((e, path))
                return
            ws, live = self.reaching(e.id, at)
            if live or not ws:
                out.append((e, path))
                if not ws:
                    return
            for nid, w in ws:
                k = (nid, e.id, path)
                if k in seen:
                    continue
                seen.add(k)
                if isinstance(w, (ast.Assign, ast.AnnAssign)):
                    v = p = None
                    if isinstance(w, ast.Assign):
                        for t in w.targets:
                            pp = path_in_target(t, e.id)
                            if pp is not None:
                                v, p = w.value, pp
                    elif isinstance(w.target, ast.Name) and w.target.id == e.id:
                        v, p = w.value, ()
                    if v is None:
                        out.append((Opaque(w), path))
                    else:
                        self._orig(v, p + path, nid, depth - 1, out, seen)
                elif isinstance(w, (ast.For, ast.AsyncFor)):
                    pp = path_in_target(w.target, e.id)
                    out.append((Elem(w.iter, w), (pp or ()) + path))
                elif isinstance(w, ast.NamedExpr):
                    self._orig(w.value, path, nid, depth - 1, out, seen)
                else:
                    out.append((Opaque(w), path))
            return
        if isinstance(e, ast.IfExp):
            self._orig(e.body, path, at, depth - 1, out, seen)
            self._orig(e.orelse, path, at, depth - 1, out, seen)
            return
        if isinstance(e, ast.NamedExpr):
            self._orig(e.value, path, at, depth - 1, out, seen)
            return
        if isinstance(e, ast.Subscript) and isinstance(e.slice, ast.Constant) and isinstance(e.slice.value, int) and e.slice.value >= 0:
            # x[i]: component i of whatever x denotes -- unless x is a container the rules address by key
            inner = []
            self._orig(e.value, (), at, depth - 1, inner, seen)
            if all(isinstance(v, (ast.Tuple, ast.List, Elem)) or (isinstance(v, (ast.Call, ast.Subscript)) and p == ()) or p for v, p in inner) and inner:
                for v, p in inner:
                    if (isinstance(v, ast.Call) and not self._is_entry_read(v)) or (isinstance(v, ast.Subscript) and not p and isinstance(v.slice, (ast.Slice, ast.Constant))):
                        out.append((e, path))
                        return
                for v, p in inner:
                    v2, p2 = self._index(v, p + (e.slice.value,) + path)
                    out.append((v2, p2))
                return
            out.append((e, path))
            return
        if isinstance(e, ast.Call):
            s = self.call_summary(e)
            if s is not None:
                if at is not None and getattr(s, "_c08_site", None) is None:
                    s._c08_site = at  # the synthesised expression is evaluated where the call is
                self._orig(s, path, at, depth - 1, out, seen)
                return
        out.append((e, path))

    @staticmethod
    def _is_entry_read(call):
        return isinstance(call.func, ast.Attribute) and call.func.attr in ("pop", "get", "popitem", "setdefault", "popleft")

    # -- containers held in a field ----------------------------------------------------
    def denotes_field(self, e, field, at=None):
        """does expression e denote the object held in `field` (attribute chain text) at node `at`: the chain itself
        or a local bound to it, with no re-assignment of the field between the binding and `at`"""
        if chain(e) == field:
            return True
        if not isinstance(e, ast.Name) or e.id.endswith("@callee"):
            return False
        if at is None:
            ids = self.rn(e)
            if not ids:
                return False
            at = ids[0]
        ws, live = self.reaching(e.id, at)
        if live or not ws:
            return False
        resets = {i for k, n in stores_to(self.fnode, field, nested=False) if k in ("assign", "del") for i in self.rn(n)}
        for nid, w in ws:
            if not (isinstance(w, ast.Assign) and len(w.targets) == 1 and isinstance(w.targets[0], ast.Name) and chain(w.value) == field):
                return False
            for r in resets:
                if r in self.cfg.reach({nid}) and (at in self.cfg.reach({r}) or at == r):
                    return False
        return True

    def entry_read(self, v, field, at=None):
        """classify expression v as a read of (part of) an entry of the dict/list held in `field`:
        -> (kind, key expr or None, removes?) with kind in 'value' (the entry's value), 'item' ((key, value) pair),
        'key'; or None.  Spellings: F[k], F.get(k[, d]), F.pop(k[, d]), F.setdefault(k, d), F.popitem(),
        F.pop(i)/F.popleft() of a sequence, an element of iterating F / F.keys() / F.values() / F.items()."""
        if isinstance(v, Elem):
            it, copied = unwrap_iter(v.it)
            at_it = None
            ids = self.rn(v.scope) if isinstance(v.scope, ast.AST) else []
            at_it = ids[0] if ids else at
            if self.denotes_field(it, field, at_it):
                return ("key", None, False)
            if isinstance(it, ast.Call) and isinstance(it.func, ast.Attribute) and not it.args and it.func.attr in ("items", "values", "keys"):
                base, c2 = unwrap_iter(it.func.value)
                if self.denotes_field(base, field, at_it):
                    return ({"items": "item", "values": "value", "keys": "key"}[it.func.attr], None, False)
            return None
        if isinstance(v, ast.Subscript) and not isinstance(v.slice, ast.Slice) and self.denotes_field(v.value, field, at):
            return ("value", v.slice, False)
        if isinstance(v, ast.Call) and isinstance(v.func, ast.Attribute) and self.denotes_field(v.func.value, field, at):
            m = v.func.attr
            if m in ("get", "setdefault") and v.args:
                return ("value", v.args[0], False)
            if m == "pop":
                return ("value", v.args[0] if v.args else None, True)
            if m == "popleft" and not v.args:
                return ("value", None, True)
            if m == "popitem" and not v.args:
                return ("item", None, True)
        return None

    def site(self, v, default=None):
        """CFG node at which expression v (possibly synthesised from a helper's return value) is evaluated"""
        if isinstance(v, ast.AST):
            s_ = getattr(v, "_c08_site", None)
            if s_ is not None:
                return s_
            ids = self.rn(v)
            if ids:
                return ids[0]
        return default

    def is_iteration_of(self, v, field):
        return isinstance(v, Elem) and self.entry_read(v, field) is not None


def nonempty_test_subject(t):
    """the container X of a loop test that means "X is not empty": `X`, `len(X)`, `len(X) > 0`, `len(X) != 0`,
    `len(X) >= 1`, `0 < len(X)`, `X != {}` / `X != []`; else None"""
    if isinstance(t, ast.Compare) and len(t.ops) == 1:
        l, op, r = t.left, t.ops[0], t.comparators[0]
        if isinstance(l, ast.Constant) and isinstance(op, (ast.Lt, ast.LtE, ast.NotEq)):
            l, r, op = r, l, {ast.Lt: ast.Gt, ast.LtE: ast.GtE, ast.NotEq: ast.NotEq}[type(op)]()
        if isinstance(l, ast.Call) and chain(l.func) == "len" and len(l.args) == 1 and isinstance(r, ast.Constant) and type(r.value) is int:
            if (isinstance(op, (ast.Gt, ast.NotEq)) and r.value == 0) or (isinstance(op, ast.GtE) and r.value == 1):
                return l.args[0]
            return None
        if isinstance(op, ast.NotEq) and ((isinstance(r, ast.Dict) and not r.keys) or (isinstance(r, (ast.List, ast.Tuple)) and not r.elts)):
            return l
        return None
    if isinstance(t, ast.Call) and chain(t.func) in ("len", "bool") and len(t.args) == 1 and not t.keywords:
        return t.args[0]
    if isinstance(t, (ast.Name, ast.Attribute)):
        return t
    return None


class Drain:
    """what `draining_generator` found: every element the generator yields is component `path` of the (kind =
    'value' | 'item') of an entry it has just taken out of the table"""

    def __init__(self, kind, path, gfi, loop):
        self.kind, self.path, self.gfi, self.loop = kind, path, gfi, loop


def draining_generator(flow, call, field, at):
    """Is `call` (evaluated at node `at` of flow's function) the activation of a generator that *drains* the dict
    held in `field`: it yields (a component of) entries it removes from the dict, one per round, and ends only
    when the dict is empty?  -> Drain or None.

    `for e in g(F): use(e)` with such a g is the same fact as `while F: e = <removing read of F>; use(e)`:
      * g's table is F: a parameter bound to an argument that denotes F at the call (never re-bound in g), or F itself
        when g is a method called on self;
      * every `yield` sits directly in one `while <table is not empty>` loop and yields a value whose origins are all
        removing reads of the table (`pop(k[, d])`, `popitem()`), with the same component;
      * the generator's normal end is reachable only through that loop's exhausted test (no return / break), every
        round passes a yield, every entry taken out is yielded (a removal that can reach the loop head without a
        yield would lose a stopper), and nothing else writes the table;
      * the key of a keyed removal is computed in the round that uses it (no yield -- i.e. no run of the consumer,
        which removes entries itself -- between computing the key and removing the entry).
    Between two rounds the generator holds no iterator over the table (the yields are not inside a `for`), so the
    consumer may modify the table while the generator is suspended.  No function or parameter name enters."""
    prog = flow.prog
    if not isinstance(call, ast.Call) or any(isinstance(a, ast.Starred) for a in call.args) or any(k.arg is None for k in call.keywords):
        return None
    m, recv = flow._callee(call)
    if m is None or not isinstance(m.node, ast.FunctionDef) or m.node is flow.fnode:
        return None
    fn = m.node
    ys = [n for n in walk_no_nested(fn) if isinstance(n, (ast.Yield, ast.YieldFrom))]
    if not ys or any(isinstance(y, ast.YieldFrom) or y.value is None for y in ys):
        return None
    a = fn.args
    if a.vararg or a.kwarg:
        return None
    names = [x.arg for x in a.posonlyargs + a.args]
    static = any(chain(d) in ("staticmethod",) for d in fn.decorator_list)
    tables = set()
    if m.cls is not None and not static:
        if recv is None or not names:
            return None
        if isinstance(recv, ast.Name) and recv.id == "self" and names[0] == "self" and field.startswith("self.") and not writes_to_name(fn, "self"):
            tables.add(field)
        names = names[1:]
    if len(call.args) > len(names):
        return None
    mapping = dict(zip(names, call.args))
    for k in call.keywords:
        mapping[k.arg] = k.value
    for pname, arg in mapping.items():
        if flow.denotes_field(arg, field, at) and not writes_to_name(fn, pname):
            tables.add(pname)
    if len(tables) != 1:
        return None
    T = tables.pop()
    gflow = Flow(prog, m)
    gcfg = gflow.cfg
    loops, comps, ynodes, yielded, sites = [], set(), set(), set(), {}
    for y in ys:
        ids = gflow.rn(y)
        if not ids:
            continue
        child, p_, lp = y, gcfg.parent.get(id(y)), None
        while p_ is not None and not isinstance(p_, (ast.FunctionDef, ast.AsyncFunctionDef, ast.Lambda)):
            if isinstance(p_, (ast.While, ast.For, ast.AsyncFor)) and any(child is s_ for s_ in p_.body):
                lp = p_
                break
            child, p_ = p_, gcfg.parent.get(id(p_))
        if not isinstance(lp, ast.While):
            return None
        if not any(lp is l for l in loops):
            loops.append(lp)
        o = gflow.origins(y.value, ids[0])
        if not o:
            return None
        for v, pth in o:
            if not isinstance(v, ast.AST):
                return None
            sv = gflow.site(v, ids[0])
            er = gflow.entry_read(v, T, sv)
            if er is None or not er[2] or er[0] not in ("value", "item"):
                return None
            comps.add((er[0], pth))
            yielded.add(id(v))
            sites.setdefault(sv, set()).update(ids)
            if er[1] is not None:
                kv, kp = gflow.one(er[1], sv)
                ks = gflow.site(kv, None) if isinstance(kv, ast.AST) else None
                if kp != () or ks is None or not any(n is kv for n in ast.walk(lp)):
                    return None
                if ks != sv and any(i in gcfg.reach({ks}, avoid={sv}) for y2 in ys for i in gflow.rn(y2)):
                    return None
        ynodes.update(ids)
    if len(loops) != 1 or len(comps) != 1:
        return None
    lp = loops[0]
    heads = gflow.rn(lp)
    subj = nonempty_test_subject(lp.test)
    if not heads or subj is None or not gflow.denotes_field(subj, T, heads[0]):
        return None
    tn = [n.id for n in gcfg.nodes if n.kind == "T" and n.stmt is lp and gcfg.is_reachable(n.id)]
    fnn = [n.id for n in gcfg.nodes if n.kind == "F" and n.stmt is lp and gcfg.is_reachable(n.id)]
    if not tn or not fnn or lp.orelse:
        return None
    if not gcfg.must_pass(gcfg.entry, set(fnn)):
        return None
    if not all(gcfg.must_pass(t_, ynodes, to=heads[0]) for t_ in tn):
        return None
    for sv, yn in sites.items():
        if sv not in yn and not all(gcfg.must_pass(d, yn, to=heads[0]) for d, lab in gcfg.succ[sv] if lab != "exc"):
            return None
    if any(id(n) not in yielded for k, n in stores_to(fn, T, nested=False)):
        return None
    kind, pth = next(iter(comps))
    return Drain(kind, pth, m, lp)


def _fi_of(prog, fnode):
    for m in prog.funcs.values():
        if m.node is fnode:
            return m
    return None


def awaited_values(prog, fi, cb, depth=3):
    """What the coroutine described by activation `cb` (see `invocation`) awaits, in terms of the scope that created
    it: [(expression of the creating scope, late?)].  `late` is True for a free variable of a nested coroutine
    function (its binding is read when the coroutine runs), False for an argument (evaluated where the coroutine
    object is created).  Inside the coroutine function the awaited expression is followed through its locals
    (`c = coroutine; await c`, `result = await coroutine`, `return await coroutine`) and through a further coroutine
    function it merely delegates to (`await _inner(coroutine)`); awaits in unreachable code do not count."""
    fn = cb.fnode
    if depth <= 0 or not isinstance(fn, ast.AsyncFunctionDef):
        return []
    wfi = cb.fi if cb.fi is not None else _fi_of(prog, fn)
    wflow = Flow(prog, wfi) if wfi is not None else Flow(prog, fi, fnode=fn)
    a = fn.args
    own = {x.arg for x in a.posonlyargs + a.args + a.kwonlyargs}
    out = []

    def outer_of(e, at):
        """[(creating-scope expression, late?)] for expression e of the coroutine function evaluated at node `at`"""
        res = []
        for v, pth in wflow.origins(e, at):
            if pth != () or not isinstance(v, ast.Name):
                continue
            o = cb.outer(v.id)
            if o is not None:
                res.append((o, cb.closure and v.id not in own))
        return res

    for n in walk_no_nested(fn):
        if not isinstance(n, ast.Await):
            continue
        ids = wflow.rn(n)
        if not ids:
            continue
        for v, pth in wflow.origins(n.value, ids[0]):
            if pth != ():
                continue
            if isinstance(v, ast.Name):
                out.extend(outer_of(v, ids[0]))
            elif isinstance(v, ast.Call):
                inner = invocation(prog, wfi if wfi is not None else fi, v, depth=depth - 1)
                if inner is None:
                    continue
                at_v = wflow.site(v, ids[0])
                for o2, late2 in awaited_values(prog, wfi if wfi is not None else fi, inner, depth - 1):
                    # o2 lives in the coroutine function's own scope: an argument is evaluated at the inner call, a
                    # free variable of a doubly nested coroutine function when that one runs (the end of this body)
                    out.extend(outer_of(o2, wflow.cfg.exit if late2 else at_v))
    return out


def entry_component(kind, path):
    """-> ('key'|'value', path inside it) for an origin (entry_read kind, index path); None when the path does
    not select inside the key or the value"""
    if kind == "item":
        if not path:
            return None
        return ("key" if path[0] == 0 else "value" if path[0] == 1 else None, path[1:])
    return (kind, path)


# ---------------------------------------------------------------------------
# Sym


def _is_boolish(e):
    if isinstance(e, ast.BoolOp):
        return True
    if isinstance(e, ast.UnaryOp) and isinstance(e.op, ast.Not):
        return True
    if isinstance(e, ast.Compare):
        return True
    if isinstance(e, ast.Constant) and isinstance(e.value, bool):
        return True
    if isinstance(e, ast.IfExp):
        return _is_boolish(e.body) and _is_boolish(e.orelse)
    return False


def evalf(f, dec):
    """three-valued value of a formula under decisions {atom key: bool}"""
    k = f[0]
    if k == "const":
        return f[1]
    if k == "atom":
        return dec.get(f[1])
    if k == "not":
        v = evalf(f[1], dec)
        return None if v is None else (not v)
    if k in ("and", "or"):
        vals = [evalf(x, dec) for x in f[1]]
        if k == "and":
            if any(v is False for v in vals):
                return False
            return True if all(v is True for v in vals) else None
        if any(v is True for v in vals):
            return True
        return False if all(v is False for v in vals) else None
    if k == "ite":
        t = evalf(f[1], dec)
        if t is None:
            a, b = evalf(f[2], dec), evalf(f[3], dec)
            return a if a == b else None
        return evalf(f[2] if t else f[3], dec)
    raise AnalysisError("formula kind %r" % (k,))


def atoms_of(f, out=None):
    out = [] if out is None else out
    if f[0] == "atom":
        if f[1] not in out:
            out.append(f[1])
    elif f[0] == "not":
        atoms_of(f[1], out)
    elif f[0] in ("and", "or"):
        for x in f[1]:
            atoms_of(x, out)
    elif f[0] == "ite":
        for x in f[1:]:
            atoms_of(x, out)
    return out


def equivalent_under(f, g, dec, limit=10):
    """are formulas f and g equal for every completion of the decisions `dec` over their undecided atoms?
    -> (bool, counterexample description or None)"""
    und = [a for a in atoms_of(g, atoms_of(f)) if a not in dec]
    if len(und) > limit:
        raise AnalysisError("more than %d undecided atoms in a flag comparison" % limit)
    for bits in itertools.product((False, True), repeat=len(und)):
        d = dict(dec)
        d.update(zip(und, bits))
        a, b = evalf(f, d), evalf(g, d)
        if a != b or a is None:
            return False, ", ".join("%s=%s" % (_show(k), v) for k, v in zip(und, bits))
    return True, None


def _show(t):
    if isinstance(t, (tuple, frozenset)):
        if isinstance(t, tuple) and t and t[0] == "n":
            return t[1]
        if isinstance(t, tuple) and t and t[0] == "c":
            return t[1]
        if isinstance(t, tuple) and t and t[0] == "a":
            return "%s.%s" % (_show(t[1]), t[2])
        if isinstance(t, tuple) and t and t[0] == "call":
            return "%s()" % _show(t[1])
        if isinstance(t, tuple) and t and t[0] == "new":
            return "<value bound at node %s>" % (t[1],)
        return "(" + " ".join(_show(x) for x in (sorted(t, key=repr) if isinstance(t, frozenset) else t)) + ")"
    return str(t)


class State:
    __slots__ = ("val", "heap", "dec", "cells", "epoch", "nodes", "events", "snaps")

    def __init__(self):
        self.val = {}
        self.heap = {}
        self.dec = {}
        self.cells = {}
        self.epoch = 0
        self.nodes = []
        self.events = []
        self.snaps = {}

    def copy(self):
        s = State()
        s.val = dict(self.val)
        s.heap = dict(self.heap)
        s.dec = dict(self.dec)
        s.cells = dict(self.cells)
        s.epoch = self.epoch
        s.nodes = list(self.nodes)
        s.events = list(self.events)
        s.snaps = dict(self.snaps)
        return s

    def fork(self):
        """state to start a follow-up run from (keeps the store, forgets the trace)"""
        s = self.copy()
        s.nodes, s.events, s.snaps = [], [], {}
        return s


class CallEv:
    kind = "call"

    def __init__(self, nid, call, sym, st):
        self.nid = nid
        self.call = call
        self.func = sym.tok(call.func, st)
        self.meth = call.func.attr if isinstance(call.func, ast.Attribute) else None
        self.recv = sym.tok(call.func.value, st) if isinstance(call.func, ast.Attribute) else None
        self.args = [sym.tok(x, st) for x in call.args]
        self.kw = {k.arg: sym.tok(k.value, st) for k in call.keywords}
        self._sym, self._st_val, self._st_heap, self._epoch = sym, dict(st.val), dict(st.heap), st.epoch

    def formula_of(self, e):
        """formula of an argument expression in the state in which the call was made"""
        s = State()
        s.val, s.heap, s.epoch = self._st_val, self._st_heap, self._epoch
        return self._sym.formula(e, s)

    def tok_of(self, e):
        s = State()
        s.val, s.heap, s.epoch = self._st_val, self._st_heap, self._epoch
        return self._sym.tok(e, s)


class StoreEv:
    kind = "store"

    def __init__(self, nid, base, attr, value, poly, stmt, expr=None):
        self.nid, self.base, self.attr, self.value, self.poly, self.stmt = nid, base, attr, value, poly, stmt
        self.expr = expr  # the value expression (the arm taken on this path, for a conditional expression)


class AwaitEv:
    kind = "await"

    def __init__(self, nid, node, value):
        self.nid, self.node, self.value = nid, node, value


class SPath:
    def __init__(self, st, end, at):
        self.st = st
        self.nodes = st.nodes
        self.events = st.events
        self.end = end  # 'exit' | 'rexit' | 'stop' | 'revisit' | 'dead'
        self.at = at  # node where the path ended

    def index(self, nid):
        return self.nodes.index(nid) if nid in self.nodes else None


class Sym:
    def __init__(self, prog, fi, cfg=None, flow=None, max_paths=4000, unroll=2):
        self.prog = prog
        self.fi = fi
        self.cfg = cfg or cfg_of(fi)
        self.flow = flow or Flow(prog, fi, self.cfg)
        self.max_paths = max_paths
        self._depth = 0
        self.unroll = unroll  # a node may occur this many times on a path (inner loops: 0 .. unroll-1 full iterations)

    # -- terms ----------------------------------------------------------------
    def tok(self, e, st):
        if isinstance(e, ast.Constant):
            return ("c", repr(e.value))
        if isinstance(e, ast.Name):
            return st.val.get(e.id, ("n", e.id))
        if isinstance(e, ast.Attribute):
            b = self.tok(e.value, st)
            k = (b, e.attr)
            if k in st.heap:
                return st.heap[k]
            return ("a", b, e.attr, st.epoch)
        if isinstance(e, ast.Call):
            s = self.flow.call_summary(e) if self._depth < 4 else None
            if s is not None:
                self._depth += 1
                try:
                    return self.tok(s, st)
                finally:
                    self._depth -= 1
            return ("call", self.tok(e.func, st), tuple(self.tok(a, st) for a in e.args), tuple((k.arg, self.tok(k.value, st)) for k in e.keywords), st.epoch)
        if isinstance(e, ast.Await):
            return ("await", self.tok(e.value, st), st.epoch)
        if isinstance(e, (ast.Tuple, ast.List)):
            return ("tuple", tuple(self.tok(x, st) for x in e.elts))
        if isinstance(e, ast.expr):
            parts = []
            for c in ast.iter_child_nodes(e):
                parts.append(self.tok(c, st) if isinstance(c, ast.expr) else type(c).__name__)
            return ("x", type(e).__name__, tuple(parts))
        return ("x", type(e).__name__)

    def atom(self, e, st):
        """-> (atom key, polarity)"""
        pol = True
        while isinstance(e, ast.UnaryOp) and isinstance(e.op, ast.Not):
            e = e.operand
            pol = not pol
        if isinstance(e, ast.Compare) and len(e.ops) == 1:
            op, l, r = e.ops[0], self.tok(e.left, st), None
            rr = e.comparators[0]
            if isinstance(op, (ast.Eq, ast.Is, ast.NotEq, ast.IsNot)):
                r = self.tok(rr, st)
                return ("eq", frozenset([l, r])), pol == isinstance(op, (ast.Eq, ast.Is))
            if isinstance(op, (ast.In, ast.NotIn)):
                if isinstance(rr, (ast.Tuple, ast.List, ast.Set)):
                    r = frozenset(self.tok(x, st) for x in rr.elts)
                else:
                    r = self.tok(rr, st)
                return ("in", l, r), pol == isinstance(op, ast.In)
            r = self.tok(rr, st)
            if isinstance(op, ast.Lt):
                return ("lt", l, r), pol
            if isinstance(op, ast.Gt):
                return ("lt", r, l), pol
            if isinstance(op, ast.GtE):
                return ("lt", l, r), not pol
            if isinstance(op, ast.LtE):
                return ("lt", r, l), not pol
        return ("t", self.tok(e, st)), pol

    def formula(self, e, st):
        if isinstance(e, ast.BoolOp):
            return ("and" if isinstance(e.op, ast.And) else "or", tuple(self.formula(v, st) for v in e.values))
        if isinstance(e, ast.UnaryOp) and isinstance(e.op, ast.Not):
            return ("not", self.formula(e.operand, st))
        if isinstance(e, ast.Constant):
            return ("const", bool(e.value))
        if isinstance(e, ast.IfExp):
            return ("ite", self.formula(e.test, st), self.formula(e.body, st), self.formula(e.orelse, st))
        if isinstance(e, ast.Compare) and len(e.ops) > 1:
            parts = []
            left = e.left
            for op, right in zip(e.ops, e.comparators):
                parts.append(self.formula(ast.Compare(left=left, ops=[op], comparators=[right]), st))
                left = right
            return ("and", tuple(parts))
        if isinstance(e, (ast.Name, ast.Attribute)):
            v = self.tok(e, st)
            if v[0] == "f":
                return v[1]
            if v == ("c", "True"):
                return ("const", True)
            if v in (("c", "False"), ("c", "None")):
                return ("const", False)
        k, pol = self.atom(e, st)
        f = ("atom", k)
        return f if pol else ("not", f)

    def truth(self, e, st):
        return evalf(self.formula(e, st), st.dec)

    # -- numeric cells --------------------------------------------------------------
    def _count_call(self, e):
        """(start, step) expressions of an itertools.count(...) call, else None"""
        if not isinstance(e, ast.Call):
            return None
        c = chain(e.func)
        if c is None or self.prog.resolve_in_module(self.fi.module, c) != "itertools.count":
            return None
        if any(isinstance(a, ast.Starred) for a in e.args) or any(k.arg not in ("start", "step") for k in e.keywords):
            return None
        start = kwarg(e, "start", 0) or ast.Constant(value=0)
        step = kwarg(e, "step", 1) or ast.Constant(value=1)
        return start, step

    @staticmethod
    def _for_cell(nid):
        return "_count_of_for_%d" % nid

    def count_source(self, node, st):
        """name of the cell that holds the `itertools.count` iterator a `for` head draws from on this path: the local
        the iterator was bound to (`it = itertools.count(1)` ... `for n in it`), or the head's own hidden cell when the
        iterable is the count() call itself (the call is evaluated once, when the loop is entered: see `_enter`).
        None when the loop iterates over anything else."""
        it = node.ast.iter
        if isinstance(node.ast, ast.AsyncFor):
            return None
        while isinstance(it, ast.Call) and chain(it.func) == "iter" and len(it.args) == 1 and not it.keywords:
            it = it.args[0]  # iter(x) of an iterator is the iterator
        if isinstance(it, ast.Name) and isinstance(st.cells.get(it.id), tuple):
            return it.id
        if self._count_call(it) is not None and isinstance(st.cells.get(self._for_cell(node.id)), tuple):
            return self._for_cell(node.id)
        return None

    def _enter(self, d, label, st):
        """effect of taking the CFG edge (label) into node d: a `for` head that is entered from outside the loop
        evaluates its iterable; when that is an `itertools.count(start[, step])` call, the head gets a fresh
        iterator cell (a back edge / `continue` keeps the one the loop is drawing from)."""
        if label == "back":
            return
        node = self.cfg.nodes[d]
        if node.kind != "for" or isinstance(node.ast, ast.AsyncFor):
            return
        it = node.ast.iter
        while isinstance(it, ast.Call) and chain(it.func) == "iter" and len(it.args) == 1 and not it.keywords:
            it = it.args[0]
        cc = self._count_call(it)
        if cc is None:
            return
        s0, s1 = self.poly_of(cc[0], st, advance=False), self.poly_of(cc[1], st, advance=False)
        if s0 is not None and s1 is not None:
            st.cells[self._for_cell(d)] = ("iter", s0, s1)
        else:
            st.cells.pop(self._for_cell(d), None)

    def _next_calls(self, root, st):
        return [c for c in walk_no_nested(root) if isinstance(c, ast.Call) and isinstance(c.func, ast.Name) and c.func.id == "next" and len(c.args) == 1
                and isinstance(c.args[0], ast.Name) and isinstance(st.cells.get(c.args[0].id), tuple)]

    def poly_of(self, e, st, advance=True):
        """polynomial value of an arithmetic expression over the numeric cells (and `next(<count iterator>)`), or
        None.  `next` advances the iterator's cell."""
        if e is None or (isinstance(e, ast.Constant) and not (isinstance(e.value, int) and not isinstance(e.value, bool))):
            return None
        penv = {}
        e2 = e
        nx = self._next_calls(e, st)
        if nx:
            e2 = copy.deepcopy(e)
            k = 0
            cells = dict(st.cells)
            for c in [c for c in ast.walk(e2) if isinstance(c, ast.Call) and isinstance(c.func, ast.Name) and c.func.id == "next" and len(c.args) == 1
                      and isinstance(c.args[0], ast.Name) and isinstance(cells.get(c.args[0].id), tuple)]:
                nm = c.args[0].id
                _, cur, step = cells[nm]
                tmp = "__next%d" % k
                k += 1
                penv[tmp] = cur
                cells[nm] = ("iter", cur + step, step)
                # rewrite the call node in place into a Name
                c.__class__ = ast.Name
                c.__dict__.clear()
                c.id = tmp
                c.ctx = ast.Load()
            if advance:
                st.cells = cells
        for n in ast.walk(e2):
            if isinstance(n, ast.Name) and n.id not in penv:
                v = st.cells.get(n.id)
                if isinstance(v, Poly):
                    penv[n.id] = v
                else:
                    return None
            elif isinstance(n, (ast.Attribute, ast.Call, ast.Subscript, ast.Await)):
                return None
        try:
            return Normalizer(penv=penv).poly(e2)
        except norm.NormError:
            return None

    # -- execution ---------------------------------------------------------------
    def _fresh(self, nid, path=()):
        return ("new", nid, path)

    def _bind_target(self, t, value, st, nid, rhs=None, path=()):
        if isinstance(t, ast.Name):
            st.val[t.id] = value
        elif isinstance(t, ast.Attribute):
            st.heap[(self.tok(t.value, st), t.attr)] = value
        elif isinstance(t, (ast.Tuple, ast.List)):
            for i, el in enumerate(t.elts):
                if isinstance(el, ast.Starred):
                    self._bind_target(el.value, self._fresh(nid, path + (i, "*")), st, nid)
                    continue
                if value[0] == "tuple" and len(value[1]) == len(t.elts):
                    self._bind_target(el, value[1][i], st, nid, path=path + (i,))
                else:
                    self._bind_target(el, ("comp", value, i), st, nid, path=path + (i,))
        # subscript targets: not tracked

    def chosen(self, e, st):
        """the arm of a conditional expression taken under the path's decisions (e itself otherwise)"""
        while isinstance(e, ast.IfExp):
            t = self.truth(e.test, st)
            if t is None:
                break
            e = e.body if t else e.orelse
        return e

    def value_of(self, e, st, nid):
        """value token of the right-hand side of a binding"""
        if e is None:
            return self._fresh(nid)
        if _is_boolish(e):
            return ("f", self.formula(e, st))
        if isinstance(e, (ast.Name, ast.Attribute, ast.Constant)):
            return self.tok(e, st)
        if isinstance(e, (ast.Tuple, ast.List)) and not any(isinstance(x, ast.Starred) for x in e.elts):
            return ("tuple", tuple(self.value_of(x, st, nid) if isinstance(x, (ast.Name, ast.Attribute, ast.Constant, ast.Tuple)) else self._fresh(nid, ("elt", i)) for i, x in enumerate(e.elts)))
        if isinstance(e, ast.IfExp):
            t = self.truth(e.test, st)
            if t is not None:
                return self.value_of(e.body if t else e.orelse, st, nid)
        return self._fresh(nid)

    def _exec(self, node, st):
        """side effects of one CFG node on the symbolic store; records events"""
        a = node.ast
        nid = node.id
        if a is None or node.kind in ("T", "F", "join", "entry", "exit", "rexit"):
            return
        root = a
        if node.kind == "for":
            root = a.iter
        elif node.kind == "with":
            root = ast.Module(body=[], type_ignores=[])
            root.body = [ast.Expr(value=it.context_expr) for it in a.items]
        elif node.kind == "handler":
            root = None
        # calls (evaluated in the pre-state)
        if root is not None and not isinstance(root, (ast.FunctionDef, ast.AsyncFunctionDef, ast.ClassDef)):
            for c in walk_no_nested(root):
                if isinstance(c, ast.Call):
                    st.events.append(CallEv(nid, c, self, st))
            aw = [x for x in walk_no_nested(root) if isinstance(x, ast.Await)]
        else:
            aw = []
        if aw or isinstance(a, (ast.AsyncFor, ast.AsyncWith)):
            for x in aw:
                st.events.append(AwaitEv(nid, x, self.tok(x.value, st)))
            st.epoch += 1
            st.heap.clear()
        if node.kind == "for":
            for nm in target_names(a.target):
                st.val[nm] = self._fresh(nid, ("it", nm))
                st.cells.pop(nm, None)
            ck = self.count_source(node, st)
            if ck is not None:
                # `for n in <itertools.count iterator>`: each arrival at the head is one next() on the iterator --
                # the same fact as `n = next(it)` at the top of a `while True` body
                _, cur, step = st.cells[ck]
                st.cells[ck] = ("iter", cur + step, step)
                if isinstance(a.target, ast.Name):
                    st.cells[a.target.id] = cur
            return
        if node.kind == "with":
            for it in a.items:
                if it.optional_vars is not None:
                    for nm in target_names(it.optional_vars):
                        st.val[nm] = self._fresh(nid, ("with", nm))
            return
        if node.kind == "handler":
            if getattr(a, "name", None):
                st.val[a.name] = self._fresh(nid, ("exc",))
            return
        if isinstance(a, ast.Assign) or (isinstance(a, ast.AnnAssign) and a.value is not None):
            targets = a.targets if isinstance(a, ast.Assign) else [a.target]
            cc = self._count_call(a.value)
            pv = None
            if cc is not None:
                s0, s1 = self.poly_of(cc[0], st), self.poly_of(cc[1], st)
                cell = ("iter", s0, s1) if s0 is not None and s1 is not None else None
            else:
                pv = self.poly_of(a.value, st)
                cell = pv
            v = self.value_of(a.value, st, nid)
            arm = self.chosen(a.value, st)
            for t in targets:
                self._bind_target(t, v, st, nid)
                if isinstance(t, ast.Name):
                    if cell is not None:
                        st.cells[t.id] = cell
                    else:
                        st.cells.pop(t.id, None)
                elif isinstance(t, (ast.Tuple, ast.List)):
                    for nm in target_names(t):
                        st.cells.pop(nm, None)
                elif isinstance(t, ast.Attribute):
                    st.events.append(StoreEv(nid, self.tok(t.value, st), t.attr, v, pv, a, arm))
            return
        if isinstance(a, ast.AugAssign):
            if isinstance(a.target, ast.Name):
                nm = a.target.id
                cur = st.cells.get(nm)
                new = None
                if isinstance(cur, Poly):
                    new = self.poly_of(ast.BinOp(left=ast.Name(id=nm, ctx=ast.Load()), op=a.op, right=a.value), st)
                if new is not None:
                    st.cells[nm] = new
                else:
                    st.cells.pop(nm, None)
                st.val[nm] = self._fresh(nid)
            elif isinstance(a.target, ast.Attribute):
                v = self._fresh(nid)
                st.heap[(self.tok(a.target.value, st), a.target.attr)] = v
                st.events.append(StoreEv(nid, self.tok(a.target.value, st), a.target.attr, v, None, a))
            return
        if isinstance(a, ast.Delete):
            for t in a.targets:
                if isinstance(t, ast.Name):
                    st.val[t.id] = ("del", nid)
                    st.cells.pop(t.id, None)
            return
        if isinstance(a, (ast.FunctionDef, ast.AsyncFunctionDef)):
            st.val[a.name] = ("def", a.name)
            return
        if isinstance(a, (ast.Expr, ast.Return)) or node.kind == "test":
            # `next(it)` as a statement / inside a test advances the iterator
            e = a.value if isinstance(a, (ast.Expr, ast.Return)) else a
            if e is not None and self._next_calls(e, st):
                for c in self._next_calls(e, st):
                    nm = c.args[0].id
                    _, cur, step = st.cells[nm]
                    st.cells[nm] = ("iter", cur + step, step)
            for x in (walk_no_nested(e) if e is not None else ()):
                if isinstance(x, ast.NamedExpr):
                    st.val[x.target.id] = self.value_of(x.value, st, nid)
                    st.cells.pop(x.target.id, None)

    def run(self, start, state=None, stop_at=(), watch=(), follow_raise=True):
        """enumerate the normal-flow paths from CFG node `start` (executed) until the function's exit, a node in
        `stop_at` (not executed) or a node already on the path; `watch`: nodes at which the pre-state is kept in
        path.st.snaps[nid]."""
        cfg = self.cfg
        stop_at = set(stop_at)
        watch = set(watch)
        out = []
        st0 = state.fork() if state is not None else State()
        stack = [(start, st0, True)]
        while stack:
            nid, st, first = stack.pop()
            if len(out) > self.max_paths:
                raise AnalysisError("symbolic path enumeration of %s: more than %d paths" % (self.fi.short, self.max_paths))
            if nid == cfg.exit:
                out.append(SPath(st, "exit", nid))
                continue
            if nid == cfg.rexit:
                out.append(SPath(st, "rexit", nid))
                continue
            if nid in stop_at and not first:
                out.append(SPath(st, "stop", nid))
                continue
            if st.nodes.count(nid) >= self.unroll:
                out.append(SPath(st, "revisit", nid))
                continue
            node = cfg.nodes[nid]
            if nid in watch:
                st.snaps[nid] = st.copy()
            st.nodes.append(nid)
            succ = [(d, l) for d, l in cfg.succ[nid] if l != "exc" or (node.kind == "raise" and follow_raise)]
            if node.kind == "for" and self.count_source(node, st) is not None:
                # an itertools.count iterator is never exhausted: the loop is only left from inside its body
                succ = [(d, l) for d, l in succ if l != "F"]
            if node.kind == "test":
                f = self.formula(node.ast, st)
                self._exec(node, st)
                t = evalf(f, st.dec)
                if t is not None:
                    for d, l in succ:
                        if l == ("T" if t else "F"):
                            stack.append((d, st, False))
                    continue
                und = [a for a in atoms_of(f) if a not in st.dec]
                if len(und) > 8:
                    raise AnalysisError("test with more than 8 undecided atoms in %s" % self.fi.short)
                for bits in itertools.product((False, True), repeat=len(und)):
                    s2 = st.copy()
                    s2.dec.update(zip(und, bits))
                    t2 = evalf(f, s2.dec)
                    for d, l in succ:
                        if l == ("T" if t2 else "F"):
                            stack.append((d, s2, False))
                continue
            # a conditional expression in the statement: decide its test first (one path per outcome), so that
            # `x = a if c else b` and `if c: x = a` / `else: x = b` are the same paths
            forks = [st]
            if node.kind in ("stmt", "return") and node.ast is not None and not isinstance(node.ast, (ast.FunctionDef, ast.AsyncFunctionDef, ast.ClassDef)):
                und = []
                for x in walk_no_nested(node.ast):
                    if isinstance(x, ast.IfExp):
                        for a_ in atoms_of(self.formula(x.test, st)):
                            if a_ not in st.dec and a_ not in und:
                                und.append(a_)
                if 0 < len(und) <= 4:
                    forks = []
                    for bits in itertools.product((False, True), repeat=len(und)):
                        s2 = st.copy()
                        s2.dec.update(zip(und, bits))
                        forks.append(s2)
            for st_ in forks:
                self._exec(node, st_)
                if not succ:
                    out.append(SPath(st_, "dead", nid))
                    continue
                if len(succ) == 1:
                    self._enter(succ[0][0], succ[0][1], st_)
                    stack.append((succ[0][0], st_, False))
                else:
                    for d, l in succ:
                        s3 = st_.copy()
                        self._enter(d, l, s3)
                        stack.append((d, s3, False))
        return out


# ---------------------------------------------------------------------------
# C08.j: exchanges versus hand-overs to the transport (which may re-enter the error dispatch)


def bind_call(call, names):
    """{parameter name: argument expression} of a call against the callee's parameter names (self excluded);
    None when the call uses * / ** forms the rules do not bind"""
    if any(isinstance(a, ast.Starred) for a in call.args) or any(k.arg is None for k in call.keywords) or len(call.args) > len(names):
        return None
    out = dict(zip(names, call.args))
    for k in call.keywords:
        out[k.arg] = k.value
    return out


def deep_origins(flow, e, at, fields=(), depth=4):
    """Flow.origins, looking additionally *through* collections built in the function: an element of iterating a
    comprehension / generator expression / display (directly, or held in a local, or wrapped in list()/tuple()/...)
    denotes what the collection's element expression denotes.  Elements of iterating one of `fields` are left alone
    (they are entry reads)."""
    out = []
    for v, pth in flow.origins(e, at):
        if isinstance(v, Elem) and depth > 0 and not any(flow.entry_read(v, F) is not None for F in fields):
            ids = flow.rn(v.scope) if isinstance(v.scope, ast.AST) else []
            at_it = ids[0] if ids else at
            inner, _copied = unwrap_iter(v.it)
            srcs = []
            for c_, cp in flow.origins(inner, at_it):
                c_, _ = unwrap_iter(c_) if isinstance(c_, ast.AST) else (c_, False)
                if cp == () and isinstance(c_, (ast.ListComp, ast.SetComp, ast.GeneratorExp)):
                    srcs.append([c_.elt])
                elif cp == () and isinstance(c_, (ast.List, ast.Tuple, ast.Set)) and not any(isinstance(x, ast.Starred) for x in c_.elts):
                    srcs.append(list(c_.elts))
                else:
                    srcs = None
                    break
            if srcs:
                for elts in srcs:
                    for x in elts:
                        site = flow.site(x, at_it)
                        for v2, p2 in deep_origins(flow, x, site, fields, depth - 1):
                            out.append(flow._index(v2, p2 + pth) if isinstance(v2, ast.AST) else (v2, p2 + pth))
                continue
        out.append((v, pth))
    return out


def cancelled_tables(prog, fi):
    """({field chain: [cancel calls]}, number of reachable `.cancel()` calls): the tables `self.F` of whose entries
    function fi cancels (a component of) the value -- `F.pop(k)[1].cancel()`, `_, t = F.pop(k); t.cancel()`,
    `for _, t in F.values(): t.cancel()`, `F[k][1].cancel()` ... (Flow.origins + Flow.entry_read)"""
    flow = Flow(prog, fi)
    a = fi.node.args.args
    selfn = a[0].arg if a else "self"
    fields = sorted({chain(n) for n in walk_no_nested(fi.node) if isinstance(n, ast.Attribute) and isinstance(n.value, ast.Name) and n.value.id == selfn and chain(n)})
    out = {}
    ncancel = 0
    for c in calls_in(fi.node):
        if not (isinstance(c.func, ast.Attribute) and c.func.attr == "cancel" and not c.args and not c.keywords):
            continue
        ids = flow.rn(c)
        if not ids:
            continue
        ncancel += 1
        for v, pth in deep_origins(flow, c.func.value, ids[0], fields):
            if not isinstance(v, (ast.AST, Elem)):
                continue
            for F in fields:
                er = flow.entry_read(v, F, flow.site(v, ids[0]))
                comp = entry_component(er[0], pth) if er is not None else None
                if comp is not None and comp[0] == "value":
                    out.setdefault(F, []).append(c)
    return out, ncancel


class XEvent:
    """kind 'tx' (the message is handed to the transport) or 'reg' (an entry for the message goes into an exchange
    table); msg: the expression denoting the message in the function (None: not identified); rearm: a 'reg' that
    puts back an entry the same activation took out before on every path"""

    def __init__(self, kind, nid, msg, node, rearm=False, direct=True):
        self.kind, self.nid, self.msg, self.node, self.rearm, self.direct = kind, nid, msg, node, rearm, direct


class Exchanges:
    """Where do the methods of one class hand a message to the transport object held in `self.<transport>`, and
    where do they enter it into one of the exchange `tables` -- directly or through other methods of the class
    (summaries over the message *parameter*, so no method name matters)."""

    def __init__(self, prog, cls, tables, transport):
        self.prog, self.cls, self.tables, self.transport = prog, cls, list(tables), transport
        self._ev = {}
        self._busy = set()
        self._flows = {}

    def funcs(self):
        pre = self.cls.qn + "."
        return [f for f in self.prog.funcs.values() if f.qn.startswith(pre) and isinstance(f.node, (ast.FunctionDef, ast.AsyncFunctionDef))]

    def flow(self, fi):
        if id(fi) not in self._flows:
            self._flows[id(fi)] = Flow(self.prog, fi)
        return self._flows[id(fi)]

    def _callee(self, call):
        f = call.func
        if isinstance(f, ast.Attribute) and isinstance(f.value, ast.Name) and f.value.id == "self":
            try:
                return self.prog.lookup_method(self.cls.qn, f.attr)
            except Exception:
                return None
        return None

    def _key_message(self, flow, key, at):
        """the expression M when the key of an exchange is built from attributes of one object M (`(M.remote, M.mid)`)"""
        if key is None:
            return None
        o = flow.origins(key, at)
        if len(o) != 1 or o[0][1] != () or not isinstance(o[0][0], ast.AST):
            return None
        bases = []
        for n in ast.walk(o[0][0]):
            if isinstance(n, ast.Attribute) and isinstance(n.value, ast.Name):
                bases.append(n.value)
        ids = {b.id for b in bases}
        if len(ids) != 1 or any(isinstance(n, ast.Name) and n.id not in ids for n in ast.walk(o[0][0])):
            return None
        return bases[0]

    def _same_key(self, flow, k1, at1, k2, at2):
        if k1 is None or k2 is None:
            return False
        o1, o2 = flow.origins(k1, at1), flow.origins(k2, at2)
        if len(o1) != 1 or len(o2) != 1 or o1[0][1] != o2[0][1]:
            return False
        v1, v2 = o1[0][0], o2[0][0]
        if v1 is v2:
            return True
        if not (isinstance(v1, ast.AST) and isinstance(v2, ast.AST) and same(v1, v2)):
            return False
        # structurally equal expressions evaluated at two places: equal values when nothing they read is re-bound
        return not any(isinstance(n, ast.Name) and writes_to_name(flow.fnode, n.id) for n in ast.walk(v1)) and not any(isinstance(n, ast.Call) for n in ast.walk(v1))

    def events(self, fi):
        if id(fi) in self._ev:
            return self._ev[id(fi)]
        if id(fi) in self._busy:
            return []  # recursion: the cycle adds nothing the first visit does not see
        self._busy.add(id(fi))
        flow = self.flow(fi)
        cfg = flow.cfg
        out = []
        for F in self.tables:
            ops = stores_to(fi.node, F, nested=False)
            removals = []
            for k, n in ops:
                key = None
                if k == "pop" and isinstance(n, ast.Call) and n.args:
                    key = n.args[0]
                elif k in ("delitem", "del") and isinstance(n, ast.Delete):
                    for t in n.targets:
                        if isinstance(t, ast.Subscript):
                            key = t.slice
                if key is not None:
                    removals.extend((i, key) for i in flow.rn(n))
            for k, n in ops:
                key = None
                if k == "setitem" and isinstance(n, (ast.Assign, ast.AnnAssign, ast.AugAssign)):
                    tg = n.targets if isinstance(n, ast.Assign) else [n.target]
                    for t in tg:
                        for tt in (t.elts if isinstance(t, (ast.Tuple, ast.List)) else [t]):
                            if isinstance(tt, ast.Subscript):
                                key = tt.slice
                elif k in ("setdefault", "__setitem__") and isinstance(n, ast.Call) and n.args:
                    key = n.args[0]
                elif k == "update":
                    key = None
                else:
                    continue
                for nid in flow.rn(n):
                    took = {i for i, rk in removals if self._same_key(flow, key, nid, rk, i)}
                    rearm = bool(took) and cfg.must_pass(cfg.entry, took, to=nid, skip_labels=())
                    out.append(XEvent("reg", nid, self._key_message(flow, key, nid), n, rearm=rearm))
        for c in calls_in(fi.node):
            ids = flow.rn(c)
            if not ids or not isinstance(c.func, ast.Attribute):
                continue
            if flow.denotes_field(c.func.value, "self." + self.transport, ids[0]):
                out.append(XEvent("tx", ids[0], c.args[0] if c.args and not isinstance(c.args[0], ast.Starred) else (c.keywords[0].value if c.keywords else None), c))
                continue
            m = self._callee(c)
            if m is None or m is fi:
                continue
            b = bind_call(c, params(m))
            sub = self.events(m)
            mp = set(params(m))
            for ev in sub:
                if not (isinstance(ev.msg, ast.Name) and ev.msg.id in mp and not writes_to_name(m.node, ev.msg.id)):
                    continue  # what the callee does with a message of its own is ordered inside the callee
                arg = b.get(ev.msg.id) if b is not None else None
                out.append(XEvent(ev.kind, ids[0], arg, c, rearm=ev.rearm, direct=False))
        self._busy.discard(id(fi))
        self._ev[id(fi)] = out
        return out

    def may_be_same(self, flow, t, r):
        """can the two events concern the same message? (unknown: yes)"""
        a, b = t.msg, r.msg
        if a is None or b is None:
            return True
        if isinstance(a, ast.Name) and isinstance(b, ast.Name):
            if a.id == b.id:
                return True
            oa, ob = flow.origins(a, t.nid), flow.origins(b, r.nid)
            return any(va is vb and pa == pb for va, pa in oa for vb, pb in ob)
        return same(a, b)

    def late_registrations(self, fi, include_rearm=False):
        """[(reg event, tx event)]: an entry for a message is made on a path on which the message was handed to the
        transport before (a path that re-binds the local denoting the message concerns another message)"""
        flow = self.flow(fi)
        cfg = flow.cfg
        evs = self.events(fi)
        out = []
        for r in evs:
            if r.kind != "reg" or (r.rearm and not include_rearm):
                continue
            for t in evs:
                if t.kind != "tx" or t.nid == r.nid or not self.may_be_same(flow, t, r):
                    continue
                avoid = set()
                if isinstance(t.msg, ast.Name) and isinstance(r.msg, ast.Name) and t.msg.id == r.msg.id:
                    avoid = {nid for nid, _ in flow.write_nodes(t.msg.id)} - {t.nid, r.nid}
                if cfg.exists_path(t.nid, r.nid, avoid=avoid):
                    out.append((r, t))
                    break
        return out


# ---------------------------------------------------------------------------
# C08.k: error relays (functions that pass an error report they receive on towards TokenManager.dispatch_error)


class Relay:
    def __init__(self, fi, err, calls):
        self.fi, self.err, self.calls = fi, err, calls  # calls: forwarding call nodes


def entry_param(flow, e, at):
    """name of the parameter whose value *at entry* expression e denotes at node `at` (through locals), else None"""
    o = flow.origins(e, at)
    if len(o) != 1 or o[0][1] != () or not isinstance(o[0][0], ast.Name):
        return None
    nm = o[0][0].id
    if nm not in flow.params:
        return None
    ws, live = flow.reaching(nm, at)
    return nm if live and not ws else None


def error_relays(prog, base, base_err):
    """Fixpoint from the sink `base` (a FuncInfo whose parameter `base_err` is the error): a function is a relay
    when it calls a method *named* like a known sink or relay (receivers such as `self._ctx` have no static type,
    so the callee is resolved by name and signature) and passes one of its own parameters, unchanged, as that
    callee's error argument.  -> {id(fi): Relay}"""
    sinks = {base.name: [(params(base), base_err)]}
    relays = {}
    cands = [f for f in prog.funcs.values() if isinstance(f.node, (ast.FunctionDef, ast.AsyncFunctionDef)) and f is not base]
    flows = {}
    mcalls = {}
    changed = True
    while changed:
        changed = False
        for f in cands:
            own = [p for p in params(f)]
            if not own:
                continue
            found = {}
            if id(f) not in mcalls:
                mcalls[id(f)] = [c for c in calls_in(f.node) if isinstance(c.func, ast.Attribute)]
            for c in mcalls[id(f)]:
                if c.func.attr not in sinks:
                    continue
                if id(f) not in flows:
                    flows[id(f)] = Flow(prog, f)
                flow = flows[id(f)]
                ids = flow.rn(c)
                if not ids:
                    continue
                for names, err in sinks[c.func.attr]:
                    b = bind_call(c, names)
                    if b is None or err not in b:
                        continue
                    p = entry_param(flow, b[err], ids[0])
                    if p is not None and p in own:
                        found.setdefault(p, [])
                        if not any(x is c for x in found[p]):
                            found[p].append(c)
            if not found:
                continue
            # one error parameter per relay (a function forwarding two different parameters as errors is outside
            # the vocabulary: keep the one with most forwarding calls)
            p = sorted(found, key=lambda k_: (-len(found[k_]), k_))[0]
            old = relays.get(id(f))
            if old is None or old.err != p or len(old.calls) != len(found[p]):
                relays[id(f)] = Relay(f, p, found[p])
                sig = (params(f), p)
                if sig not in sinks.setdefault(f.name, []):
                    sinks[f.name].append(sig)
                changed = True
    return relays


def param_dependent_atoms(fi, pm):
    """{decision key of the path model: does the tested condition read a parameter (other than self), directly or
    through locals computed from one}"""
    own = set(params(fi))
    memo = {}

    def dep_name(nm, seen):
        if nm in memo:
            return memo[nm]
        if nm in seen:
            return False
        seen = seen | {nm}
        r = False
        ws = writes_to_name(fi.node, nm)
        if nm in own:
            r = True
        for w in ws:
            v = None
            if isinstance(w, (ast.Assign, ast.AugAssign, ast.AnnAssign)):
                v = w.value
            elif isinstance(w, (ast.For, ast.AsyncFor)):
                v = w.iter
            elif isinstance(w, ast.NamedExpr):
                v = w.value
            if v is not None and dep_expr(v, seen):
                r = True
        memo[nm] = r
        return r

    def dep_expr(e, seen=frozenset()):
        return any(isinstance(n, ast.Name) and dep_name(n.id, seen) for n in ast.walk(e))

    out = {}
    for n in pm.cfg.nodes:
        if n.kind == "test" and n.ast is not None:
            k, _pol = pm.key_of(n)
            out[k] = out.get(k, False) or dep_expr(n.ast)
    return out


def value_dependent_forwarding(fi, relay):
    """None when, on the normal paths of the relay, whether the report is passed on is a function of the layer's own
    state alone; else (skipping path, forwarding path, path model): two paths that agree on every condition over the
    object's state they both decide, one of which forwards while the other returns without forwarding -- so for
    some state the outcome depends on the error (or on the remote) that was reported."""
    from ..paths import PathModel
    pm = PathModel(fi)
    cfg = pm.cfg
    fw = {i for c in relay.calls for i in cfg.locate(c) if cfg.is_reachable(i)}
    dep = param_dependent_atoms(fi, pm)
    skips, fwds = [], []
    for p in pm.paths():
        if p.end not in ("return", "fall"):
            continue
        (fwds if fw & set(p.nodes) else skips).append(p)
    for s in skips:
        sd = {k: v for k, v in s.decisions.items() if not dep.get(k, True)}
        for w in fwds:
            if not any(k in sd and sd[k] != v for k, v in w.decisions.items() if not dep.get(k, True)):
                return s, w, pm
    return None
